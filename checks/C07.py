"""C07 — system protection gates inbound traffic only, by the configured predicate."""
import collections
import struct

from vlib.core import Case

PROP = "C07"
SPEC_MODE = "spec"
KEEP_PREFIX = 1          # the first `clock` creates the case's time base
SIZES = {"quick": 12000, "thorough": 300000}
BATCH = 3000
RULE = ("op sequences: first `clock T0` (T0 = 1.9e12 + offsets on/around bucket and cycle boundaries), 0-5 system rules over the five "
        "metric types x strategies {-1,1,0,2} with boundary triggers (integers the aggregates can reach, +-0.5, 0, +Inf, a slice of "
        "invalid and NaN triggers), injected load/cpu readings exactly at a loaded trigger, at the adjacent floats (bit pattern +-1), +-1e-9, +-1e-4, +-1e-3, +-0.25, "
        "well above, plus NaN / +-Inf / negative / -0 / denormal readings, then 10-90 ops: inbound / outbound / default-type (no WithTrafficType option) entries over 4 resources "
        "with batch counts {0,1,2,3,7,none}, exits in random order, time steps {0,1,50..400,499,500,501,999,1000,1001,>array, to next bucket "
        "boundary}, rule reloads (fresh slices, and the same slice after an in-place change of one rule object), stat reads (incl. the error count of `exit … err`), `rules` reads of system.GetRules(), nil pointers in the loaded slice, memory-usage injections, changes of the configured metric statistic shape, `many n` = n fresh resource names entered and exited (0.1 % of the cases with n > 10000 = base.DefaultMaxResourceAmount); four profiles (mixed, burst = many entries per bucket, bbr = load above trigger with "
        "completions in the window so that the capacity estimate is the deciding term, rt = response times of a few ms against avgRT triggers between whole ms). Non-trivial = the case contains at least one "
        "system block and one inbound pass decided while >=1 rule was loaded; distinct by (multiset of loaded (metric,strategy), "
        "sequence of decisions).")

T_BASE = 1_900_000_000_000


def fb(x):
    return "f:%016x" % struct.unpack(">Q", struct.pack(">d", float(x)))[0]


NAN = "f:7ff8000000000000"
PINF = "f:7ff0000000000000"

GEN_STATS = collections.Counter()


def trigger_for(rng, metric):
    r = rng.random()
    if metric == 3:    # qps
        base = rng.choice([0, 1, 2, 3, 4, 5, 8, 12])
        return base + rng.choice([0, 0, 0, 0.5, -0.5, 0.001]) if base else rng.choice([0, 0.5])
    if metric == 2:    # concurrency
        base = rng.choice([0, 1, 2, 3, 4, 6])
        return base + rng.choice([0, 0, 0, 0.5, -0.5]) if base else 0
    if metric == 1:    # avg rt (whole ms: the code floors rtSum/complete before comparing)
        if rng.random() < 0.5:
            return rng.choice([1, 2, 3, 5, 10, 20, 50, 100]) + rng.choice([0, 0.5, 0.5, 0.25, 1.0 / 3, 0.75])
        return rng.choice([0, 1, 50, 100, 100.5, 150, 200, 250, 400, 499, 500, 1000, 2000])
    if metric == 0:    # load
        return rng.choice([0, 0.5, 1, 2, 2.5, 8])
    if metric == 4:    # cpu usage in [0,1]
        return rng.choice([0, 0.25, 0.5, 0.75, 0.9, 1.0])
    return r


def gen_rule(rng):
    r = rng.random()
    metric = rng.choice([0, 0, 1, 2, 2, 3, 3, 4])
    strategy = rng.choice([-1, -1, 1, 1, 1, 0, 2]) if metric in (0, 4) else rng.choice([-1, -1, -1, 1, 0])
    if r < 0.01:       # a nil pointer in the slice
        GEN_STATS["rule:nil"] += 1
        return "nil"
    if r < 0.04:       # invalid: dropped by IsValidSystemRule
        k = rng.choice(["neg", "cpu>1", "metric"])
        GEN_STATS["rule:invalid"] += 1
        if k == "neg":
            return f"{metric}/{strategy}/{fb(-rng.choice([0.5, 1, 3]))}"
        if k == "cpu>1":
            return f"4/{strategy}/{fb(rng.choice([1.5, 2, 100]))}"
        return f"{rng.choice([5, 6, 99])}/{strategy}/{fb(1)}"
    if r < 0.055:
        GEN_STATS["rule:nan"] += 1
        return f"{metric}/{strategy}/{NAN}"
    if r < 0.08:
        GEN_STATS["rule:inf"] += 1
        return f"{metric}/{strategy}/{PINF}"
    GEN_STATS[f"rule:m{metric}:s{strategy}"] += 1
    return f"{metric}/{strategy}/{fb(trigger_for(rng, metric))}"


def unfb(tok):
    return struct.unpack(">d", struct.pack(">Q", int(tok[2:], 16)))[0]


def rule_valid(tok):
    if tok == "nil":
        return False
    m, _, f = tok.split("/")
    v = unfb(f)
    return int(m) < 5 and v == v and v >= 0 and not (int(m) == 4 and v > 1)


def gen_valid_rule(rng):
    """a rule IsValidSystemRule accepts (for `remod`: an in-place change of a loaded rule object is only meaningful
    for the property when the changed slice is itself a valid load)"""
    while True:
        r = gen_rule(rng)
        if rule_valid(r):
            return r


def gen_rules(rng):
    n = rng.choice([0, 1, 1, 1, 2, 2, 3, 4, 5])
    return "load " + " ".join(gen_rule(rng) for _ in range(n)) if n else "load"


def nextafter(x, up):
    """the adjacent float64 (bit pattern +-1); the comparison `reading > trigger` of two float64 is exact, so readings
    one ulp / 1e-9 / 1e-4 / 1e-3 off the trigger are legitimate probes (no guard band needed for this comparison)"""
    if x != x or x in (float("inf"), float("-inf")):
        return x
    if x == 0.0:
        return 5e-324 if up else -5e-324
    b = struct.unpack(">Q", struct.pack(">d", x))[0]
    b += 1 if (x > 0) == up else -1
    return struct.unpack(">d", struct.pack(">Q", b))[0]


def near(rng, t):
    k = rng.randrange(12)
    GEN_STATS["reading-vs-trigger:" + ["equal", "next-float", "prev-float", "+1e-9", "-1e-9", "+1e-4", "-1e-4", "+1e-3", "-1e-3",
                                       "+0.25", "-0.25", "+1..5"][k]] += 1
    if k == 0:
        return t
    if k == 1:
        return nextafter(t, True)
    if k == 2:
        return nextafter(t, False)
    if k < 9:
        d = [1e-9, 1e-4, 1e-3][(k - 3) // 2]
        return t + d if (k - 3) % 2 == 0 else t - d
    return t + [0.25, -0.25, rng.choice([1, 5])][k - 9]


def sys_value(rng, kind, rules_line):
    """a reading at / just around a trigger of a loaded rule of this kind, else a typical or special one"""
    m = "0" if kind == "load" else "4"
    trig = []
    for tok in rules_line.split()[1:]:
        p = tok.split("/")
        if p[0] == m and p[2] not in (NAN, PINF):
            trig.append(struct.unpack(">d", struct.pack(">Q", int(p[2][2:], 16)))[0])
    if trig and rng.random() < 0.8:
        return near(rng, rng.choice(trig))
    r = rng.random()
    if r < 0.12:
        GEN_STATS["reading:special"] += 1
        return rng.choice([float("nan"), float("inf"), float("-inf"), -0.0, -3.5, 5e-324])
    return rng.choice([-1, 0, 0.3, 0.6, 1, 3, 10])


def fbv(x):
    return NAN if x != x else fb(x)


def gen_case(rng, cid):
    profile = rng.choice(["mixed", "mixed", "burst", "bbr", "bbr", "rt"])
    GEN_STATS["profile:" + profile] += 1
    off = rng.choice([0, 1, 123, 499, 500, 501, 999, 1000, 9500, 9999, 10000, rng.randint(0, 20000), rng.randint(0, 10 ** 7)])
    now = T_BASE + off
    ops = [f"clock {now}"]
    rules = gen_rules(rng)
    if profile == "bbr":
        # a BBR load/cpu rule with the reading above the trigger: the capacity estimate decides
        m = rng.choice([0, 4])
        t = rng.choice([0.5, 1, 2]) if m == 0 else rng.choice([0.25, 0.5])
        extra = [] if rng.random() < 0.6 else [gen_rule(rng)]
        rules = "load " + " ".join([f"{m}/1/{fb(t)}"] + extra)
        GEN_STATS[f"rule:m{m}:s1"] += 1
        # armed by a margin, or by a hair (next float, 1e-9, 1e-4 above the trigger)
        ops.append(f"sys {'load' if m == 0 else 'cpu'} {fb(rng.choice([t + 0.25, t + 1, t + 5, nextafter(t, True), t + 1e-9, t + 1e-4, t + 1e-3]))}")
    elif profile == "rt":
        # an avgRT rule whose trigger lies between whole milliseconds (the floor of the average matters)
        t = rng.choice([1, 2, 3, 5, 10, 20, 50]) + rng.choice([0.5, 0.5, 0.25, 0.75, 0])
        extra = [] if rng.random() < 0.7 else [gen_rule(rng)]
        rules = "load " + " ".join([f"1/-1/{fb(t)}"] + extra)
        GEN_STATS["rule:m1:s-1"] += 1
    else:
        for kind in ("load", "cpu"):
            if rng.random() < 0.6:
                ops.append(f"sys {kind} {fbv(sys_value(rng, kind, rules))}")
    ops.append(rules)
    # the configured metric statistic shape (what InitWithConfig leaves behind): never an input of the inbound node
    if rng.random() < 0.08:
        ops.append("config " + rng.choice(["1 1000", "1 500", "4 2000", "10 5000", "5 5000", "20 10000", "2 1000"]))
        GEN_STATS["config"] += 1
    # a few cases push the resource node map past base.DefaultMaxResourceAmount (10000 names) before the decisions
    if rng.random() < 0.001:
        ops.append(f"many {rng.choice([10001, 10500])}")
        GEN_STATS["many:>10000"] += 1
    live, nid = [], 0
    nops = rng.randint(10, 90)
    p_in = {"mixed": 0.7, "burst": 0.85, "bbr": 0.9, "rt": 0.9}[profile]
    for _ in range(nops):
        r = rng.random()
        if r < (0.45 if profile != "burst" else 0.6):
            nid += 1
            # `default` = api.Entry without WithTrafficType (pooled options must not inherit the previous call's type),
            # `-` = without WithBatchCount
            d = "in" if rng.random() < p_in else rng.choice(["out", "default", "default"])
            b = rng.choice([1, 1, 1, 1, 2, 3, 0, 7, "-", "-"])
            GEN_STATS["entry:" + d] += 1
            ops.append(f"entry e{nid} r{rng.randrange(4)} {d} {b}")
            live.append(f"e{nid}")
        elif r < 0.68:
            if live:
                x = live.pop(rng.randrange(len(live)))
                ops.append(f"exit {x}" + (" err" if rng.random() < 0.2 else ""))
        elif r < 0.86:
            if profile == "burst":
                d = rng.choice([0, 1, 5, 50, 100, 250, 499, 500])
            elif profile == "bbr":
                d = rng.choice([1, 20, 50, 100, 150, 200, 250, 400, 500, 600, 1000])
            elif profile == "rt":       # response times of a few ms with odd sums: fractional averages
                d = rng.choice([0, 1, 1, 2, 3, 5, 7, 10, 20, 50, 100])
            else:
                d = rng.choice([0, 1, 50, 100, 250, 400, 499, 500, 501, 999, 1000, 1001, 1500, 2000, 9999, 10001, 30000])
            if rng.random() < 0.15:
                d = (500 - now % 500) % 500 + rng.choice([0, 500, 1000])     # exactly on a bucket boundary
            now += d
            ops.append(f"clock {now}")
        elif r < 0.90:
            if rng.random() < 0.08:     # memory usage: not an input of any system rule
                ops.append(f"sys mem {rng.choice([-1, 0, 1 << 20, 1 << 40])}")
            elif rng.random() < 0.06:
                ops.append("config " + rng.choice(["1 1000", "4 2000", "2 1000", "10 5000"]))
                GEN_STATS["config"] += 1
            elif rng.random() < 0.06:
                ops.append(f"many {rng.choice([1, 3, 20])}")
                GEN_STATS["many:small"] += 1
            else:
                kind = rng.choice(["load", "cpu"])
                ops.append(f"sys {kind} {fbv(sys_value(rng, kind, rules))}")
        elif r < 0.93:
            valid_idx = [k for k, tok in enumerate(rules.split()[1:]) if rule_valid(tok)]
            if valid_idx and rng.random() < 0.4:
                # the caller edits one of its (in force) rule objects in place and loads the same slice again
                i = rng.choice(valid_idx)
                nr = gen_valid_rule(rng)
                toks = rules.split()
                toks[1 + i] = nr
                rules = " ".join(toks)
                ops.append(f"remod {i} {nr}")
                GEN_STATS["remod"] += 1
            else:
                rules = gen_rules(rng)
                ops.append(rules)
        else:
            ops.append("stat" if rng.random() < 0.8 else "rules")
    # every case returns the (not time based) gauge to zero
    rng.shuffle(live)
    if live and rng.random() < 0.5:
        now += rng.choice([0, 1, 100, 700])
        ops.append(f"clock {now}")
    for x in live:
        ops.append(f"exit {x}")
    ops.append("stat")
    return Case(cid, ops, tags=(profile, f"off={off}"))


LAST = []


def gen(ctx, n):
    cases = [gen_case(ctx.rng, f"g{ctx.seed}-{i}") for i in range(n)]
    ctx.cov["generator_distribution"] = dict(GEN_STATS)
    LAST[:] = cases
    return cases


def measure(ctx, eng):
    """distribution of the inbound decisions of the last generated batch (driver mode `explain`): which metric
    types were violated, and how often the BBR capacity term was the deciding one"""
    from vlib import core
    if not LAST:
        return
    out, err = core.run_lean(PROP, "explain", core.cases_text(LAST))
    if out is None:
        ctx.cov["decision_distribution"] = "unavailable: " + str(err)
        return
    d = collections.Counter()
    for l in out:
        if not l.startswith("entry ") or " ; viol=" not in l:
            continue
        op, _, r = l.partition(" => ")
        res, viol, bbr, conc, fx = [x.strip() for x in r.split(";")]
        d["capacity comparison: binary64 vs exact rational " + fx[3:]] += 1
        ms = sorted(set(viol[5:].split(","))) if viol[5:] else []
        d["inbound decisions"] += 1
        d["violated metric types: " + ("none" if not ms else "+".join(ms))] += 1
        d["violated rules per decision: " + str(min(len(viol[5:].split(",")) if viol[5:] else 0, 3)) + ("+" if viol[5:].count(",") >= 2 else "")] += 1
        if bbr != "bbr=na":
            d[f"BBR armed, capacity {bbr[4:]}, {res}"] += 1
            if conc in ("conc=1", "conc=2", "conc=0"):
                d[f"BBR armed at {conc}"] += 1
    ctx.cov["decision_distribution"] = dict(d)


def run(ctx):
    import sys
    from vlib import std
    return std.run(ctx, sys.modules[__name__], extra=measure)


def corpus():
    import glob
    import os
    from vlib.core import ROOT
    res = []
    for p in sorted(glob.glob(os.path.join(ROOT, "corpus", PROP, "*.ops"))):
        ops = [l.rstrip("\n") for l in open(p) if l.strip() and not l.startswith("#") and not l.startswith("case ")]
        res.append(Case(os.path.basename(p), ops, tags=("corpus",)))
    return res


def densify(ops, rng):
    """add stat reads and probe entries (one inbound, one outbound, exited at once) after random ops"""
    out, k = [], 0
    for o in ops:
        out.append(o)
        if rng.random() < 0.4:
            out.append("stat")
        if rng.random() < 0.1:
            out.append("rules")
        if rng.random() < 0.3 and not o.startswith("case"):
            k += 1
            d = rng.choice(["in", "out", "default"])
            out.append(f"entry probe{k} rp {d} {rng.choice(['1', '-'])}")
            out.append(f"exit probe{k}")
    return out


def nontrivial(case, impl):
    loaded = ()
    sys_block = in_pass = False
    decisions = []
    sig = set()
    for l in impl:
        op, _, r = l.partition(" => ")
        t = op.split()
        if t[0] == "remod":
            loaded = loaded + (tuple(t[2].split("/")[:2]),)
        elif t[0] == "load":
            loaded = tuple(sorted(tuple(x.split("/")[:2]) for x in t[1:]))
        elif t[0] == "entry":
            decisions.append((t[3], r))
            if loaded:
                sig.add(loaded)
                if r == "block sys":
                    sys_block = True
                elif r == "pass" and t[3] == "in":
                    in_pass = True
    if sys_block and in_pass:
        return hash((tuple(sorted(sig)), tuple(decisions)))
    return None


META = {
    "technique": "Lean 4 proof (predicate equivalence for every rule order; leap-array refinement of the inbound aggregates) + differential correspondence model/impl/spec",
    "level_text": ("Theorems in lean/Sentinel/Props/C07.lean, kernel-checked: for every rule list, every permutation of it (Go map order), every value of "
                   "the inbound aggregates and of load/cpu over any linearly ordered carrier of the float64 values, the code-shaped AdaptiveSlot.Check "
                   "never blocks outbound traffic, blocks an inbound request iff some loaded rule is violated (the property's predicate, written once in "
                   "Model/System.lean), and passes it when none is; the aggregates the code reads (leap array 20x500 ms, default view, gauge) equal the "
                   "reference recomputed from the recorded history for every monotone op sequence; the end-to-end equality (code-shaped machine = Spec machine on every op "
                   "sequence) also holds on a carrier with IEEE-like NaN comparisons for everything LoadRules can put in force (decisions_eq_spec_nan_carrier). The model is tied to core/system, core/stat and "
                   "api.Entry by running the same op files through the real packages (virtual clock, injected load/cpu) and the compiled Lean driver."),
    "level_note": ("Trusted: Lean kernel; axioms propext/Classical.choice/Quot.sound; Go harness (time shift by whole array intervals between cases in one process); "
                   "binary64 expressions (qps, GetMaxAvg*MinRT/1000) are parameters of the proof and instantiated with Lean Float in the driver; sequential use only; "
                   "the OS collectors of load/cpu are replaced by the injection functions."),
    "design_ref": "DESIGN.md 6.C07",
}
