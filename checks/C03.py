"""C03 — circuit breaker trips, blocks and recovers exactly as specified."""
import struct

from vlib.core import Case

PROP = "C03"
SPEC_MODE = "spec"
KEEP_PREFIX = 2            # `clock T0` and `load …` are never removed by the shrinker
SIZES = {"quick": 1500, "thorough": 40000}
BATCH = 1000
RULE = ("a first `load` of 1-4 circuit-breaking rules (all three strategies, 1-3 breakers on the main resource, sometimes a second "
        "resource; bucket counts {0,1,2,5,10}, statistic intervals that do / do not divide, ProbeNum in {0,1,2,3}, MinRequestAmount "
        "0..10, thresholds on a 1/1000 grid incl. 0 and 1, retry timeouts 1..12345 ms incl. non-round ones (7, 997, 1001, 1009, 3333), MaxAllowedRtMs up to 120000 with response times of minutes, requests exactly at deadline-1/deadline/deadline+1, ~4% invalid rules) followed by 40-260 ops built from "
        "phases incl. reloads (`load` / `loadres` mid-history: rules kept, modified stat-reusably or not, dropped, added, split, duplicated, reordered), ramps (bad completions first, good ones lift the window to the minimum), window roll-overs after good-only buckets, full recoveries (trip, deadline, ProbeNum good probes), "
        "error completions with varying dynamic error type (plain, wrapped, *base.BlockError of a really blocked entry, nil-typed) and reporting "
        "path (TraceError, Exit(WithError), SetError), clears / invalid loads of rule-less resources sprinkled in (~4% of the observation points), "
        "~20% of the entries with WithBatchCount(n), n in {0,1,2,3,5,70000}, ~2% odd input (unknown / double exit, resource without rules, re-used entry id) and "
        "bursts of entries with bad/good completions (response time around MaxAllowedRtMs), waits landing on bucket "
        "boundaries / retry deadline -1,0,+1 / whole windows, probes (good, bad, several in flight), stragglers exited in a later "
        "state, observations (`log`, `state`) after most ops; non-trivial = the listener log contains at least one Closed->Open and "
        "one transition out of HalfOpen; distinct by (rules, transition sequence)")

RES = "r"


def fb(x):
    return "f:%016x" % struct.unpack(">Q", struct.pack(">d", float(x)))[0]


def gen_rule(rng, res):
    kind = rng.choice([0, 1, 2])
    retry = rng.choice([1, 5, 20, 50, 100, 100, 1000, 3000, 7, 997, 1001, 1009, 3333, 12345])
    minreq = rng.choice([0, 1, 1, 2, 3, 5, 10])
    buckets = rng.choice([0, 1, 2, 5, 10])
    if rng.random() < 0.75:
        stat = rng.choice([10, 20, 100, 100, 200, 1000, 1000, 5000])
    else:
        stat = rng.choice([7, 33, 101, 1001, 250, 15])          # some do not divide => one bucket
    maxrt = rng.choice([0, 1, 5, 10, 50])
    if rng.random() < 0.12:
        maxrt = rng.choice([59999, 60000, 60001, 120000])      # response times of minutes: nothing may cap the measured rt
    if kind == 2:
        thr = rng.choice([0, 1, 1, 2, 2, 3, 5, 2.5, 0.5])
    else:
        thr = rng.choice([0.0, 0.1, 0.25, 0.3, 0.5, 0.5, 0.75, 1.0, rng.randint(0, 1000) / 1000.0])
    probe = rng.choice([0, 0, 1, 1, 3, 3, 2])
    r = rng.random()
    if r < 0.04:
        w = rng.randrange(4)
        if w == 0:
            retry = 0
        elif w == 1:
            stat = 0
        elif w == 2:
            thr = -0.5
        elif kind != 2:
            thr = 1.5
    return dict(res=res, kind=kind, retry=retry, minreq=minreq, stat=stat, buckets=buckets, maxrt=maxrt, thr=thr, probe=probe)


def rule_tok(r):
    return f"{r['res']},{r['kind']},{r['retry']},{r['minreq']},{r['stat']},{r['buckets']},{r['maxrt']},{fb(r['thr'])},{r['probe']}"


def geometry(r):
    n = r["buckets"]
    if n == 0 or r["stat"] == 0 or r["stat"] % n != 0:
        n = 1
    return n, max(1, r["stat"] // n)


def variant(rng, r, compatible):
    """a rule derived from `r`: stat-reusable with it (same resource, strategy, interval, bucket count) but usually not
    equal, or - `compatible=False` - with another window geometry / strategy (a fresh statistic)"""
    v = dict(r)
    if compatible:
        for f in rng.sample(["thr", "retry", "minreq", "probe", "maxrt"], rng.choice([1, 1, 2])):
            if f == "thr":
                v["thr"] = rng.choice([0, 1, 2, 3, 4, 6]) if v["kind"] == 2 else rng.choice([0.1, 0.25, 0.5, 0.75, 1.0])
            elif f == "retry":
                v["retry"] = rng.choice([5, 50, 100, 1000])
            elif f == "minreq":
                v["minreq"] = rng.choice([0, 1, 2, 3, 5])
            elif f == "probe":
                v["probe"] = rng.choice([0, 1, 3])
            else:
                v["maxrt"] = rng.choice([0, 1, 5, 10, 50])      # for the error strategies this field is not compared: still equal
    else:
        w = rng.randrange(3)
        if w == 0:
            v["kind"] = (v["kind"] + rng.choice([1, 2])) % 3
            v["thr"] = rng.choice([1, 2, 3]) if v["kind"] == 2 else rng.choice([0.25, 0.5, 1.0])
        elif w == 1:
            v["buckets"] = rng.choice([b for b in [0, 1, 2, 5, 10] if b != v["buckets"]])
        else:
            v["stat"] = rng.choice([x for x in [10, 100, 200, 1000, 5000] if x != v["stat"]])
    return v


class G:
    def __init__(self, rng, rules, t0):
        self.rng, self.rules, self.now = rng, rules, t0
        self.ops = []
        self.nid = 0
        self.open_ids = []          # (id, res) possibly live
        self.last_bad = t0

    def obs(self, p=0.6):
        if self.rng.random() < 0.04:
            # rule-manager calls on rule-less / unrelated resources: must be invisible to the observed resources
            w = self.rng.randrange(4)
            z = self.rng.choice(["z", "z", "y"])
            if w == 0:
                self.ops.append(f"clearres {z}")
            elif w == 1:
                self.ops.append(f"loadres {z}")
            elif w == 2:
                self.ops.append(f"loadres {z} {z},{self.rng.choice([0, 1, 2])},0,1,1000,1,0,{fb(0.5)},0")        # invalid: retry 0
            else:
                self.ops.append(f"loadres {z} {z},1,100,1,0,1,0,{fb(0.5)},0 {z},1,100,1,1000,1,0,{fb(-0.5)},0")    # both invalid
        if self.rng.random() < p:
            self.ops.append("log")
        if self.rng.random() < p * 0.5:
            self.ops.append(f"state {self.rng.choice(self.resources())}")

    def resources(self):
        return sorted({r["res"] for r in self.rules})

    def clock(self, d):
        if d > 0:
            self.now += d
            self.ops.append(f"clock {self.now}")

    def entry(self, res=None):
        res = res or (RES if self.rng.random() < 0.85 else self.rng.choice(self.resources()))
        self.nid += 1
        # ~20% of the entries carry WithBatchCount(n): the breaker must count one completion per entry whatever n is
        batch = ""
        if self.rng.random() < 0.2:
            batch = " #" + str(self.rng.choice([0, 1, 2, 2, 3, 3, 5, 70000]))
        self.ops.append(f"entry {self.nid} {res}{batch}")
        self.open_ids.append(self.nid)
        return self.nid

    def exit(self, i, bad):
        """bad completion: error flag and a slow response time (so every strategy sees it as bad).  The error's dynamic
        type and the way it is reported vary: every non-nil error is an error completion"""
        tok = ""
        if bad:
            tok = " err"
            if self.rng.random() < 0.5:
                tok += ":" + self.rng.choice(["plain", "wrapped", "block", "block", "niltyped"]) + ":" + self.rng.choice(["trace", "trace", "exitopt", "seterr"])
        self.ops.append(f"exit {i}" + tok)
        if i in self.open_ids:
            self.open_ids.remove(i)
        if bad:
            self.last_bad = self.now

    def rt(self, bad):
        m = self.rng.choice(self.rules)["maxrt"]
        if bad:
            return self.rng.choice([m + 1, m + 1, m + 2, m + 30])
        return self.rng.choice([0, m, max(0, m - 1), 0]) if self.rng.random() < 0.9 else m + 1

    def request(self, bad, strict=False):
        i = self.entry(RES if strict else None)
        self.obs(0.3)
        # slow and erroneous mostly coincide; sometimes they do not (breakers of different strategies then disagree)
        slow = bad if (strict or self.rng.random() < 0.85) else not bad
        self.clock(self.rt(slow))
        self.exit(i, bad)
        self.obs()

    def wait(self):
        rng = self.rng
        r = rng.choice(self.rules)
        n, L = geometry(r)
        k = rng.random()
        if k < 0.35:
            # towards the retry deadline of the last bad completion
            target = self.last_bad + r["retry"] + rng.choice([-1, 0, 0, 1, 2])
            d = target - self.now
            if d <= 0:
                d = rng.choice([1, r["retry"], r["retry"] + 1])
        elif k < 0.6:
            # land on / just before a bucket boundary
            d = (L - self.now % L) % L + rng.choice([0, 0, L, (n - 1) * L]) - rng.choice([0, 0, 1])
        elif k < 0.8:
            d = rng.choice([1, 1, 2, L, L + 1, max(1, L - 1)])
        else:
            d = rng.choice([r["stat"], r["stat"] + 1, max(1, r["stat"] - 1), 2 * r["stat"] + 3, r["retry"] * 2, 10 * r["stat"]])
        self.clock(max(0, d))

    def reload(self):
        """LoadRules / LoadRulesOfResource in the middle of the history: rules kept equal (breaker kept with its state),
        modified but stat-reusable (new closed breaker on the old counters), modified beyond that (fresh counters), dropped,
        added (mostly stat-compatible with an existing one: competes for its statistic), reordered, duplicated; or one
        rule *split* into two stat-compatible unequal ones.  Followed by traffic so that the counters matter."""
        rng = self.rng
        main = [r for r in self.rules if r["res"] == RES]
        other = [r for r in self.rules if r["res"] != RES]
        k = rng.random()
        if main and k < 0.25:
            r = rng.choice(main)
            new = [x for x in main if x is not r or rng.random() < 0.3]
            new += [variant(rng, r, True) for _ in range(rng.choice([2, 2, 3]))]
        else:
            new = []
            for r in main:
                q = rng.random()
                if q < 0.30:
                    new.append(dict(r))
                elif q < 0.60:
                    new.append(variant(rng, r, True))
                elif q < 0.72:
                    new.append(variant(rng, r, False))
            for _ in range(rng.choice([0, 1, 1, 2])):
                if main and rng.random() < 0.7:
                    new.append(variant(rng, rng.choice(main), True))
                else:
                    new.append(gen_rule(rng, RES))
            if main and rng.random() < 0.15:
                new.append(dict(rng.choice(main)))          # duplicate of an existing rule
        if rng.random() < 0.3:
            rng.shuffle(new)
        new = new[:4]
        if not new:
            new = [gen_rule(rng, RES)] if rng.random() < 0.8 else []
        if rng.random() < 0.5:
            self.ops.append(f"loadres {RES} " + " ".join(rule_tok(r) for r in new))
            self.rules = other + new
        else:
            if other and rng.random() < 0.4:
                other = [variant(rng, x, rng.random() < 0.7) if rng.random() < 0.5 else x for x in other]
            allr = new + other
            if rng.random() < 0.3:
                rng.shuffle(allr)
            self.ops.append("load " + " ".join(rule_tok(r) for r in allr))
            self.rules = allr
        if not any(r["res"] == RES for r in self.rules):
            # an empty resource is legal (requests pass); give it a rule again before the next phase needs one
            self.ops.append(f"entry {self.nid + 1} {RES}")
            self.nid += 1
            r = gen_rule(rng, RES)
            self.ops.append(f"loadres {RES} {rule_tok(r)}")
            self.rules = self.rules + [r]
        self.obs(1.0)
        for _ in range(rng.randint(0, 6)):
            self.request(rng.random() < 0.8, strict=True)

    def ramp(self):
        """bad completions first while the window is still below MinRequestAmount, then good ones lift it to the
        minimum with the ratio / count already at the threshold: the *good* completion must trip the breaker"""
        rng = self.rng
        r = rng.choice([x for x in self.rules if x["res"] == RES])
        if rng.random() < 0.6:
            self.clock(r["stat"] + rng.choice([1, r["retry"], 2 * r["stat"]]))      # start from an empty window
        m = max(2, r["minreq"])
        f = rng.randint(1, m - 1)
        for _ in range(f):
            self.request(True, strict=True)
        for _ in range(m - f + rng.choice([0, 0, 1])):
            self.request(False, strict=True)
        self.obs(1.0)

    def roll(self):
        """a bucket that saw only good (fast) completions is recycled one or more array cycles later and then
        receives bad ones: the old totals must be gone"""
        rng = self.rng
        r = rng.choice([x for x in self.rules if x["res"] == RES])
        n, L = geometry(r)
        for _ in range(rng.randint(1, 6)):
            self.request(False, strict=True)
        self.clock(rng.choice([1, 2]) * r["stat"] + rng.choice([0, 1, max(0, L - 1), L, r["retry"]]))
        for _ in range(max(1, r["minreq"]) + rng.choice([0, 0, 1])):
            self.request(True, strict=True)
        self.obs(1.0)

    def edge(self):
        """trip on a fresh window, then requests exactly at deadline-1, deadline, deadline+1 (deadline = time of the
        tripping completion + RetryTimeoutMs, non-round timeouts included)"""
        rng = self.rng
        r = rng.choice([x for x in self.rules if x["res"] == RES])
        self.clock(r["stat"] + max(x["retry"] for x in self.rules) + 1)
        for _ in range(max(1, r["minreq"])):
            self.request(True, strict=True)
        self.obs(1.0)
        d = self.last_bad + r["retry"] - 1 - self.now
        if d > 0:
            self.clock(d)
        for k in range(3):
            i = self.entry(RES)
            self.obs(0.7)
            if rng.random() < 0.5:
                self.exit(i, rng.random() < 0.5)
            self.clock(1)
        self.obs(1.0)

    def recover(self):
        """trip, wait for the deadline, then max(1, ProbeNum) good probes one after the other: a full recovery (repeated
        recoveries in one case exercise the probe counter across half-open phases)"""
        rng = self.rng
        r = rng.choice([x for x in self.rules if x["res"] == RES])
        for _ in range(max(1, r["minreq"])):
            self.request(True, strict=True)
        self.clock(max(x["retry"] for x in self.rules) + rng.choice([0, 0, 1]))
        for _ in range(max(1, max(x["probe"] for x in self.rules)) + rng.choice([0, 0, 1])):
            self.request(False, strict=True)
        self.obs(1.0)

    def phase(self):
        rng = self.rng
        k = rng.random()
        if k < 0.07:
            return self.ramp()
        if k < 0.14:
            return self.roll()
        if k < 0.20:
            return self.recover()
        if k < 0.28:
            return self.reload()
        if k < 0.34:
            return self.edge()
        k = (k - 0.34) / 0.66
        if k < 0.30:
            # burst with a given share of bad completions
            p = rng.choice([0.0, 0.3, 0.5, 0.8, 1.0])
            for _ in range(rng.randint(1, 8)):
                self.request(rng.random() < p)
                if rng.random() < 0.3:
                    self.clock(rng.choice([1, 1, 2, 5]))
        elif k < 0.50:
            self.wait()
            self.obs(0.4)
        elif k < 0.70:
            # probe after waiting for the deadline; result good/bad
            self.wait()
            self.request(rng.random() < 0.4)
        elif k < 0.82:
            # several requests in flight, completed in random order (stragglers across state changes)
            ids = [self.entry() for _ in range(rng.randint(2, 5))]
            self.obs(0.5)
            rng.shuffle(ids)
            for i in ids:
                if rng.random() < 0.25:
                    continue            # stays open: a straggler for later
                self.clock(rng.choice([0, 1, self.rt(True), self.rt(False)]))
                self.exit(i, rng.random() < 0.5)
                self.obs(0.5)
        elif k < 0.92:
            # exit an old straggler
            if self.open_ids:
                i = rng.choice(self.open_ids)
                self.clock(rng.choice([0, 0, 1, 7]))
                self.exit(i, rng.random() < 0.5)
                self.obs()
            else:
                self.request(True)
        elif k < 0.94:
            # odd input: exit of an unknown / already exited id, resource without rules, re-used entry id
            w = rng.randrange(4)
            if w == 0:
                self.ops.append(f"exit {rng.choice([0, self.nid + 50, max(1, self.nid - 1)])}" + rng.choice(["", " err"]))
            elif w == 1:
                self.nid += 1
                self.ops.append(f"entry {self.nid} z")
                self.ops.append(f"exit {self.nid} err")
            elif w == 2 and self.nid > 0:
                self.ops.append(f"entry {rng.randint(1, self.nid)} {RES}")
            else:
                self.ops.append("state z")
            self.obs(0.8)
        else:
            # hammer entries without completing anything (open => all blocked; half-open gate)
            for _ in range(rng.randint(2, 6)):
                self.entry()
                if rng.random() < 0.3:
                    self.clock(1)
            self.obs(1.0)


def gen_case(rng, cid):
    nmain = rng.choice([1, 1, 1, 2, 2, 3])
    rules = [gen_rule(rng, RES) for _ in range(nmain)]
    if rng.random() < 0.25:
        rules.insert(rng.randrange(len(rules) + 1), gen_rule(rng, "q"))
    t0 = 1_900_000_000_000 + rng.choice([0, 1, 499, 500, 999, rng.randint(0, 10 ** 7)])
    g = G(rng, rules, t0)
    ops = [f"clock {t0}", "load " + " ".join(rule_tok(r) for r in rules)]
    if rng.random() < 0.5:
        # rules loaded some time before the first request (array created in an older cycle)
        g.clock(rng.choice([1, 7, 1000, 12345, 10 ** 6]))
    target = rng.randint(40, 260)
    while len(g.ops) < target:
        g.phase()
    g.ops.append("log")
    for r in g.resources():
        g.ops.append(f"state {r}")
    tags = tuple(f"k{r['kind']}n{r['buckets']}I{r['stat']}p{r['probe']}" for r in rules)
    return Case(cid, ops + g.ops, tags=tags)


def gen(ctx, n):
    return [gen_case(ctx.rng, f"g{ctx.seed}-{i}") for i in range(n)]


def corpus():
    import glob, os
    from vlib.core import ROOT
    res = []
    for p in sorted(glob.glob(os.path.join(ROOT, "corpus", PROP, "*.ops"))):
        ops = [l.rstrip("\n") for l in open(p) if l.strip() and not l.startswith("#") and not l.startswith("case ")]
        res.append(Case(os.path.basename(p), ops, tags=("corpus",)))
    return res


def densify(ops, rng):
    """observe after every op (listener log + states of both resources)"""
    out = []
    for o in ops:
        out.append(o.split(" => ")[0])
        if o.startswith(("entry", "exit", "clock")) and rng.random() < 0.8:
            out.append("log")
            out.append(f"state {RES}")
    return out


def nontrivial(case, impl):
    trs = []
    for l in impl:
        op, _, r = l.partition(" => ")
        if op == "log" and r not in ("", "[]"):
            for e in r.strip("[]").split(","):
                f = e.split(":")
                trs.append(f[0] + f[1])
    kinds = {t[-2:] for t in trs}
    if "CO" in kinds and ("HO" in kinds or "HC" in kinds):
        return hash((case.ops[1], tuple(trs)))
    return None


META = {
    "technique": "Lean 4 proof (state-machine invariants by induction over histories, leap-array refinement) + differential "
                 "correspondence model/impl + abstract-spec comparison",
    "level_text": ("Theorems in lean/Sentinel/Props/C03.lean, kernel-checked for every rule (strategy, thresholds, geometry, probe number), every "
                   "list of breakers and every time-stamped history of entries, exits and clock readings: the breaker machine over the code-shaped "
                   "leap array produces exactly the outputs of the same machine over the bare history of completions counted in the last n aligned "
                   "buckets (refines_abstract); a closed breaker opens iff the window holds at least MinRequestAmount completions and the trip "
                   "predicate holds; an open breaker blocks until nextRetry = openTime + RetryTimeoutMs (both Closed->Open and HalfOpen->Open), then "
                   "admits the probe; a failed probe re-opens for a full timeout, max(1,ProbeNum) good probes close and zero every window counter; "
                   "a blocked entry (incl. the rollback of probes of other breakers) leaves every breaker unchanged; the listener log of any "
                   "history is a legal walk from Closed ending in the current state. The model is tied to core/circuitbreaker by running the same "
                   "op files through circuitbreaker.LoadRules / api.Entry / TraceError / Exit with a registered StateChangeListener on a virtual "
                   "clock and comparing every decision, listener event (incl. snapshot bits) and state."),
    "level_note": ("Trusted: Lean kernel; axioms propext/Classical.choice/Quot.sound; Go harness, virtual util.Clock, canonical printing. The trip "
                   "predicate (float64 slow/total, 1e-8 tolerance, uint64(T)) is a parameter of the theorems and is evaluated with Lean Float in the "
                   "driver (same binary64 ops); generated thresholds lie on a 1/1000 grid so no decision is within rounding of the tolerance "
                   "boundary. Modelled not verified: sequential use only (concurrency is C12); rule equality by threshold bit pattern (the 1e-8 tolerance of isEqualsTo belongs to C13/C14); "
                   "uint64 counters as naturals."),
    "design_ref": "DESIGN.md 6.C03",
}
