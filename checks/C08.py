"""C08 — sliding-window statistics equal the aligned-bucket reference (stat/base level)."""
from vlib.core import Case

PROP = "C08"
SPEC_MODE = "spec"
KEEP_PREFIX = 1
SIZES = {"quick": 4000, "thorough": 80000}
BATCH = 4000
RULE = ("op sequences over random (sampleCount, interval) geometries (one in eight the library default 20x10000 with a 2x1000 node), 1-3 derived "
        "views (valid and invalid), BaseStatNodes with GenerateReadStat views (same interval as the default metric with other sample counts, "
        "non-tiling requests, other intervals) read through base.ReadStat, array-level reads Count/Values/MinRt/MaxConcurrency, idle gaps around "
        "k*2^32 ms (and 2^31, 2^33) +- {0,1,bucket,interval} from a bucket holding data in one case of seven, events "
        "pass/block/complete/error/rt + concurrency samples, time steps from {0,1,L-1,L,L+1,view,n*L,>array}; start times incl. "
        "near zero; non-trivial = at least one slot reset happened (time crossed a full array cycle with an add after it) and "
        "at least one non-zero read; distinct by (geometry, views, op-kind sequence)")

EVS = ["pass", "block", "complete", "error", "rt"]


def divisors(x):
    return [d for d in range(1, x + 1) if x % d == 0]


def view_ok(sc, Iv, n, L):
    I = n * L
    return Iv != 0 and sc != 0 and Iv % sc == 0 and I % Iv == 0 and (Iv // sc) % L == 0


def valid_view(rng, n, L):
    """a view that tiles the array: Iv | I, Lv a multiple of L, sc = Iv / Lv"""
    Iv = rng.choice([d * L for d in divisors(n)])
    Lv = rng.choice([d * L for d in divisors(Iv // L)])
    return Iv // Lv, Iv


def any_view(rng, n, L):
    I = n * L
    return (rng.choice([0, 1, 2, 3, n, rng.randint(1, 5)]),
            rng.choice([0, L, I, I + L, max(1, I // 2), rng.randint(1, 2 * I)]))


def gen_case(rng, cid):
    # one geometry in eight is the library default: global 20 x 10000 ms (500 ms buckets), default metric 2 x 1000 ms
    default_geo = rng.random() < 0.125
    if default_geo:
        n, L = 20, 500
    else:
        n = rng.choice([1, 1, 2, 2, 3, 4, 5, 6, 8, 10, 16, 20, 64]) if rng.random() < 0.9 else rng.randint(1, 40)
        L = rng.choice([1, 2, 3, 7, 100, 250, 500, 1000, 1500])
    I = n * L
    t0 = rng.choice([1, 2, 7, max(1, L - 1), L, I, max(1, I - L - 1), I + 1, 10 ** 12, rng.randint(1, 3 * I + 5), rng.randint(1, 10 ** 6)])
    ops = [f"la.new {n} {I} {t0}"]
    views = []
    if default_geo:
        ops.append("view 2 1000")
        views.append((2, 1000))
    for _ in range(rng.randint(1, 3)):
        sc, Iv = valid_view(rng, n, L) if rng.random() < 0.85 else any_view(rng, n, L)
        ops.append(f"view {sc} {Iv}")
        if view_ok(sc, Iv, n, L):
            views.append((sc, Iv))
    if not views:
        ops.append(f"view 1 {I}")
        views.append((1, I))
    nodes = []          # per node: list of readable views, [0] = the default metric

    def add_ngen(k):
        sc0, Iv0 = nodes[k][0]
        r = rng.random()
        if r < 0.5:
            # same interval as the node's default metric, another sample count: valid ones (other tilings of Iv0) and
            # invalid ones (not a divisor, buckets finer than the array's, zero)
            per = Iv0 // L
            sc = rng.choice([d for d in divisors(per)] + [sc0 + 1, 3, 4, 2 * per, 0, rng.randint(1, 6)])
            Iv = Iv0
        elif r < 0.8:
            sc, Iv = valid_view(rng, n, L)
        else:
            sc, Iv = any_view(rng, n, L)
        ops.append(f"ngen {k} {sc} {Iv}")
        if view_ok(sc, Iv, n, L):
            nodes[k].append((sc, Iv))

    def add_node(first=False):
        sc, Iv = (2, 1000) if (default_geo and first) else rng.choice(views)
        ops.append(f"node {sc} {Iv}")
        nodes.append([(sc, Iv)])
        if rng.random() < 0.7:
            for _ in range(rng.randint(1, 2)):
                add_ngen(len(nodes) - 1)
    if default_geo or rng.random() < 0.6:
        add_node(first=True)
    now = t0
    nops = rng.randint(10, 120)
    # one case in five walks the clock bucket by bucket, so that consecutive slots (incl. the wrap-around) are all live
    walk = rng.random() < 0.2
    # one case in seven has idle gaps around multiples of 2^32 ms (and 2^31, 2^33) measured from a bucket that holds data:
    # the age of a bucket is a 64-bit quantity although interval and bucket length are 32-bit
    far = rng.random() < 0.15
    last_add = None

    def array_read():
        g = rng.choice(["count", "count", "values", "aminrt", "amaxconc"])
        ops.append(f"count {rng.choice(EVS)}" if g == "count" else g)

    for _ in range(nops):
        r = rng.random()
        if r < 0.28 and far and rng.random() < 0.3:
            base = rng.choice([2 ** 32, 2 ** 32, 2 ** 32, 2 * 2 ** 32, 3 * 2 ** 32, 2 ** 31, 2 ** 33])
            anchor = rng.choice([now, now - now % L] + ([last_add - last_add % L] * 3 if last_add is not None else []))
            off = rng.choice([0, 1, max(0, L - 1), L, L + 1, max(0, I - 1), I, I + 1, -1, -L, rng.randint(0, I), rng.randint(0, I)])
            if anchor + base + off > now:
                now = anchor + base + off
            ops.append(f"clock {now}")
            # look at the array right away, sometimes first through the read that does not refresh
            if rng.random() < 0.4:
                ops.append("items 0 10000000000000")
            for _ in range(rng.randint(1, 3)):
                array_read()
        elif r < 0.28:
            sc, Iv = rng.choice(views)
            if walk:
                d = rng.choice([L, L, L, L, max(0, L - 1), L + 1, 1, 0, 2 * L, Iv // sc])
            else:
                d = rng.choice([0, 1, max(0, L - 1), L, L + 1, Iv // sc, Iv, I - 1, I, I + 1, 2 * I, 3 * I + 7, rng.randint(0, 2 * L)])
            # land exactly on bucket / cycle boundaries sometimes
            if rng.random() < 0.2:
                d = (L - now % L) % L + rng.choice([0, L, I])
            now += d
            ops.append(f"clock {now}")
        elif r < 0.58:
            ev = rng.choice(EVS)
            amt = rng.choice([0, 1, 1, 2, 5, rng.randint(0, 100), 59999, 60000, 70000]) if ev == "rt" else rng.choice([0, 1, 1, 2, 3, rng.randint(1, 1000)])
            ops.append(f"add {ev} {amt}")
            last_add = now
        elif r < 0.63:
            ops.append(f"conc {rng.choice([0, 1, 2, 7, -1, rng.randint(0, 50)])}")
            last_add = now
        elif r < 0.65 and len(nodes) < 3 and rng.random() < 0.3:
            add_node()
        elif r < 0.80 and nodes:
            k = rng.randrange(len(nodes))
            q = rng.random()
            if q < 0.40:
                g = rng.choice(["sum", "qps", "prevqps", "maxavg", "minrt", "maxconc", "avgrt", "avgrt"])
                if g in ("sum", "qps", "prevqps", "maxavg"):
                    ops.append(f"nread {k} {g} {rng.choice(EVS)}")
                else:
                    ops.append(f"nread {k} {g}")
            elif q < 0.52 and len(nodes[k]) < 5:
                add_ngen(k)
            else:
                # through a ReadStat of the node: the default metric or (preferably) a generated one
                v = rng.randrange(len(nodes[k])) if rng.random() < 0.3 else len(nodes[k]) - 1 - rng.randrange(min(2, len(nodes[k])))
                g = rng.choice(["sum", "qps", "prevqps", "prevqps", "minrt", "avgrt"])
                if g in ("sum", "qps", "prevqps"):
                    ops.append(f"ngread {k} {v} {g} {rng.choice(EVS)}")
                else:
                    ops.append(f"ngread {k} {v} {g}")
        elif r < 0.92:
            k = rng.randrange(len(views))
            g = rng.choice(["sum", "sum", "qps", "prevqps", "maxbucket", "minrt", "maxconc", "avgrt"])
            if g in ("sum", "qps", "prevqps", "maxbucket"):
                ops.append(f"read {k} {g} {rng.choice(EVS)}")
            else:
                ops.append(f"read {k} {g}")
        elif r < 0.96:
            array_read()
        else:
            lo = rng.choice([0, max(0, now - I), now - now % 1000 if now >= 1000 else 0])
            hi = rng.choice([now, now + I, 10 ** 13])
            ops.append(f"items {lo} {hi}")
    return Case(cid, ops, tags=(f"n={n}", f"L={L}", f"t0={t0}") + (("default-geo",) if default_geo else ()) + (("walk",) if walk else ()) + (("far",) if far else ()))


def gen(ctx, n):
    return [gen_case(ctx.rng, f"g{ctx.seed}-{i}") for i in range(n)]


def corpus():
    import glob, os
    from vlib.core import ROOT
    res = []
    for p in sorted(glob.glob(os.path.join(ROOT, "corpus", PROP, "*.ops"))):
        ops = [l.rstrip("\n") for l in open(p) if l.strip() and not l.startswith("#") and not l.startswith("case ")]
        res.append(Case(os.path.basename(p), ops, tags=("corpus",)))
    return res


def densify(ops, rng):
    """insert reads of every kind after random ops (and small clock nudges): used by the failing-input search"""
    nviews = sum(1 for o in ops if o.startswith("view "))
    out = []
    nnodes = 0
    for o in ops:
        out.append(o)
        if o.startswith("node "):
            nnodes += 1
        if nnodes and rng.random() < 0.3:
            k = rng.randrange(nnodes)
            out.append(f"ngread {k} 0 {rng.choice(['sum', 'prevqps'])} {rng.choice(EVS)}")
            out.append(f"nread {k} {rng.choice(['minrt', 'maxconc', 'avgrt'])}")
        if rng.random() < 0.5 and not o.startswith("la.new") and nviews:
            k = rng.randrange(nviews)
            for g in rng.sample(["sum", "prevqps", "maxbucket", "minrt", "maxconc", "count", "items"], 3):
                if g in ("sum", "prevqps", "maxbucket"):
                    out.append(f"read {k} {g} {rng.choice(EVS)}")
                elif g == "count":
                    out.append(rng.choice([f"count {rng.choice(EVS)}", "values", "aminrt", "amaxconc"]))
                elif g == "items":
                    out.append("items 0 10000000000000")
                else:
                    out.append(f"read {k} {g}")
    return out


def nontrivial(case, impl):
    new = case.ops[0].split()
    n, I, t0 = int(new[1]), int(new[2]), int(new[3])
    now, last_add, reset, nz = t0, None, False, False
    for l in impl:
        op, _, r = l.partition(" => ")
        t = op.split()
        if t[0] == "clock":
            now = int(t[1])
        elif t[0] in ("add", "conc"):
            if last_add is not None and now - last_add >= I:
                reset = True
            if now - t0 >= I:
                reset = True
            last_add = now
        elif r and r not in ("0", "ok", "[]", "f:0000000000000000") and not r.startswith("err"):
            nz = True
    if reset and nz:
        kinds = "".join(o.split()[0][:2] + (o.split()[2][0] if o.startswith("read") else "") for o in case.ops[1:])
        return hash((n, I, tuple(o for o in case.ops if o.startswith("view")), kinds))
    return None


META = {
    "technique": "Lean 4 proof (induction over histories, leap-array refinement invariant) + differential correspondence model/impl",
    "level_text": ("Theorems in lean/Sentinel/Props/C08.lean, kernel-checked for every geometry, every monotone history (recordings interleaved with "
                   "the refreshes of array-level reads) and every read time: the code-shaped view read (deprecation test, start range, filter, sum) "
                   "equals the filter-and-sum reference over the history for any commutative-monoid payload (counters, min RT, peak concurrency), "
                   "incl. the previous-window read under Iv+Lv<=n*L; CountWithTime, GetMaxOfSingleBucket, the BaseStatNode getters and the per-second "
                   "items (outside the known boundary region; inside it the exact one-bucket-longer window) equal their references; no recording is "
                   "dropped, and CheckValidityForReuseStatistic is exactly the tiling condition. The model is tied to core/stat/base and "
                   "stat.BaseStatNode (incl. GenerateReadStat / DefaultMetric views read through base.ReadStat) by running the "
                   "same op files through the real package (virtual clock) and the compiled Lean driver and comparing every observation; the spec "
                   "(reference over the history) is evaluated against the implementation directly, so a disagreement is reported with a shrunk replay."),
    "level_note": ("Trusted: Lean kernel; axioms propext/Classical.choice/Quot.sound; Go harness, virtual util.Clock, canonical printing (NaN sign dropped, "
                   "all-zero per-second items dropped); float division for QPS/AvgRT instantiated with Lean Float (same binary64 op). Modelled not "
                   "verified: sequential use only (concurrency is C09), int64 counters as naturals, BaseStatNode wrappers."),
    "design_ref": "DESIGN.md 6.C08",
}
