"""C10 — throttling flow rules pace admitted requests and bound queueing (flow.LoadRules + api.Entry; schedules via the th.* hooks)."""
import itertools
import math
import struct

from vlib import std
from vlib.core import Case

PROP = "C10"
SPEC_MODE = "oracle"
KEEP_PREFIX = 1
SIZES = {"quick": 8000, "thorough": 250000}
BATCH = 4000
RULE = ("sequential: one resource with 1-3 throttling rules (30% of the cases two or three: identical, one field different, independent), 45% of "
        "the cases reload the rule list in the middle of the traffic, one thing changed at a time (identical list, no-op, MaxQueueingTimeMs, "
        "threshold, StatIntervalInMs incl. 0<->1000, rule added / removed / order swapped; 20% of the reloads go through an empty rule set "
        "(ClearRules, ClearRulesOfResource, empty load / loadres) and back to the same or a changed list; 40% of all (re)loads go through "
        "flow.LoadRulesOfResource instead of flow.LoadRules; up to 4 throttling rules plus never-blocking Reject rules (`rj`) of the same resource in "
        "between; 30% of the reloads are armed with `onsleep` and performed by the virtual clock while a request sleeps for one of the rules; "
        "flow.LoadRulesOfResource instead of flow.LoadRules (an identical list is then replaced by: every rule kept + one appended / order swapped); a rule of another resource comes or goes so that the "
        "reload is a real one) followed by callers at the same instant and callers one to two intervals apart; per rule (threshold from integers, fractions, 0, -0, subnormal, huge, +Inf and values that put "
        "b*I/T next to an integer; statIntervalMs incl. 0 and 2^32-1; maxQueueingTimeMs incl. 0, k*interval and k*interval+-1), 10-60 "
        "requests with batch in {0,1,2,3,floor(T),floor(T)+1,big}, arrival times non-decreasing with steps aimed at the decision boundaries "
        "(last+iv, last+iv+-1, last+iv-maxQ, last+iv-maxQ-1, same instant, huge idle gaps), callers arriving while an earlier one still sleeps; "
        "virtual clock from 0, from small values and from 1.9e18 ns. schedules: 2-4 declared workers with individual clock readings around the "
        "shared timestamp, random / sequential / exhaustively enumerated schedules (all 2^10 words over two threads; sampled and, in the thorough "
        "tier, all 3^9 words over three threads), sequential requests before and after. non-trivial = the case contains an idle-path pass, a wait "
        "and a block (sequential) or at least two workers that interleave inside DoCheck (schedules); distinct by (rule parameters, sequence of "
        "result kinds, schedule)")

MS = 10 ** 6
BASE = 1_900_000_000_000 * MS


def fb(x):
    return "f:%016x" % struct.unpack(">Q", struct.pack(">d", x))[0]


def iv_of(T, b, I):
    """the driver's float instance of the interval (same binary64 operations); None = blocked before the state is touched"""
    if b == 0:
        return "zero"
    if T <= 0.0 or float(b) > T:
        return None
    return math.ceil(float(b) / T * float(I))


def sim(last, maxq, now, iv):
    """python mirror of doCheck, used only to aim the generator at the boundaries"""
    if iv == "zero":
        return last, ("pass", 0)
    if iv is None:
        return last, ("block", 0)
    if last + iv <= now:
        return now, ("pass", 0)
    if last + iv - now > maxq:
        return last, ("block", 0)
    new = last + iv
    est = new - now
    if est > maxq:
        return last, ("block", 0)
    return new, (("wait", est) if est > 0 else ("pass", 0))


def pick_threshold(rng, I_ms):
    r = rng.random()
    if r < 0.45:
        return float(rng.choice([1, 1, 2, 3, 5, 7, 10, 10, 20, 100, 1000, 10 ** 4, 10 ** 6]))
    if r < 0.60:
        return rng.choice([0.5, 0.1, 0.25, 1.5, 2.5, 1e-3, 0.999, 1.0000000000000002, 0.9999999999999999, 3.3333333333333335])
    if r < 0.70:
        return rng.choice([0.0, -0.0, 5e-324, 1e-310, 1e9, 1e18, 1.7976931348623157e308, float("inf"), 4294967295.0, 4294967296.0])
    if r < 0.85:
        # put b*I/T next to an integer k: T = b*I/k nudged by a few ulps
        I = (I_ms or 1000) * MS
        k = rng.choice([1, 2, 3, 7, 10 ** 3, 10 ** 6, 333333333, rng.randint(1, 10 ** 9)])
        T = I / k
        for _ in range(rng.randint(0, 3)):
            T = math.nextafter(T, rng.choice([0.0, math.inf]))
        return T if T > 0 else 1.0
    return rng.choice([rng.uniform(0.01, 10), rng.uniform(1, 1000), 10 ** rng.uniform(-3, 9)])


def pick_rule(rng):
    I_ms = rng.choice([0, 0, 1000, 1000, 1, 10, 100, 500, 2000, 60000, 600000, 2 ** 32 - 1, rng.randint(1, 5000)])
    T = pick_threshold(rng, I_ms)
    I = (I_ms or 1000) * MS
    iv1 = iv_of(T, 1, I)
    ivms = (iv1 // MS) if isinstance(iv1, int) else 100
    mq = rng.choice([0, 0, 1, ivms, ivms, 2 * ivms, 3 * ivms, ivms + 1, max(0, ivms - 1), 2 * ivms + 1, max(0, 3 * ivms - 1),
                     10 * ivms, 500, 1000, 2 ** 32 - 1, rng.randint(0, 5000)])
    mq = min(mq, 2 ** 32 - 1)
    return T, I_ms, mq


def pick_batch(rng, T):
    r = rng.random()
    if r < 0.6:
        return 1
    fl = int(min(T, 2 ** 32 - 2)) if T == T and T > 0 else 1
    return min(2 ** 32 - 1, max(0, rng.choice([0, 2, 2, 3, fl, fl + 1, max(1, fl // 2), rng.randint(0, max(1, min(fl, 50))), 2 ** 32 - 1])))


def pick_start(rng):
    r = rng.random()
    if r < 0.6:
        return BASE + rng.choice([0, 1, 999_999, rng.randint(0, 10 ** 12)])
    if r < 0.8:
        return rng.choice([0, 1, 5, 1000, MS, 10 ** 9, rng.randint(0, 10 ** 10)])
    return rng.randint(10 ** 10, BASE)


def next_clock(rng, arr, clk, last, maxq, iv):
    """a new arrival time >= the previous arrival time `arr` (the clock itself may be later: somebody is still sleeping)"""
    ivn = iv if isinstance(iv, int) else rng.choice([1, MS, 100 * MS])
    cands = [arr, arr + 1, clk, clk + 1, arr + ivn - 1, arr + ivn, arr + ivn + 1, last + ivn, last + ivn - 1, last + ivn + 1,
             last + ivn - maxq, last + ivn - maxq - 1, last + ivn - maxq + 1, last + 2 * ivn - maxq, last + 2 * ivn - maxq - 1,
             last, last + 1, last - 1, arr + rng.randint(0, 2 * ivn + 1), arr + rng.randint(0, maxq + 1), clk + ivn,
             arr + 10 ** 12, arr + 3 * ivn + 7]
    return max(arr, rng.choice(cands))


PREC = 0.00000001


def rule_eq(a, b):
    """python mirror of the driver's ruleEq (Rule.isEqualsTo on the throttling-relevant fields); rules are (T, I_ms, mq)"""
    return a[1] == b[1] and abs(a[0] - b[0]) < PREC and a[2] == b[2]


def reload_py(ctls, rules):
    """mirror of Throttle.reload: ctls = [[rule, last], ...]"""
    old, out = list(ctls), []
    for r in rules:
        if r[0] == "rj":          # a never-blocking Reject rule: only its place in the code's controller list matters
            continue
        for i, c in enumerate(old):
            if rule_eq(c[0], r):
                out.append(old.pop(i))
                break
        else:
            out.append([r, 0])
    return out


def chain_py(ctls, now, b):
    """mirror of Throttle.chain; returns (slept, kind) and updates the controllers"""
    slept = 0
    for c in ctls:
        T, I_ms, mq = c[0]
        c[1], (kind, w) = sim(c[1], mq * MS, now + slept, iv_of(T, b, (I_ms or 1000) * MS))
        if kind == "block":
            return slept, "block"
        slept += w
    return slept, ("wait" if slept else "pass")


def fmt_rules(rules, other, perres=False):
    """`load` = flow.LoadRules (complete rule set, `other` = a rule of another resource), `loadres` = flow.LoadRulesOfResource"""
    toks = " ".join((f"rj:{r[1]}" if r[1] else "rj") if r[0] == "rj" else f"{fb(r[0])} {r[1]} {r[2]}" for r in rules)
    if perres:
        return ("loadres " + toks).strip()
    return ("load " + toks + (f" other={other}" if other else "")).strip()


def vary(rng, rule, field):
    T, I_ms, mq = rule
    I = (I_ms or 1000) * MS
    iv1 = iv_of(T, 1, I)
    ivms = max(1, iv1 // MS) if isinstance(iv1, int) else 100
    if field == "mq":
        new = rng.choice([x for x in (0, ivms // 2, ivms, 2 * ivms, 5 * ivms, 50, 500, 4295, 60000, mq + 1, max(0, mq - 1)) if x != mq] or [mq + 1])
        return (T, I_ms, min(new, 2 ** 32 - 1))
    if field == "T":
        cands = [T * 2, T / 2, T + 1, T + 0.5, pick_threshold(rng, I_ms)]
        new = rng.choice([x for x in cands if x == x and x >= 0 and abs(x - T) > 1e-6] or [T + 1])
        return (new, I_ms, mq)
    new = rng.choice([x for x in ({0: 1000, 1000: 0}.get(I_ms, 0), 1000, 500, 2000, 100, min(I_ms + 1, 2 ** 32 - 1)) if x != I_ms])
    return (T, new, mq)


def distinct_T(used, rule):
    """thresholds of one case are pairwise identical or clearly different: util.Float64Equals treats |x-y| < 1e-8 as equal, so a
    reload to a threshold that close keeps the OLD controller and threshold (reported != enforced: C13/C14's subject, not C10's)"""
    T = rule[0]
    return all(T == u or abs(T - u) > 1e-6 for u in used) or T == float("inf")


def gen_seq(rng, cid, nmin=10, nmax=60):
    """one resource; 1-3 throttling rules; optionally reloads in the middle of the traffic (one thing changed at a time)"""
    used = set()

    def fresh(make):
        for _ in range(50):
            r = make()
            if distinct_T(used, r):
                used.add(r[0])
                return r
        r = make()
        return (float(len(used) + 1) * 7.0, r[1], r[2])

    _vary, _pick = vary, pick_rule
    vary_ = lambda rng_, rule, field: fresh(lambda: _vary(rng_, rule, field))
    pick_ = lambda rng_: fresh(lambda: _pick(rng_))
    return _gen_seq(rng, cid, nmin, nmax, vary_, pick_)


def _gen_seq(rng, cid, nmin, nmax, vary, pick_rule):
    rules = [pick_rule(rng)]
    r = rng.random()
    if r < 0.30:
        k = rng.random()
        rules.append(rules[0] if k < 0.5 else vary(rng, rules[0], rng.choice(["mq", "T", "I"])) if k < 0.8 else pick_rule(rng))
        if rng.random() < 0.35:
            rules.append(rng.choice(rules + [vary(rng, rules[0], "T")]))
        if rng.random() < 0.25:
            rules.insert(rng.randrange(len(rules) + 1), ("rj", rng.choice([0, 0, 1, 2])))
    reloady = rng.random() < 0.45
    pending = None            # a reload armed with `onsleep`: performed during the next sleep
    other = 0
    ops = [fmt_rules(rules, other, rng.random() < 0.3)]
    ctls = reload_py([], rules)
    arr = clk = pick_start(rng)
    ops.append(f"clock {clk}")
    burst = 0
    kinds = []
    for _ in range(rng.randint(nmin, nmax)):
        if reloady and burst == 0 and pending is None and rng.random() < 0.10:
            k = rng.random()
            i = rng.choice([j for j, r_ in enumerate(rules) if r_[0] != "rj"])
            nthr = sum(1 for r_ in rules if r_[0] != "rj")
            real = True
            if rng.random() < 0.20:
                # through an empty rule set and back: ClearRules / ClearRulesOfResource / load of an empty list, a few unthrottled
                # requests, then the SAME list again (same other-resource rule: DeepEqual to what was loaded before) or a changed one
                how = rng.choice(["clear", "clear", "clearres", "empty", "empty-other", "empty-res"])
                ops.append({"clear": "clear", "clearres": "clearres", "empty": "load", "empty-other": fmt_rules([], other),
                            "empty-res": "loadres"}[how])
                ctls = []
                for _ in range(rng.choice([0, 0, 1, 2])):
                    ops.append("req 1")
                if rng.random() < 0.35:
                    f = rng.choice(["mq", "T", "I"])
                    rules = rules[:i] + [vary(rng, rules[i], f)] + rules[i + 1:]
                    how += "+" + f
                perres = rng.random() < 0.4
                ops.append(fmt_rules(rules, other, perres))
                ctls = reload_py(ctls, rules)
                kinds.append(how + ("/res" if perres else ""))
                burst = rng.choice([2, 3, 4])
                k = 2.0
                real = False
            if k >= 2.0:
                pass
            elif k < 0.22:
                kind = "same"
            elif k < 0.27:
                kind, real = "noop", False
            elif k < 0.55:
                kind = "mq"
                rules = rules[:i] + [vary(rng, rules[i], "mq")] + rules[i + 1:]
            elif k < 0.70:
                kind = "T"
                rules = rules[:i] + [vary(rng, rules[i], "T")] + rules[i + 1:]
            elif k < 0.80:
                kind = "I"
                rules = rules[:i] + [vary(rng, rules[i], "I")] + rules[i + 1:]
            elif k < 0.90 and nthr < 4 and len(rules) < 6:
                kind = "add"
                extra = rng.choice([rules[i], vary(rng, rules[i], "mq"), pick_rule(rng), ("rj", rng.choice([0, 1, 2, 3])), ("rj", rng.choice([0, 1]))])
                if extra[0] == "rj" and sum(1 for r_ in rules if r_[0] == "rj") >= 2:
                    extra = rules[i]
                rules = rules + [extra] if rng.random() < 0.7 else rules[:i] + [extra] + rules[i:]
            elif k < 0.95 and nthr > 1:
                kind = "remove"
                rules = rules[:i] + rules[i + 1:]
            elif len(rules) > 1:
                kind = "swap"
                rules = rules[::-1]
            else:
                kind = "same"
            if k < 2.0:
                perres = rng.random() < 0.4
                if perres and kind == "same":
                    # LoadRulesOfResource has no other resource to toggle: an identical list would be skipped, so keep every rule
                    # and change the list around them (a duplicate / variant is appended, or the order is swapped)
                    if nthr < 4 and len(rules) < 6:
                        kind = "add"
                        rules = rules + [rng.choice([rules[i], vary(rng, rules[i], "mq"), vary(rng, rules[i], "T")])]
                    else:
                        kind = "swap"
                        rules = rules[::-1]
                if real and not perres:
                    other = 1 - other if other in (0, 1) else 0      # another resource's rule comes or goes: the reload is a real one
                if rng.random() < 0.30:
                    # the reload happens while a request sleeps for one of the rules (armed; performed by the clock's Sleep)
                    ops.append("onsleep " + fmt_rules(rules, other, perres))
                    pending = list(rules)
                    kinds.append(kind + ("/res" if perres else "") + "@sleep")
                else:
                    ops.append(fmt_rules(rules, other, perres))
                    ctls = reload_py(ctls, rules)
                    kinds.append(kind + ("/res" if perres else ""))
                burst = rng.choice([2, 3, 4])
        T, I_ms, mq = rng.choice([r_ for r_ in rules if r_[0] != "rj"])
        I = (I_ms or 1000) * MS
        maxq = mq * MS
        b = pick_batch(rng, T) if burst == 0 else 1
        iv = iv_of(T, b, I)
        last = next((c[1] for c in ctls if c[0] == (T, I_ms, mq)), 0)
        if burst > 0:
            # right after a reload: callers at the same instant, then two intervals apart
            burst -= 1
            if burst % 2 == 0 and isinstance(iv, int):
                arr = clk = max(arr, clk) + rng.choice([2 * iv, iv, iv + iv // 2])
                ops.append(f"clock {clk}")
            elif rng.random() < 0.5:
                clk = arr
                ops.append(f"clock {clk}")
        elif rng.random() < 0.6:
            arr = clk = next_clock(rng, arr, clk, last, maxq, iv)
            ops.append(f"clock {clk}")
        else:
            arr = clk
        ops.append(f"req {b}")
        slept, _ = chain_py(ctls, clk, b)
        clk += slept
        if pending is not None and slept > 0:
            ctls = reload_py(ctls, pending)      # same controllers as a reload after the request (Sentinel.C10.chainReload_eq)
            pending = None
    T, I_ms, mq = next(r_ for r_ in rules if r_[0] != "rj")
    return Case(cid, ops, tags=("seq", f"T={T!r}", f"I={I_ms}", f"mq={mq}", f"rules={len(ctls)}", "reloads=" + ",".join(kinds)))


def sched_rule(rng):
    """rules for schedule cases: moderate numbers so that several workers land inside each other's queueing window"""
    I_ms = rng.choice([0, 1000, 1000, 100, 10, 2000])
    T = float(rng.choice([1, 2, 5, 10, 10, 20, 100, 3, 7]))
    I = (I_ms or 1000) * MS
    ivms = max(1, iv_of(T, 1, I) // MS)
    mq = rng.choice([0, ivms, 2 * ivms, 2 * ivms + ivms // 2, 3 * ivms, 5 * ivms, ivms + 1, max(0, 2 * ivms - 1)])
    return T, I_ms, mq


def sched_prefix(rng, T, I_ms, mq, start=None):
    """load + 0-3 sequential requests; returns ops, clk, last"""
    I = (I_ms or 1000) * MS
    maxq = mq * MS
    ops = [f"load {fb(T)} {I_ms} {mq}"]
    clk = arr = pick_start(rng) if start is None else start
    ops.append(f"clock {clk}")
    last = 0
    for _ in range(rng.choice([0, 1, 2, 2, 3])):
        ops.append("req 1")
        last, (_, w) = sim(last, maxq, clk, iv_of(T, 1, I))
        clk += w
    return ops, arr, last


def thread_decls(rng, n, T, I_ms, mq, arr, last):
    I = (I_ms or 1000) * MS
    maxq = mq * MS
    iv = iv_of(T, 1, I)
    ops = []
    clocks = []
    for i in range(n):
        c = rng.choice([arr, arr, arr + iv // 2, arr + iv, arr + iv + iv // 2, last + iv, last + iv - maxq, last + 2 * iv - maxq, last + iv - 1,
                        last + 1, arr + rng.randint(0, 3 * iv), last + 2 * iv, last + 3 * iv + 5])
        c = max(0, c)
        b = 1 if rng.random() < 0.8 else rng.choice([0, 2, int(T), int(T) + 1])
        ops.append(f"thread {i} {c} req {b}")
        clocks.append(c)
    return ops, clocks


def sched_suffix(rng, clocks, T, I_ms):
    I = (I_ms or 1000) * MS
    iv = iv_of(T, 1, I)
    c = max(clocks) + rng.choice([0, 0, 1, iv // 2, iv, 2 * iv])
    ops = [f"clock {c}"]
    for _ in range(rng.choice([0, 1, 2, 3])):
        if rng.random() < 0.3:
            c += rng.choice([1, iv // 2, iv, iv + 1])
            ops.append(f"clock {c}")
        ops.append("req 1")
    return ops


def gen_sched(rng, cid):
    T, I_ms, mq = sched_rule(rng)
    ops, arr, last = sched_prefix(rng, T, I_ms, mq)
    n = rng.choice([2, 2, 3, 3, 4])
    d, clocks = thread_decls(rng, n, T, I_ms, mq, arr, last)
    ops += d
    r = rng.random()
    if r < 0.25:      # sequential order (each worker runs to completion): the clean region
        order = list(range(n))
        rng.shuffle(order)
        sc = [str(i) for i in order for _ in range(5)]
    elif r < 0.35:    # nothing: pure round-robin drain
        sc = []
    else:
        sc = [str(rng.randrange(n)) for _ in range(rng.randint(1, 5 * n))]
    if rng.random() < 0.2 and sc:
        sc.insert(rng.randrange(len(sc)), f"tick:{rng.choice([1, MS, 100 * MS])}")
    if rng.random() < 0.05:
        sc.append(str(n + 1))     # entry naming an unknown thread: skipped on both sides
    ops.append("sched " + " ".join(sc) if sc else "sched")
    ops += sched_suffix(rng, clocks, T, I_ms)
    return Case(cid, ops, tags=("sched", f"n={n}", f"T={T!r}", f"I={I_ms}", f"mq={mq}"))


def witness_like(rng, cid):
    """the fixed slice inside the known-finding regions: the rollback-collision shape with varied numbers and a perturbed schedule"""
    T = float(rng.choice([10, 10, 5, 20, 100]))
    I_ms = rng.choice([1000, 0, 2000])
    I = (I_ms or 1000) * MS
    iv = iv_of(T, 1, I)
    mq = (2 * iv + iv // 2) // MS
    t0 = pick_start(rng)
    ops = [f"load {fb(T)} {I_ms} {mq}", f"clock {t0}", "req 1", "req 1"]
    late = t0 + iv + iv // 2
    ops += [f"thread 0 {t0} req 1", f"thread 1 {t0} req 1", f"thread 2 {late} req 1", f"thread 3 {late} req 1"]
    sc = [0, 0, 1, 1, 1, 0, 2, 2, 2, 0, 3, 3, 3]
    if rng.random() < 0.6:
        i, j = rng.randrange(len(sc)), rng.randrange(len(sc))
        sc[i], sc[j] = sc[j], sc[i]
    ops.append("sched " + " ".join(map(str, sc)))
    ops += [f"clock {late}", "req 1"]
    return Case(cid, ops, tags=("sched", "witness-like"))


def gen(ctx, n):
    out = []
    for i in range(n):
        r = ctx.rng.random()
        cid = f"g{ctx.seed}-{ctx.cov.get('traces_validated_against_impl', 0)}-{i}"
        if r < 0.62:
            out.append(gen_seq(ctx.rng, cid))
        elif r < 0.97:
            out.append(gen_sched(ctx.rng, cid))
        else:
            out.append(witness_like(ctx.rng, cid))
    return out


def corpus():
    import glob, os
    from vlib.core import ROOT
    res = []
    if os.environ.get("C10_NO_CORPUS"):      # to see what the generator alone finds (used when validating seeded changes)
        return res
    for p in sorted(glob.glob(os.path.join(ROOT, "corpus", PROP, "*.ops"))):
        ops = [l.rstrip("\n") for l in open(p) if l.strip() and not l.startswith("#") and not l.startswith("case ")]
        res.append(Case(os.path.basename(p), ops, tags=("corpus",)))
    return res


def densify(ops, rng):
    """repeat requests and nudge clocks around every op (failing-input search)"""
    out = []
    pending = any(o.startswith("thread ") for o in ops)
    for o in ops:
        t = o.split()
        if t[0] == "clock" and rng.random() < 0.4:
            o = f"clock {max(0, int(t[1]) + rng.choice([-1, 1, 0, 1000, MS]))}"
        out.append(o)
        if t[0] == "req" and rng.random() < 0.4:
            out.append(f"req {rng.choice([1, 1, 2, t[1]])}")
        if t[0] == "sched":
            pending = False
    return out


def nontrivial(case, impl):
    kinds = []
    sched = None
    loads = 0
    for l in impl:
        op, _, r = l.partition(" => ")
        if op.startswith("req "):
            t = r.split()
            kinds.append("?" if not t else "b" if t[-1] == "block" else "w" if any(x.startswith("S") for x in t) else "p")
        elif op.startswith("load") or op.startswith("clear"):
            loads += 1
            kinds.append("R")
        elif op.startswith("sched"):
            sched = op
            kinds.append("S" + "".join(x.split(":")[1][0] for x in r.strip("[]").split(",") if ":" in x))
    if sched is None:
        s = "".join(kinds)
        if loads > 1:
            # a reload in the middle of the traffic with queueing or rejections after it
            after = s.split("R", 2)[-1]
            if "R" in s[1:] and ("w" in after or "b" in after):
                return hash((tuple(o for o in case.ops if o.startswith("load") or o.startswith("clear")), s))
            return None
        # an idle-path pass after something was queued, a wait and a block
        if "w" in s and "b" in s and "p" in s.lstrip("Rp"):
            return hash((case.ops[0], s))
        return None
    nthreads = sum(1 for o in case.ops if o.startswith("thread "))
    toks = [t for t in sched.split()[1:] if not t.startswith("tick:")]
    switches = sum(1 for a, b in zip(toks, toks[1:]) if a != b)
    if nthreads >= 2 and (switches >= 2 or not toks):
        return hash((case.ops[0], tuple(o for o in case.ops if o.startswith("thread ")), sched, "".join(kinds)))
    return None


# ---------------------------------------------------------------------------------------------
# extra phase: exhaustive / sampled schedule enumeration (validates the small-step model against the code;
# the oracle judges every one of them, so an unlisted spacing violation under some interleaving is reported)
# ---------------------------------------------------------------------------------------------

def enum_configs(rng, k):
    """k thread configurations (rule, sequential prefix, 2 or 3 workers, suffix) around the shared timestamp"""
    cfgs = []
    for _ in range(k):
        T, I_ms, mq = sched_rule(rng)
        pre, arr, last = sched_prefix(rng, T, I_ms, mq, start=BASE + rng.randint(0, 10 ** 9))
        cfgs.append((T, I_ms, mq, pre, arr, last))
    return cfgs


def enum_cases(rng, cfg, n, words, tag):
    T, I_ms, mq, pre, arr, last = cfg
    d, clocks = thread_decls(rng, n, T, I_ms, mq, arr, last)
    suf = sched_suffix(rng, clocks, T, I_ms)
    if not any(o.startswith("req") for o in suf):
        suf.append("req 1")
    return [Case(f"{tag}-{i}", pre + d + ["sched " + " ".join(map(str, w))] + suf, tags=("enum", f"n={n}")) for i, w in enumerate(words)]


def extra(ctx, eng):
    rng = ctx.rng
    quick = ctx.tier == "quick"
    two = list(itertools.product(range(2), repeat=10))          # every interleaving of two calls (<= 5 hooks each) is a prefix of one of these
    three_all = None
    n2, n3 = (12, 8) if quick else (150, 60)
    total = 0
    for j, cfg in enumerate(enum_configs(rng, n2)):
        cs = enum_cases(rng, cfg, 2, two, f"e2-{j}")
        eng.check(cs, "schedules")
        total += len(cs)
        if ctx.violations:
            return
    for j, cfg in enumerate(enum_configs(rng, n3)):
        if quick or j >= 3:
            words = [tuple(rng.randrange(3) for _ in range(rng.randint(4, 15))) for _ in range(600)]
        else:
            if three_all is None:
                three_all = list(itertools.product(range(3), repeat=9))
            words = three_all
        cs = enum_cases(rng, cfg, 3, words, f"e3-{j}")
        eng.check(cs, "schedules")
        total += len(cs)
        if ctx.violations:
            return
    ctx.cov["schedule_enumeration"] = {"two_thread_configs": n2, "two_thread_words_each": len(two), "three_thread_configs": n3,
                                       "cases": total, "exhaustive_two_thread": True}
    ctx.log(f"schedule enumeration: {total} cases")


def _tally(ctx):
    """count the oracle's verdicts (ok / ? / known:<key> / bad) of every run: measured, goes into the evidence"""
    import collections
    from vlib import corr
    from vlib.core import split_res
    if getattr(corr.Engine, "_c10_tally", False):
        return
    orig = corr.Engine.run3

    def run3(self, cases):
        res = orig(self, cases)
        t = self.ctx.cov.setdefault("oracle_verdicts", collections.Counter())
        for _, _, judge in res:
            for l in judge:
                _, r = split_res(l)
                if r is not None:
                    t[r if r.startswith("known:") else r.split(" ", 1)[0]] += 1
        return res
    corr.Engine.run3 = run3
    corr.Engine._c10_tally = True


def run(ctx):
    """std.run with two additions: (1) if a known-finding replay no longer corresponds (the tree was changed), the generated
    cases and the schedule enumeration are still run, so that a property failure is reported with its own replay instead of
    the bare 'correspondence broke' verdict; (2) the oracle's verdicts are tallied into the evidence."""
    import os
    import sys
    from vlib import core
    from vlib.corr import Engine, finalize_cov
    pm = sys.modules[__name__]
    _tally(ctx)
    ok, problem = core.lean_stage(ctx, ())
    ctx.log("lean stage:", "ok" if ok else "BROKEN", f"({ctx.cov.get('discharged')}/{ctx.cov.get('obligations')} theorems)")
    binary, log = core.build_harness()
    if binary is None or not os.path.exists(core.DRIVER):
        return std.run(ctx, pm)          # reports the build problem
    eng = Engine(ctx, pm, binary)
    eng.replay_known()
    stash, ctx.violations = ctx.violations, []
    corp = corpus()
    if corp:
        eng.check(corp, "corpus")
    n, done = SIZES[ctx.tier], 0
    while done < n and not ctx.violations:
        k = min(BATCH, n - done)
        eng.check(gen(ctx, k), "generated")
        done += k
        ctx.log(f"{done}/{n} cases, {ctx.cov.get('evaluations', 0)} observations compared")
    if not ctx.violations:
        extra(ctx, eng)
    if not ctx.violations:
        ctx.violations = stash
    if not ok and not ctx.violations:
        ctx.violation("proof-broken.txt",
                      f"proof obligations of Sentinel.Props.{ctx.prop} no longer check:\n{problem}\n"
                      "the correspondence run found no input on which the property fails\n", no_input=True)
    finalize_cov(ctx, RULE)
    if "oracle_verdicts" in ctx.cov:
        ctx.cov["oracle_verdicts"] = dict(ctx.cov["oracle_verdicts"])
    if ctx.tier == "thorough" and ok:
        rc, so, se = core.sh(["lake", "env", "leanchecker", f"Sentinel.Props.{ctx.prop}"], cwd=core.LEAN, timeout=3600)
        ctx.cov["leanchecker"] = "ok" if rc == 0 else ("failed: " + (so + se)[-500:])
        if rc != 0:
            ctx.violation("leanchecker.txt", so + se, no_input=True)
    return ctx.finish()


META = {
    "technique": ("Lean 4 proof (induction over sequential histories; inductive invariant of the small-step model for any number of threads and any "
                  "schedule) + differential correspondence model/impl incl. deterministic schedule replay through the th.* yield hooks"),
    "level_text": ("Theorems in lean/Sentinel/Props/C10.lean about the executable model of ThrottlingChecker.DoCheck (lean/Sentinel/Model/Throttle.lean): "
                   "for every threshold class, interval, queueing limit (incl. 0) and every sequential history in ns, admitted pass times are spaced by at "
                   "least the later request's interval, no wait exceeds the limit, a rejection happens only when honouring the spacing would exceed it "
                   "(or the batch exceeds the threshold), idle time is never banked; for any number of concurrent callers and any schedule the wait bound "
                   "holds, and spacing holds for every schedule outside the two classified regions (a step taken while another caller is parked before its "
                   "rollback; an add that leaves the timestamp behind the caller's clock), each of which has a `decide` witness on the model that replays on "
                   "the real code through the hooks. The model is tied to the code by running op files (sequential histories and schedules, incl. all "
                   "2-thread interleavings of sampled configurations) through flow.LoadRules + api.Entry under a virtual clock and through the compiled "
                   "Lean driver, comparing every result; the oracle (exact rational interval) judges the implementation's own trace."),
    "level_note": ("Trusted: Lean kernel; axioms propext/Classical.choice/Quot.sound; Go harness, go/internal/sched (one worker at a time, parks at th.* "
                   "hooks), virtual util.Clock, canonical printing. Modelled not verified: int64 arithmetic as Int (sums stay below 2^63 for uint32 ms "
                   "parameters and clocks below 2^62); the float expression ceil(b/T*I) is a parameter of the theorems (any iv >= 0), instantiated with "
                   "Lean Float in the driver; where the float instance and the exact ceil(b*I/T) differ the oracle makes no claim ('?'). NaN thresholds "
                   "(accepted by flow.IsValidRule) are outside the domain. Known findings: throttle-rollback-collision, throttle-stale-add."),
    "design_ref": "DESIGN.md 6.C10",
}
