"""C09 — sliding-window counters stay sound under concurrent writers and rollover (schedule correspondence)."""
import collections

from vlib import core, std
from vlib.core import Case

PROP = "C09"
SPEC_MODE = "oracle"
KEEP_PREFIX = 1
EXTRA_MODULES = ("Sentinel.Lemmas.LeapArrayRace", "Sentinel.Lemmas.LeapArrayRaceTerm", "Sentinel.Lemmas.LeapArrayRaceOwn",
                 "Sentinel.Lemmas.LeapArrayRaceStarted", "Sentinel.Lemmas.LeapArrayRaceRead", "Sentinel.Lemmas.LeapArrayRaceDrain",
                 "Sentinel.Lemmas.LeapArrayRaceNonInt")
SIZES = {"quick": 2500, "thorough": 60000}
BATCH = 2500
RULE = ("one case = one schedule: a BucketLeapArray (n in 1..4 buckets, bucket length 1..500 ms) pre-filled sequentially, then a round of "
        "2-3 threads (1-2 operations each: add/conc/count/viewsum) started with clock readings on both sides of a bucket boundary at which "
        "a slot is recycled, run under the yield-hook scheduler with an explicit schedule (thread ids + clock ticks), drained round-robin, "
        "optionally followed by a sequential read-back round; slices: inside the known-finding region, sequential walks with gaps up to several laps, "
        "far time jumps (k*2^32, 2^31, 2^33 ms +- bucket/interval) inside and between the phases. Enumerated part: every interleaving (depth-first on the model, each replayed "
        "on the real package) of fixed 2-thread configurations; generated part: random schedules with runs and ticks. non-trivial = a slot "
        "reset (bla.reset.start) ran in a round with another live thread; distinct by (geometry, programs, interleaving of yield points)")

EVS = ["pass", "block", "complete", "error", "rt"]

# (name, ops up to and including the thread declarations of the round to enumerate, depth bound, quick budget, enumeration limit):
# the interleavings are always enumerated (up to the limit); the quick tier replays all of them when they fit its budget and a
# ctx.rng sample of that size otherwise, the thorough tier replays all
PRE = ["la.new 2 1000 1000", "thread 0 1000 add pass 5", "sched"]
PRE1 = ["la.new 1 1000 1000", "thread 0 1000 add pass 5", "sched"]
PRE3 = ["la.new 3 1500 1000", "thread 0 1000 add pass 5 ; add rt 30", "sched"]
CONFIGS = [
    ("A-add-vs-resetting-add", PRE + ["thread 0 1999 add pass 1", "thread 1 2000 add pass 2"], 40, 200, 200),
    ("B-viewsum-vs-plain-add", PRE + ["thread 0 1999 add pass 1", "thread 1 1999 viewsum pass"], 40, 200, 200),
    ("C-resetting-add-vs-viewsum", PRE + ["thread 0 2000 add pass 1", "thread 1 2000 viewsum pass"], 40, 1500, 20000),
    ("D-n1-resetting-add-vs-viewsum", PRE1 + ["thread 0 2000 add pass 1", "thread 1 2000 viewsum pass"], 40, 500, 500),
    ("E-n1-resetting-add-vs-count", PRE1 + ["thread 0 2000 add pass 1", "thread 1 2000 count pass"], 18, 300, 60000),
    ("F-two-ops-vs-add", PRE + ["thread 0 1999 add pass 1 ; viewsum pass", "thread 1 2000 add block 2"], 40, 300, 150000),
    ("G-rt-vs-rt", ["la.new 2 1000 1000", "thread 0 1000 add rt 40", "thread 1 1000 add rt 30"], 40, 100, 100),
    ("H-conc-vs-conc", ["la.new 2 1000 1000", "thread 0 1000 conc 4", "thread 1 1001 conc 7"], 40, 100, 100),
    ("I-resetting-conc-vs-count", PRE3 + ["thread 0 2500 conc 3", "thread 1 2500 count rt"], 16, 300, 60000),
    ("J-add-vs-add-same-slot-contention", PRE + ["thread 0 2000 add pass 1", "thread 1 2001 add pass 2"], 14, 300, 30000),
    ("K-plain-add-vs-count", PRE + ["thread 0 1999 add pass 1", "thread 1 1999 count pass"], 40, 300, 300),
    ("L-late-recorder-vs-resetting-add", PRE + ["thread 0 1000 add pass 1", "thread 1 2000 add pass 2"], 40, 200, 200),
]


def tail(pre):
    """sequential read-back 400 ms after the last thread clock of the configuration"""
    c = max(int(o.split()[2]) for o in pre if o.startswith("thread "))
    return [f"thread 0 {c + 400} count pass ; viewsum pass", "sched"]


def divisors(x):
    return [d for d in range(1, x + 1) if x % d == 0]


def rand_op(rng, reads=True):
    r = rng.random()
    if r < 0.45 or not reads:
        e = rng.choice(["pass", "pass", "pass", "block", "complete", "error", "rt"])
        # signed amounts for the plain counters (the API takes int64: decrements, roll-backs); rt stays >= 0
        amt = rng.choice([1, 2, 3, 7, 100, 1, 2, -1, -2, -5]) if e != "rt" else rng.choice([1, 30, 59999, 60000, 70000])
        return f"add {e} {amt}"
    if r < 0.55:
        return f"conc {rng.choice([0, 1, 3, 9])}"
    if r < 0.78:
        return f"{rng.choice(['count', 'count', 'values'])} {rng.choice(['pass', 'pass', 'pass', 'rt', 'block'])}"
    return f"viewsum {rng.choice(['pass', 'pass', 'pass', 'rt', 'block'])}"


def rand_sched(rng, k, L):
    out = []
    for _ in range(rng.choice([0, 2, 5, 10, 20, 40])):
        t = rng.randrange(k)
        out += [str(t)] * rng.choice([1, 1, 1, 2, 3, 5, 12])
        if rng.random() < 0.08:
            out.append(f"tick:{rng.choice([1, 1, max(1, L - 1), L])}")
    return " ".join(out)


def far_jump(rng, L, I):
    """a quiet period around a power-of-two number of milliseconds: k*2^32 (the width of intervalInMs / bucketLengthInMs),
    2^31, 2^33, plus/minus {0, 1, bucket, interval, ...} — ages that a narrowed or signed time difference would wrap"""
    base = rng.choice([2 ** 32, 2 ** 32, 2 ** 32, 2 * 2 ** 32, 3 * 2 ** 32, 2 ** 31, 2 ** 33, rng.randint(4, 1000) * 2 ** 32])
    d = rng.choice([0, 0, 1, -1, L, -L, I, -I, L - 1, L + 1, I - 1, I + 1, 2 * I, rng.randint(0, 2 * I), rng.randint(0, 2 * I)])
    return base + d


def gen_far_seq(rng, cid):
    """sequential: every slot filled, then a far time jump, then reads (and a fresh add + reads): nothing recorded before the
    jump may be visible after it"""
    n = rng.choice([2, 2, 3, 4])
    L = rng.choice([1, 2, 10, 500, 500])
    I = n * L
    t0 = rng.choice([1, 2, 20, 1000]) * L + rng.choice([0, L - 1])
    ops = [f"la.new {n} {I} {t0}"]
    if rng.random() < 0.5:
        d = rng.choice(divisors(n))
        ops.append(f"view {rng.choice(divisors(d))} {d * L}")
    clock = t0
    for j in range(rng.choice([1, n, n, n + 1])):
        ops += [f"thread 0 {clock} add pass {rng.choice([1, 3, 7])} ; add rt {rng.choice([5, 30])}", "sched"]
        clock += L
    for _ in range(rng.choice([1, 1, 2])):
        clock += far_jump(rng, L, I)
        rd = rng.choice(["count pass ; viewsum pass", "viewsum pass ; count pass ; count rt", "count pass", "values pass ; count pass"])
        ops += [f"thread 0 {clock} {rd}", "sched"]
        if rng.random() < 0.6:
            ops += [f"thread 0 {clock} add pass 1 ; count pass ; viewsum pass", "sched"]
            clock += rng.choice([0, 1, L - 1, L])
            ops += [f"thread 0 {clock} count pass ; viewsum pass", "sched"]
    return Case(cid, ops, tags=(f"n={n}", f"L={L}", "k=1", "far-jump-seq"))


def gen_seq_walk(rng, cid):
    """sequential walk: one thread per round, 4-12 rounds of adds and reads, gaps from less than a bucket to several laps (and the
    occasional far jump), so that some slots stay untouched for more than a lap while their neighbours are live: sums must be exact"""
    n = rng.choice([2, 2, 3, 3, 4])
    L = rng.choice([1, 2, 10, 500, 500])
    I = n * L
    t0 = rng.choice([1, 2, 20, 1000]) * L + rng.choice([0, 1 % L, L - 1, rng.randrange(L)])
    ops = [f"la.new {n} {I} {t0}"]
    if rng.random() < 0.5:
        d = rng.choice(divisors(n))
        ops.append(f"view {rng.choice(divisors(d))} {d * L}")
    clock = t0
    for _ in range(rng.randint(4, 12)):
        clock += rng.choice([0, 1, L - 1, L, L, L + 1, 2 * L, 2 * L, 2 * L + 1, I - 1, I, I + 1, I + L, 2 * I, 3 * L, rng.randint(0, 3 * I)])
        if rng.random() < 0.04:
            clock += far_jump(rng, L, I)
        r = rng.random()
        if r < 0.5:
            prog = f"add pass {rng.choice([1, 2, 3, 4, 7, -1, -3, -5])}"
        elif r < 0.6:
            prog = f"add pass {rng.choice([1, 3])} ; count pass"
        elif r < 0.8:
            prog = rng.choice(["count pass ; viewsum pass", "values pass ; viewsum pass", "values pass"])
        else:
            prog = rng.choice(["viewsum pass", "viewsum pass ; count pass", "add rt 30 ; count rt", "conc 3 ; count pass"])
        ops += [f"thread 0 {clock} {prog}", "sched"]
    return Case(cid, ops, tags=(f"n={n}", f"L={L}", "k=1", "seq-walk"))


def gen_readers(rng, cid):
    """two or three concurrent READERS (count / viewsum, sometimes a recorder too) whose clock readings are up to n+1 buckets apart, so
    that their sets of non-expired buckets differ in shape, interleaved at the yield points inside the scan (la.values.get,
    la.deprecated.load) and the summation (mb.get), over an array whose slots all hold distinct amounts"""
    n = rng.choice([2, 3, 3, 4, 4])
    L = rng.choice([1, 10, 500])
    I = n * L
    t0 = rng.choice([1, 20, 1000]) * I
    ops = [f"la.new {n} {I} {t0}"]
    if rng.random() < 0.4:
        d = rng.choice(divisors(n))
        ops.append(f"view {rng.choice(divisors(d))} {d * L}")
    amts = [1, 2, 100, 40][:n]
    rng.shuffle(amts)
    clock = t0
    for a in amts:
        ops += [f"thread 0 {clock} add pass {a}", "sched"]
        clock += L
    T = clock - L + rng.choice([0, 0, 1, L - 1])
    k = rng.choice([2, 2, 3])
    clocks = sorted(T + rng.choice([0, 0, 1, L, 2 * L, 2 * L, 3 * L, (n - 1) * L, n * L, (n + 1) * L]) for _ in range(k))
    for i, c in enumerate(clocks):
        prog = rng.choice(["count pass", "count pass", "values pass", "viewsum pass", "count pass ; count pass", "add pass 3 ; count pass"])
        ops.append(f"thread {i} {c} {prog}")
    ops.append(("sched " + rand_sched(rng, k, L)).strip())
    return Case(cid, ops, tags=(f"n={n}", f"L={L}", f"k={k}", "readers-apart"))


def gen_known_region(rng, cid):
    """fixed slice inside the region of stale-counters-visible: a slot being recycled next to a reader of the same event"""
    n = rng.choice([1, 2, 2, 3])
    L = rng.choice([1, 10, 500])
    I = n * L
    t0 = rng.choice([1, 2, 7]) * I
    amt = rng.choice([1, 5, 9])
    t1 = t0 + I + rng.choice([0, 0, 1, L - 1])
    rd = rng.choice(["viewsum pass", "count pass", "viewsum pass ; viewsum pass"])
    ops = [f"la.new {n} {I} {t0}", f"thread 0 {t0} add pass {amt}", "sched",
           f"thread 0 {t1} add pass 1", f"thread 1 {t1} {rd}"]
    pre = ["0"] * rng.choice([2, 3, 3, 3, 4, 5, 8])
    ops.append("sched " + " ".join(pre + ["1"] * rng.choice([2, 4, 6, 8, 12])))
    return Case(cid, ops, tags=(f"n={n}", f"L={L}", "k=2", "known-region"))


def gen_case(rng, cid):
    r0 = rng.random()
    if r0 < 0.04:
        return gen_known_region(rng, cid)
    if r0 < 0.10:
        return gen_far_seq(rng, cid)
    if r0 < 0.22:
        return gen_seq_walk(rng, cid)
    if r0 < 0.30:
        return gen_readers(rng, cid)
    far = rng.random() < 0.15          # this case contains far time jumps between its phases
    n = rng.choice([1, 2, 2, 2, 3, 4])
    L = rng.choice([1, 2, 10, 500, 500])
    I = n * L
    k0 = rng.choice([1, 2, 5, 1000])
    t0 = k0 * L + rng.choice([0, 0, L - 1, rng.randrange(L)])
    ops = [f"la.new {n} {I} {t0}"]
    if rng.random() < 0.5:
        d = rng.choice(divisors(n))
        sc = rng.choice(divisors(d))
        ops.append(f"view {sc} {d * L}")
    clock = t0
    # sequential pre-fill
    for _ in range(rng.choice([0, 1, 1, 2])):
        clock += rng.choice([0, 0, 1, L - 1, L])
        if far and rng.random() < 0.4:
            clock += far_jump(rng, L, I)
        prog = " ; ".join(rand_op(rng, reads=False) for _ in range(rng.randint(1, 3)))
        ops += [f"thread 0 {clock} {prog}", "sched"]
    # the concurrent round around a boundary at which a slot is recycled
    if far and rng.random() < 0.6:
        clock += far_jump(rng, L, I)   # the quiet period before the scheduled phase
    B = (clock // L) * L + rng.choice([1, max(1, n - 1), n, n, n, n + 1, 2 * n]) * L
    k = 2 if rng.random() < 0.75 else 3
    clocks = sorted(max(clock, B + rng.choice([-1, -1, 0, 0, 0, 1, L - 1, -L])) for _ in range(k))
    for i, c in enumerate(clocks):
        prog = " ; ".join(rand_op(rng) for _ in range(rng.choice([1, 1, 2])))
        ops.append(f"thread {i} {c} {prog}")
    ops.append(("sched " + rand_sched(rng, k, L)).strip())
    ticks = sum(int(e[5:]) for e in ops[-1].split() if e.startswith("tick:"))
    end = clocks[-1] + ticks
    if rng.random() < 0.6:
        c = end + rng.choice([0, 0, 1, L - 1, L, I])
        if far and rng.random() < 0.6:
            c = end + far_jump(rng, L, I)
        ops += [f"thread 0 {c} count pass ; viewsum pass ; count rt", "sched"]
    return Case(cid, ops, tags=(f"n={n}", f"L={L}", f"k={k}") + (("far-jump",) if far else ()))


def gen(ctx, n):
    cases = [gen_case(ctx.rng, f"g{ctx.seed}-{ctx.cov.get('traces_validated_against_impl', 0)}-{i}") for i in range(n)]
    d = ctx.cov.setdefault("generator_distribution", {})
    for c in cases:
        for t in c.tags:
            d[t] = d.get(t, 0) + 1
        for o in c.ops:
            if o.startswith("thread "):
                for part in " ".join(o.split()[3:]).split(" ; "):
                    k = "op:" + part.split()[0]
                    d[k] = d.get(k, 0) + 1
            elif o.startswith("sched"):
                k = "sched-len:" + str(min(64, 1 << max(0, len(o.split()) - 1).bit_length()))
                d[k] = d.get(k, 0) + 1
    return cases


def corpus():
    import glob, os
    res = []
    for p in sorted(glob.glob(os.path.join(core.ROOT, "corpus", PROP, "*.ops"))):
        ops = [l.rstrip("\n") for l in open(p) if l.strip() and not l.startswith("#") and not l.startswith("case ")]
        res.append(Case(os.path.basename(p), ops, tags=("corpus",)))
    return res


def densify(ops, rng):
    """neighbourhood of a schedule: perturb the schedule lines (swap / drop / duplicate entries), add a read-back round"""
    out = []
    for o in ops:
        if o.startswith("sched ") and rng.random() < 0.8:
            es = o.split()[1:]
            for _ in range(rng.randint(1, 3)):
                if not es:
                    break
                i = rng.randrange(len(es))
                r = rng.random()
                if r < 0.4 and i + 1 < len(es):
                    es[i], es[i + 1] = es[i + 1], es[i]
                elif r < 0.7:
                    es.insert(i, es[i])
                else:
                    del es[i]
            o = ("sched " + " ".join(es)).strip()
        out.append(o)
    return out


def nontrivial(case, impl):
    key = []
    hit = False
    for l in impl:
        op, _, r = l.partition(" => ")
        if not op.startswith("sched") or "pts=[" not in r:
            continue
        pts = r.split("pts=[", 1)[1].split("]", 1)[0]
        ths = pts.split("|")
        if len(ths) > 1 and "bla.reset.start" in pts:
            hit = True
        key.append(pts)
        key.append(op)
    if hit:
        return hash((tuple(o for o in case.ops if not o.startswith("sched")), tuple(key)))
    return None


def enumerate_configs(ctx):
    """all interleavings of the fixed configurations (depth-first on the Lean model), as cases"""
    text = []
    for name, pre, depth, lq, lt in CONFIGS:
        text.append(f"case {name}\n" + "\n".join(pre) + f"\nenum {depth} {lt}\n")
    out, err = core.run_lean(PROP, "enum", "".join(text))
    if out is None:
        raise RuntimeError(err)
    cases, info, per = [], {}, collections.defaultdict(list)
    byname = {c[0]: c for c in CONFIGS}
    for l in out:
        if l.startswith("# "):
            _, name, cnt, st = l.split()
            info[name] = {"schedules": int(cnt), "enumeration": st + (" up to the depth bound" if byname[name][2] < 40 else "")}
            continue
        name, _, sched = l.partition(" ")
        per[name].append(sched.strip())
    for name, pre, depth, lq, lt in CONFIGS:
        ss = per[name]
        if ctx.tier == "quick" and len(ss) > lq:
            ss = ctx.rng.sample(ss, lq)
            info[name]["replayed"] = f"sample of {lq}"
        else:
            info[name]["replayed"] = "all"
        for k, sc in enumerate(ss):
            cases.append(Case(f"{name}-{k}", pre + [sc] + tail(pre), tags=("enumerated", name)))
    return cases, info


# ---------------------------------------------------------------------------------------------------------
# preemption-bounded schedules: independent of the step granularity of the implementation
# ---------------------------------------------------------------------------------------------------------
# A schedule "a^k b^M a^M" (run a for k steps, then b to completion, then a to completion; M = RUN entries, far more
# than any operation needs) reaches every single-preemption interleaving whatever yield points the code under test has
# — including yield points a changed tree adds (e.g. `bla.add.recheck`, `la.cur.last.*`), which become extra steps on
# the implementation side only.  Double preemptions "a^k b^m a^M b^M" and a 3-thread family come on top.
RUN = 60
PRE500 = ["la.new 2 1000 1000", "thread 0 1000 add pass 5", "sched"]
HUNT = [
    # (name, ops incl. thread declarations, read-back ops)
    ("P-n1-late-add-vs-rolling-add", ["la.new 1 1000 1", "thread 0 999 add pass 1", "thread 1 1000 add pass 1"],
     ["thread 0 1000 count pass ; viewsum pass", "sched"]),
    ("P-n1-add-vs-rolling-add-filled", ["la.new 1 500 1", "thread 0 1 add pass 4", "sched", "thread 0 499 add pass 1", "thread 1 500 add pass 2"],
     ["thread 0 500 count pass", "sched"]),
    ("P-rolling-add-vs-add-same-bucket", PRE500 + ["thread 0 2000 add pass 1", "thread 1 2001 add pass 1"],
     ["thread 0 2002 count pass ; viewsum pass", "sched"]),
    ("P-adds-across-boundary", ["la.new 2 1000 600", "thread 0 999 add pass 1", "thread 1 1000 add pass 1"],
     ["thread 0 1000 viewsum pass ; count pass", "sched", "thread 0 1600 count pass ; viewsum pass", "sched"]),
    ("P-adds-across-boundary-warm", ["la.new 2 1000 600", "thread 0 700 add pass 3", "sched", "thread 0 999 add pass 1", "thread 1 1000 add pass 1"],
     ["thread 0 1600 count pass ; viewsum pass", "sched"]),
    ("P-rolling-add-vs-count", PRE500 + ["thread 0 2000 add pass 1", "thread 1 2000 count pass"],
     ["thread 0 2400 count pass ; viewsum pass", "sched"]),
    ("P-rolling-count-vs-viewsum", PRE500 + ["thread 0 2000 count pass", "thread 1 2000 viewsum pass"],
     ["thread 0 2000 count pass ; viewsum pass", "sched"]),
    ("P-rt-rolling", ["la.new 2 1000 1000", "thread 0 1000 add rt 40 ; conc 3", "sched", "thread 0 2000 add rt 30", "thread 1 2001 add rt 20"],
     ["thread 0 2002 count rt", "sched"]),
]
J32 = 2 ** 32
HUNT += [
    ("P-far-gap-rolling-add-vs-count", ["la.new 2 1000 1000", "thread 0 1000 add pass 5", "sched", "thread 0 1500 add pass 6", "sched",
                                       f"thread 0 {1500 + J32 + 204} add pass 1", f"thread 1 {1500 + J32 + 204} count pass"],
     [f"thread 0 {1500 + J32 + 300} count pass ; viewsum pass", "sched"]),
    ("P-far-gap-viewsum-vs-add", ["la.new 2 1000 1000", "thread 0 1000 add pass 5", "sched", "thread 0 1500 add pass 6", "sched",
                                 f"thread 0 {1000 + 3 * J32 + 499} viewsum pass", f"thread 1 {1000 + 3 * J32 + 500} add pass 2"],
     [f"thread 0 {1000 + 3 * J32 + 600} count pass ; viewsum pass", "sched"]),
]
FILL4 = ["la.new 4 2000 4000", "thread 0 4000 add pass 1", "sched", "thread 0 4500 add pass 2", "sched",
         "thread 0 5000 add pass 100", "sched", "thread 0 5500 add pass 40", "sched"]
FILL3 = ["la.new 3 1500 3000", "thread 0 3000 add pass 1", "sched", "thread 0 3500 add pass 2", "sched", "thread 0 4000 add pass 100", "sched"]
HUNT += [
    # concurrent readers whose windows differ in shape (clock readings several buckets apart)
    ("P-readers-3-buckets-apart", FILL4 + ["thread 0 5600 count pass", "thread 1 7100 count pass"], ["thread 0 7100 count pass", "sched"]),
    ("P-readers-2-buckets-apart", FILL3 + ["thread 0 4100 count pass", "thread 1 5100 count pass"], ["thread 0 5100 count pass", "sched"]),
    ("P-negative-then-positive", ["la.new 2 1000 1000", "thread 0 1000 add pass -5", "thread 1 1001 add pass 3"],
     ["thread 0 1002 count pass ; viewsum pass", "sched"]),
    ("P-negative-vs-rolling-positive", PRE500 + ["thread 0 2000 add pass -7", "thread 1 2001 add pass 2 ; add block -1"],
     ["thread 0 2002 count pass ; count block", "sched"]),
    ("P-values-first-in-new-bucket", PRE500 + ["thread 0 2100 values pass", "thread 1 2100 add pass 1"], ["thread 0 2400 values pass ; count pass", "sched"]),
    ("P-reader-vs-view-apart", FILL4 + ["thread 0 5600 count pass ; count pass", "thread 1 6600 viewsum pass"], ["thread 0 6600 count pass", "sched"]),
]
HUNT3 = [
    ("Q-three-readers-apart", FILL4 + ["thread 0 5600 count pass", "thread 1 6600 count pass", "thread 2 7100 count pass"],
     ["thread 0 7100 count pass", "sched"]),
    ("Q-two-adds-then-next-slot", PRE500 + ["thread 0 2000 add pass 1", "thread 1 2000 add pass 4", "thread 2 2500 add pass 2"],
     ["thread 0 2500 count pass ; viewsum pass", "sched", "thread 0 3100 count pass ; viewsum pass", "sched"]),
    ("Q-boundary-three", ["la.new 3 1500 600", "thread 0 999 add pass 1", "thread 1 1000 add pass 2", "thread 2 1000 count pass"],
     ["thread 0 1400 count pass ; viewsum pass", "sched"]),
]


def preempt_schedules2(kmax, grid):
    out = []
    for a, b in ((0, 1), (1, 0)):
        for k in range(kmax + 1):
            out.append([str(a)] * k + [str(b)] * RUN + [str(a)] * RUN)
        for k in grid:
            for m in grid:
                if m:
                    out.append([str(a)] * k + [str(b)] * m + [str(a)] * RUN + [str(b)] * RUN)
    return out


def preempt_schedules3(grid):
    import itertools
    out = []
    for a, b, c in itertools.permutations((0, 1, 2)):
        for k in grid:
            for m in grid:
                out.append([str(a)] * k + [str(b)] * m + [str(a)] * RUN + [str(b)] * RUN + [str(c)] * RUN)
    return out


def preemption_cases(ctx):
    cases = []
    quick = ctx.tier == "quick"
    s2 = preempt_schedules2(16 if quick else 30, list(range(0, 8)) if quick else list(range(0, 18)))
    s3 = preempt_schedules3(list(range(0, 7)) if quick else list(range(0, 14)))
    two = [(n, pre, tail(pre)) for n, pre, _, _, _ in CONFIGS] + HUNT
    for name, pre, tl in two:
        for k, sc in enumerate(s2):
            cases.append(Case(f"{name}-p{k}", pre + [("sched " + " ".join(sc)).strip()] + tl, tags=("preemption-bounded", name)))
    for name, pre, tl in HUNT3:
        for k, sc in enumerate(s3):
            cases.append(Case(f"{name}-p{k}", pre + [("sched " + " ".join(sc)).strip()] + tl, tags=("preemption-bounded", name)))
    return cases


def hunt(ctx, eng, cases, label):
    """The correspondence is already known to be broken (every case would differ from the model, e.g. because the tree
    under test has yield points the model does not know): judge the implementation's traces with the oracle only and
    report the first cases on which the property itself fails, shrunk, as concrete replays."""
    found = 0
    for i in range(0, len(cases), 4000):
        try:
            res = eng.run3(cases[i:i + 4000])
        except RuntimeError as e:
            ctx.violation(f"{label}-harness-error.txt", f"correspondence could not be run ({e})\n", no_input=True)
            return found
        ctx.cov["traces_validated_against_impl"] = ctx.cov.get("traces_validated_against_impl", 0) + len(res)
        for case, (impl, model, judge) in zip(cases[i:i + 4000], res):
            f, _ = eng.spec_fail(impl, judge)
            if f is None:
                continue
            ops = eng.shrink(case.ops, lambda o: eng.spec_fail(*eng._ij(o))[0] is not None)
            ops = shrink_sched(eng, ops)
            impl, model, judge = eng.one(ops)
            j, _ = eng.spec_fail(impl, judge)
            ctx.violation(f"{label}-{case.cid}.replay",
                          eng.render(ops, impl, model, judge, j, f"property {PROP} fails on the implementation ({label} case {case.cid})"))
            found += 1
            if found >= 3:
                return found
    return found


def shrink_sched(eng, ops):
    """second-level shrinking: shorten the runs inside the schedule lines while the property still fails"""
    fails = lambda o: eng._safe(lambda x: eng.spec_fail(*eng._ij(x))[0] is not None, o)
    for li, o in enumerate(ops):
        if not o.startswith("sched "):
            continue
        es = o.split()[1:]
        # drop trailing entries (the drain finishes the round anyway), then thin out long runs
        budget = 40
        while es and budget:
            budget -= 1
            cand = es[:len(es) // 2] if len(es) > 8 else es[:-1]
            trial = ops[:li] + [("sched " + " ".join(cand)).strip()] + ops[li + 1:]
            if fails(trial):
                es, ops = cand, trial
            elif len(es) > 8:
                cand = es[:-4]
                trial = ops[:li] + [("sched " + " ".join(cand)).strip()] + ops[li + 1:]
                if fails(trial):
                    es, ops = cand, trial
                else:
                    break
            else:
                break
    return ops


def extra(ctx, eng):
    broken = bool(ctx.violations)        # only reached without a concrete failing input: the correspondence is broken
    pc = preemption_cases(ctx)
    ctx.cov["preemption_bounded_schedules"] = len(pc)
    if broken:
        n = hunt(ctx, eng, pc, "preemption")
        if n == 0:
            try:
                cases, info = enumerate_configs(ctx)
                ctx.cov["enumerated_configurations"] = info
                n = hunt(ctx, eng, cases, "enumerated")
            except RuntimeError as e:
                ctx.violation("enum-error.txt", f"schedule enumeration failed: {e}\n", no_input=True)
        ctx.log(f"correspondence broken: oracle-only search over preemption-bounded/enumerated schedules found {n} failing input(s)")
        return
    for i in range(0, len(pc), 4000):
        if ctx.violations:
            break
        eng.check(pc[i:i + 4000], "preemption")
    ctx.log(f"{len(pc)} preemption-bounded schedules")
    if ctx.violations:
        return
    try:
        cases, info = enumerate_configs(ctx)
    except RuntimeError as e:
        ctx.violation("enum-error.txt", f"schedule enumeration failed: {e}\n", no_input=True)
        return
    ctx.cov["enumerated_configurations"] = info
    for i in range(0, len(cases), 4000):
        if ctx.violations:
            break
        eng.check(cases[i:i + 4000], "enumerated")
    ctx.log(f"enumerated {len(cases)} schedules over {len(info)} configurations")
    if ctx.tier == "thorough" and not ctx.violations:
        # randomized parallel stress, real scheduler, no hooks: reported <= started at every read
        st = []
        for i in range(24):
            n = ctx.rng.choice([1, 2, 2, 4, 20])
            L = ctx.rng.choice([1, 2, 5, 50])
            st.append(Case(f"stress-{i}", [f"stress {ctx.rng.choice([2, 4, 8, 16])} {ctx.rng.choice([1, 2, 4])} 20000 {n} {n * L} {ctx.rng.randrange(10 ** 6)}"],
                           tags=("stress",)))
        eng.check(st, "stress")
        ctx.cov["stress_runs"] = len(st)


def run(ctx):
    return std.run(ctx, __import__("checks.C09", fromlist=["x"]), extra=extra)


META = {
    "technique": ("Lean 4 proof (inductive invariants of a small-step model at atomic-access granularity, any number of threads, any schedule) "
                  "+ schedule correspondence through yield hooks on the real package + counter-example theorem for the false clause"),
    "level_text": ("Theorems in lean/Sentinel/Props/C09.lean about the small-step model Sentinel.LAR (one step = one hooked atomic access of "
                   "currentBucketOfTime / ResetBucketTo / MetricBucket / the readers): no_invention for every schedule and thread count, mutual "
                   "exclusion of the reset section, own-bucket crediting under the stall condition, exact accounting, termination (holder release, solo "
                   "progress, the round-robin drain within an explicit number of rounds, every fair infinite schedule), and the decide-checked witness that "
                   "'expired data is never visible' is false. The model is tied to core/stat/base by replaying the same schedules under the "
                   "deterministic yield-hook scheduler: per-thread return values, the sequence of yield points every thread parks at, and the final "
                   "buckets are compared line by line; all interleavings of fixed 2-thread configurations are enumerated, 2-3 thread schedules sampled, "
                   "single/double-preemption schedule families cover trees whose step granularity differs from the model's (oracle-only hunt)."),
    "level_note": ("Trusted: Lean kernel; axioms propext/Classical.choice/Quot.sound; Go harness (internal/sched, virtual clock). Modelled not "
                   "verified: sequentially consistent atomics (all accesses are sync/atomic), the three BucketStart loads of one loop iteration of "
                   "currentBucketOfTime as one step (no hook between them), int64 counters as naturals, non-negative amounts. Known finding "
                   "stale-counters-visible is NOT repaired: the oracle attributes a read above its window's recorded total to it only in a round "
                   "in which a reset ran concurrently."),
    "design_ref": "DESIGN.md 6.C09",
}
