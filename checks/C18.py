"""C18 — datasource payloads are applied faithfully or rejected, never half-applied."""
import atexit
import os
import re
import shutil
import tempfile

# every real-file case lives under one per-run directory which is removed when the check process exits, whatever happened
# (the Go interpreter removes each case's directory itself on file.close / reset; this catches shrunk cases without a file.close)
_TMP = tempfile.mkdtemp(prefix="c18run-")
os.environ["C18_TMP"] = _TMP
atexit.register(shutil.rmtree, _TMP, True)

from vlib import core
from vlib.core import Case

PROP = "C18"
SPEC_MODE = "spec"
KEEP_PREFIX = 0
SIZES = {"quick": 8000, "thorough": 60000}
BATCH = 4000
RULE = ("10 % of the modules in a case use the real updater behind a value-slice or wrongly typed converter (ds.mode), Base add/remove handler ops; 12 % of the cases carry a segment on a scripted handler (ds.custom: converter nil/ok/err/panic x updater ok/err/panic, panic values error/string/nil-deref); deliveries go through a datasource.Base from one reused buffer (ds.deliver) or directly to the handler (ds.handle), mixed; (plus real-file event sequences: 5 corpus + 4 random in quick, 60 random in thorough) payload sequences (3-12 deliveries on one or two of the five modules, fresh handlers and cleared managers per case); payloads are "
        "encoded from rule values by an independent tag-driven encoder (shuffled/omitted/null/duplicate/unknown keys, boundary numbers, out-of-range "
        "and wrongly typed values), plus null elements, empty/null/[]/whitespace, truncations, garbage, exact redeliveries, A-B-A, valid-after-invalid, "
        "same rule under another id / threshold within 1e-8 / signed zero / one specific item renamed, zeroed, added, removed or re-kinded; non-round statistic intervals; same-length payloads differing in one digit; non-trivial = some delivery put rules in force AND the case contains a "
        "rejection (err) or a redelivery of the payload just applied; distinct by (modules, per-delivery payload class and outcome)")

MODS = ["flow", "system", "cb", "isolation", "hotspot"]

# field name, kind, json name (the third copy of the tag tables; cross-checked against the `tags` op in `extra`)
TAGS = {
    "flow": [("ID", "string", "id,omitempty"), ("Resource", "string", "resource"), ("TokenCalculateStrategy", "int32", "tokenCalculateStrategy"),
             ("ControlBehavior", "int32", "controlBehavior"), ("Threshold", "float64", "threshold"), ("RelationStrategy", "int32", "relationStrategy"),
             ("RefResource", "string", "refResource"), ("MaxQueueingTimeMs", "uint32", "maxQueueingTimeMs"), ("WarmUpPeriodSec", "uint32", "warmUpPeriodSec"),
             ("WarmUpColdFactor", "uint32", "warmUpColdFactor"), ("StatIntervalInMs", "uint32", "statIntervalInMs"),
             ("LowMemUsageThreshold", "int64", "lowMemUsageThreshold"), ("HighMemUsageThreshold", "int64", "highMemUsageThreshold"),
             ("MemLowWaterMarkBytes", "int64", "memLowWaterMarkBytes"), ("MemHighWaterMarkBytes", "int64", "memHighWaterMarkBytes")],
    "system": [("ID", "string", "id,omitempty"), ("MetricType", "uint32", "metricType"), ("TriggerCount", "float64", "triggerCount"),
               ("Strategy", "int32", "strategy")],
    "cb": [("Id", "string", "id,omitempty"), ("Resource", "string", "resource"), ("Strategy", "uint32", "strategy"), ("RetryTimeoutMs", "uint32", "retryTimeoutMs"),
           ("MinRequestAmount", "uint64", "minRequestAmount"), ("StatIntervalMs", "uint32", "statIntervalMs"),
           ("StatSlidingWindowBucketCount", "uint32", "statSlidingWindowBucketCount"), ("MaxAllowedRtMs", "uint64", "maxAllowedRtMs"),
           ("Threshold", "float64", "threshold"), ("ProbeNum", "uint64", "probeNum")],
    "isolation": [("ID", "string", "id,omitempty"), ("Resource", "string", "resource"), ("MetricType", "int32", "metricType"), ("Threshold", "uint32", "threshold")],
    "hotspot": [("ID", "string", "id,omitempty"), ("Resource", "string", "resource"), ("MetricType", "int32", "metricType"),
                ("ControlBehavior", "int32", "controlBehavior"), ("ParamIndex", "int", "paramIndex"), ("Threshold", "int64", "threshold"),
                ("MaxQueueingTimeMs", "int64", "maxQueueingTimeMs"), ("BurstCount", "int64", "burstCount"), ("DurationInSec", "int64", "durationInSec"),
                ("ParamsMaxCapacity", "int64", "paramsMaxCapacity"), ("SpecificItems", "slice.struct", "specificItems")],
    "specific": [("ValKind", "int", "valKind"), ("ValStr", "string", "valStr"), ("Threshold", "int64", "threshold")],
}

RANGE = {"int32": (-2 ** 31, 2 ** 31 - 1), "uint32": (0, 2 ** 32 - 1), "int64": (-2 ** 63, 2 ** 63 - 1), "int": (-2 ** 63, 2 ** 63 - 1),
         "uint64": (0, 2 ** 64 - 1)}

RES = ["r1", "r1", "r2", "a b", "x\"y", "back\\slash", "svc/GET:/api", "tab\there\nnl", ""]
IDS = ["", "", "a", "id-1", "b"]
# float literals: exactly representable ones dominate; a few common decimals; -0.0 / 1e-8 neighbours for the equality corners
FLOATS = ["0", "1", "10", "0.5", "1.5", "2.25", "100.125", "1e3", "1E2", "2.5e-1", "1.0", "0.0", "3", "7", "0.1", "0.7", "99.9", "0.25", "1000000",
          "123456789.125", "1.000000001", "1.00000001", "0.999", "1.001", "20", "5e0"]
NEG_FLOATS = ["-1", "-0.5", "-0.0", "-1e-3"]
BAD_FLOATS = ["1e400", "-1e999"]


# statistic intervals that are not round multiples of the global bucket length (the list the C13 builder uses, plus a few more)
ODD_INTERVALS = [1, 7, 250, 499, 501, 700, 997, 1250, 1501, 1600, 1700, 1750, 3001, 3100, 3200, 9973, 9999, 10001, 12345]


def jstr(s):
    return '"' + s.replace("\\", "\\\\").replace('"', '\\"').replace("\n", "\\n").replace("\t", "\\t") + '"'


def gen_int(rng, kind, valid_pool):
    lo, hi = RANGE[kind]
    r = rng.random()
    if r < 0.93:
        return rng.choice(valid_pool)
    if r < 0.988:
        return rng.choice([lo, hi, hi - 1, lo + 1, 0, 1])
    return rng.choice([lo - 1, hi + 1, -1, 2 ** 64, -2 ** 63 - 1, 2 ** 31, 2 ** 32])      # may be out of range: whole payload rejected


def gen_float(rng, allow_bad=True):
    r = rng.random()
    if r < 0.90:
        return rng.choice(FLOATS)
    if r < 0.99 or not allow_bad:
        return rng.choice(NEG_FLOATS)
    return rng.choice(BAD_FLOATS)


def specific_item(rng):
    k = rng.choice([0, 0, 1, 1, 2, 3, 3, 3, 4, 9, -1])
    pools = {
        0: ["1", "+1", "01", "7", "-3", "", "x", "1.5", "9223372036854775807", "9223372036854775808", "1_0", " 1"],
        1: ["a", "", "T", "1", "hello world"],
        2: ["true", "T", "1", "0", "False", "yes", "", "TRUE", "tRuE"],
        3: ["1.5", "1.000004", "1.000005", "1.000015", "2.5", "-0.000001", "1e2", "Inf", "-Inf", "NaN", "abc", "", "0", "-0", "0.1", "1e400", "123.456789", "+2.25"],
    }
    vs = rng.choice(pools.get(k, ["1", "a", ""]))
    return {"valKind": k, "valStr": vs, "threshold": rng.choice([0, 0, 1, 5, 100, -1])}


def rule_values(rng, mod):
    """a dict json-name -> literal text (already JSON) for one rule of `mod`, mostly valid"""
    v = {}
    res = rng.choice(RES)
    rid = rng.choice(IDS)
    if mod == "flow":
        tcs = rng.choice([0, 0, 0, 1, 1, 2, 3, -1])
        v = {"id": jstr(rid), "resource": jstr(res), "tokenCalculateStrategy": str(gen_int(rng, "int32", [tcs])),
             "controlBehavior": str(gen_int(rng, "int32", [0, 0, 1, 1, 2])), "threshold": gen_float(rng),
             "relationStrategy": str(gen_int(rng, "int32", [0, 0, 0, 1, 2])), "refResource": jstr(rng.choice(["", "ref", "r2"])),
             "maxQueueingTimeMs": str(gen_int(rng, "uint32", [0, 10, 500])), "warmUpPeriodSec": str(gen_int(rng, "uint32", [0, 1, 10, 10])),
             "warmUpColdFactor": str(gen_int(rng, "uint32", [0, 0, 1, 2, 3, 5])),
             "statIntervalInMs": str(gen_int(rng, "uint32", [0, 0, 1000, 500, 100, 750, 1500, 2000, 10000, 20000] + ODD_INTERVALS)),
             "lowMemUsageThreshold": str(gen_int(rng, "int64", [0, 100, 1000])), "highMemUsageThreshold": str(gen_int(rng, "int64", [0, 10, 100, 2000])),
             "memLowWaterMarkBytes": str(gen_int(rng, "int64", [0, 1024, 4096])), "memHighWaterMarkBytes": str(gen_int(rng, "int64", [0, 2048, 8192, 1048576]))}
        if v["tokenCalculateStrategy"] == "2":   # validity above 1 MiB depends on the machine's memory size: not generated
            v["memHighWaterMarkBytes"] = str(rng.choice([0, 2048, 8192, 1048576]))
        if tcs == 2 and rng.random() < 0.7:      # a valid memory-adaptive rule
            v.update({"tokenCalculateStrategy": "2", "lowMemUsageThreshold": "1000", "highMemUsageThreshold": "100", "memLowWaterMarkBytes": "1024",
                      "memHighWaterMarkBytes": "8192"})
    elif mod == "system":
        v = {"id": jstr(rid), "metricType": str(gen_int(rng, "uint32", [0, 1, 2, 3, 4, 4, 5])), "triggerCount": gen_float(rng),
             "strategy": str(gen_int(rng, "int32", [-1, 0, 1, 2]))}
    elif mod == "cb":
        v = {"id": jstr(rid), "resource": jstr(res), "strategy": str(gen_int(rng, "uint32", [0, 1, 2, 2, 3])),
             "retryTimeoutMs": str(rng.choice([0, 1, 3000, 3000, 4294967295, 4294967296])), "minRequestAmount": str(gen_int(rng, "uint64", [0, 5, 10])),
             "statIntervalMs": str(rng.choice([0, 1000, 1000, 5000, 10000, 999, -1] + ODD_INTERVALS)),
             "statSlidingWindowBucketCount": str(rng.choice([0, 1, 2, 10, 3, 7])), "maxAllowedRtMs": str(gen_int(rng, "uint64", [0, 20, 500])),
             "threshold": gen_float(rng), "probeNum": str(gen_int(rng, "uint64", [0, 1, 5]))}
    elif mod == "isolation":
        v = {"id": jstr(rid), "resource": jstr(res), "metricType": str(gen_int(rng, "int32", [0, 0, 0, 1])),
             "threshold": str(gen_int(rng, "uint32", [0, 1, 5, 100]))}
    elif mod == "hotspot":
        items = [specific_item(rng) for _ in range(rng.choice([0, 0, 1, 2, 3, 5]))]
        v = {"id": jstr(rid), "resource": jstr(res), "metricType": str(gen_int(rng, "int32", [0, 1, 1, 2])),
             "controlBehavior": str(gen_int(rng, "int32", [0, 0, 1, 2])), "paramIndex": str(gen_int(rng, "int", [0, 1, -1, 2])),
             "threshold": str(gen_int(rng, "int64", [0, 1, 10, 100, -1])), "maxQueueingTimeMs": str(gen_int(rng, "int64", [0, 5, 9, -1])),
             "burstCount": str(gen_int(rng, "int64", [0, 1, 2, -1])), "durationInSec": str(gen_int(rng, "int64", [0, 1, 1, 2])),
             "paramsMaxCapacity": str(rng.choice([0, 0, 10, 100, -5])),
             "specificItems": "[" + ",".join(encode_obj(rng, {k: (jstr(x) if isinstance(x, str) else str(x)) for k, x in it.items()}, plain=rng.random() < 0.6)
                                             for it in items) + "]"}
        v["_items"] = items                                      # kept for one-step variants (not encoded)
        if rng.random() < 0.06:
            v["specificItems"] = rng.choice(["null", "[null]", "[{}]"])
            v["_items"] = []
        if rng.random() < 0.05:
            v["paramKey"] = jstr(rng.choice(["k", "user"]))          # known finding hotspot-paramkey-dropped
    return v


UNKNOWN = ['"extra":{"a":[1,null,"x"],"b":{}}', '"zzz":null', '"comment":"hi"', '"n":-1.5e3', '"flag":true']


def encode_obj(rng, v, plain=False):
    """independent encoder: a JSON object text from json-name -> literal text"""
    items = [kv for kv in v.items() if not kv[0].startswith("_")]
    if not plain:
        if rng.random() < 0.5:
            rng.shuffle(items)
        if rng.random() < 0.5:
            items = [kv for kv in items if rng.random() < 0.75]      # omitted fields keep their zero value
        out = []
        for k, t in items:
            r = rng.random()
            if r < 0.03:
                out.append(f'"{k}":null')                              # null leaves the field alone
            elif r < 0.05 and k != "specificItems":
                out.append(f'"{k}":{t}')
                out.append(f'"{k}":{t}')                               # duplicate key (later wins)
            elif r < 0.058:
                out.append(f'"{k}":' + rng.choice(['"str"', "true", "[]", "{}", "1.5", '"1"']) if k != "specificItems" else f'"{k}":{{}}')   # wrong type (mostly)
            else:
                out.append(f'"{k}":{t}')
        if rng.random() < 0.15:
            out.insert(rng.randrange(len(out) + 1), rng.choice(UNKNOWN))
        sep = rng.choice([",", ",", ", ", " ,\n "])
        return "{" + sep.join(out) + "}"
    return "{" + ",".join(f'"{k}":{t}' for k, t in items) + "}"


def encode_list(rng, objs):
    ws = rng.choice(["", "", " ", "\n", "\t "])
    return ws + "[" + rng.choice([",", ", ", ",\n"]).join(objs) + "]" + rng.choice(["", "", "\n", "  "])


def hexp(s):
    return s.encode().hex() if s else "-"


def encode_items(items):
    return "[" + ",".join("{" + ",".join(f'"{k}":{jstr(x) if isinstance(x, str) else x}' for k, x in it.items()) + "}" for it in items) + "]"


RENAME = {"7": "8", "8": "7", "1": "2", "+1": "3", "01": "4", "-3": "-4", "a": "b", "T": "U", "hello world": "hello", "true": "false", "1.5": "2.5", "2.5": "1.5",
          "1.000004": "3.25", "1e2": "1e3", "0": "9", "0.1": "0.2"}


def specific_variant(rng, v):
    """the same hotspot rule with ONE small change of its specific items: a key renamed, a value changed to/from 0, an item with value 0 added or
    removed, the kind of an item changed"""
    w = dict(v)
    items = [dict(it) for it in v.get("_items", [])]
    r = rng.random()
    if not items or r < 0.2:
        items.insert(rng.randrange(len(items) + 1), {"valKind": rng.choice([0, 1]), "valStr": rng.choice(["41", "zz", "5"]), "threshold": 0})
    else:
        i = rng.randrange(len(items))
        it = items[i]
        if r < 0.5:
            it["valStr"] = RENAME.get(it["valStr"], "77" if it["valStr"] != "77" else "78")
        elif r < 0.7:
            it["threshold"] = 0 if it["threshold"] != 0 else rng.choice([1, 5])
        elif r < 0.85:
            del items[i]
        else:
            it["valKind"] = {0: 1, 1: 0, 2: 1, 3: 1}.get(it["valKind"], 1)
    w["_items"] = items
    w["specificItems"] = encode_items(items)
    return w


def variant(rng, mod, v):
    """the same rule as the module judges it, under another id / with an irrelevant difference (stale-equal-rule region)"""
    if mod == "hotspot" and rng.random() < 0.6:
        return specific_variant(rng, v)
    w = dict(v)
    r = rng.random()
    if r < 0.5 or mod in ("system", "isolation", "cb"):
        w["id"] = jstr(rng.choice(["other", "n2", ""]))
    elif mod == "flow":
        w["threshold"] = {"1": "1.000000001", "1.0": "1.000000001", "0": "-0.0", "0.0": "-0.0"}.get(v.get("threshold"), v.get("threshold", "0"))
    else:
        w["maxQueueingTimeMs"] = "9" if v.get("controlBehavior") == "0" else v.get("maxQueueingTimeMs", "0")
        w["burstCount"] = "2" if v.get("controlBehavior") == "1" else v.get("burstCount", "0")
    return w


_NUM = re.compile(r'"(threshold|triggerCount|burstCount|maxQueueingTimeMs|statIntervalMs|retryTimeoutMs)":(-?[0-9.]*[0-9])')


def same_length_variant(rng, text):
    """the payload with the last digit of one numeric field changed (length unchanged); None if there is no such field"""
    ms = list(_NUM.finditer(text))
    if not ms:
        return None
    m = rng.choice(ms)
    i = m.end(2) - 1
    d = text[i]
    nd = str(int(d) % 9 + 1)
    return text[:i] + nd + text[i + 1:]


def gen_case(rng, cid):
    mods = [rng.choice(MODS)]
    if rng.random() < 0.25:
        mods.append(rng.choice(MODS))
    ops, classes = [], []
    via_base = rng.random() < 0.5       # the case's usual way of delivering; mixed with the other one
    hist = {m: [] for m in MODS}        # payload texts delivered per module
    lastvals = {m: None for m in MODS}
    for m in dict.fromkeys(mods):
        if rng.random() < 0.10:            # the real updater behind a value-slice / wrongly typed converter
            ops.append(f"ds.mode {m} {rng.choice(['val', 'val', 'bad'])}")
    for _ in range(rng.randint(3, 12)):
        m = rng.choice(mods)
        if rng.random() < 0.03:
            ops.append(f"{rng.choice(['base.remove', 'base.add'])} {m}")
        r = rng.random()
        if r < 0.50 or not hist[m]:
            n = rng.choice([1, 1, 1, 2, 2, 3, 4])
            vals = [rule_values(rng, m) for _ in range(n)]
            if n >= 2 and rng.random() < 0.4:
                vals[1]["resource"] = vals[0].get("resource", jstr("r1"))     # several rules on one resource
            if m == "system":
                pass
            lastvals[m] = vals
            objs = [encode_obj(rng, v, plain=rng.random() < 0.45) for v in vals]
            if rng.random() < 0.10:
                objs.insert(rng.randrange(len(objs) + 1), "null")              # null element: nil rule (skipped by LoadRules / by the hotspot parser)
            p, cl = encode_list(rng, objs), "rules"
        elif r < 0.62:
            p, cl = hist[m][-1], "redeliver"
        elif r < 0.70:
            p, cl = rng.choice(hist[m]), "older"
        elif (r < 0.77 or (m == "hotspot" and r < 0.85)) and lastvals[m]:
            vals = [variant(rng, m, v) if rng.random() < 0.7 else v for v in lastvals[m]]
            lastvals[m] = vals
            p, cl = encode_list(rng, [encode_obj(rng, v, plain=True) for v in vals]), "variant"
        elif r < 0.85:
            p, cl = rng.choice(["", "", "null", "[]", " [ ] ", " ", "\n", "[null]", "[null,null]"]), "empty"
        elif r < 0.91:
            base = rng.choice(hist[m])
            p, cl = (base[:rng.randrange(len(base))] if base else "["), "truncated"
        elif r < 0.96:
            p, cl = rng.choice(["[1]", '["x"]', "[[]]", "{}", "true", '"str"', "1", "[true]", '[{"resource":1}]', '[{"threshold":"1"}]', "[{}]", "[{},{}]",
                                '{"resource":"r"}', "[{\"resource\":\"r\"},1]", "[1.5]"]), "wrongtype"
        else:
            p, cl = rng.choice(["[", "]", "[,]", "[{]", "nul", "[nul]", "[{\"a\":}]", "[{\"a\"}]", "[01]", "[+1]", "[.5]", "[1.]", "[{'a':1}]", "[] x", "[1 2]",
                                "[\"\\q\"]", "[\"a\nb\"]", "[NaN]", "[{\"a\":1,}]", "[1,]", "tru", "[1e]", "[-]", "{\"a\":1"]), "garbage"
        # one in four deliveries is the previous payload of this module with one digit changed: same length, other content
        # (a datasource that reuses its read buffer must not have it taken for "the same payload as last time")
        if hist[m] and rng.random() < 0.12:
            q = same_length_variant(rng, hist[m][-1])
            if q is not None:
                p, cl = q, "eqlen"
        hist[m].append(p)
        # through a datasource.Base from one reused buffer (ds.deliver) or the handler directly with a fresh slice (ds.handle)
        via = via_base if rng.random() < 0.85 else not via_base
        ops.append(f"{'ds.deliver' if via else 'ds.handle'} {m} {hexp(p)}")
        classes.append(cl + ("/b" if via else ""))
        if rng.random() < 0.12:
            ops.append(f"rules {rng.choice(MODS)}")                               # other modules are untouched
    if rng.random() < 0.12:
        seg = custom_segment(rng)
        k = rng.randrange(len(ops) + 1)
        ops[k:k] = seg
        classes.append("custom")
    return Case(cid, ops, tags=tuple(mods) + tuple(classes))


CONVS = ["nil", "ok:1", "ok:1", "ok:2", "ok:3", "err", "panic:err", "panic:str", "panic:deref"]
UPDS = ["ok", "ok", "ok", "err", "panic:err", "panic:str", "panic:deref"]


def custom_segment(rng):
    """deliveries on the scripted handler (real DefaultPropertyHandler.Handle, converter/updater outcome chosen per delivery)"""
    ops, last = [], None
    for _ in range(rng.randint(3, 10)):
        c = last if last is not None and rng.random() < 0.3 else rng.choice(CONVS)     # 30 %: the same converter result again
        ops.append(f"ds.custom {c} {rng.choice(UPDS)}")
        last = c
    return ops


def gen(ctx, n):
    return [gen_case(ctx.rng, f"g{ctx.seed}-{ctx.cov.get('traces_validated_against_impl', 0) + i}") for i in range(n)]


def corpus():
    import glob, os
    res = []
    for p in sorted(glob.glob(os.path.join(core.ROOT, "corpus", PROP, "*.ops"))):
        ops = [l.rstrip("\n") for l in open(p) if l.strip() and not l.startswith("#") and not l.startswith("case ")]
        res.append(Case(os.path.basename(p), ops, tags=("corpus",)))
    return res


def densify(ops, rng):
    """redeliver payloads and read every module's rules after random ops"""
    out = []
    for o in ops:
        out.append(o)
        if o.startswith(("ds.handle", "ds.deliver")) and rng.random() < 0.4:
            out.append(o)
        if rng.random() < 0.4:
            out.append("rules " + rng.choice(MODS))
    return out


def nontrivial(case, impl):
    applied = rejected = redelivered = False
    prev = {}
    outs = []
    for l in impl:
        op, _, r = l.partition(" => ")
        t = op.split()
        if t[0] not in ("ds.handle", "ds.deliver"):
            continue
        st = r.split(" ", 1)[0]
        outs.append(st)
        if st == "err":
            rejected = True
        if st == "ok" and not r.endswith("[]"):
            applied = True
        if prev.get(t[1]) == t[2]:
            redelivered = True
        prev[t[1]] = t[2]
    if applied and (rejected or redelivered):
        return hash((case.tags, tuple(outs)))
    return None


# ------------------------------------------------------------------------------------------------
# extra phases
# ------------------------------------------------------------------------------------------------

# payloads the Lean text parser does not handle (the driver answers `?`): exercised on the implementation only, with the
# trace-level part of the property checked here (no panic, ok|err, an error leaves the rules alone, redelivery changes nothing)
OUTSIDE = ['[{"Resource":"x","threshold":1.5}]', '[{"RESOURCE":"x","THRESHOLD":2}]', '[{"resource":"caf\\u00e9","threshold":1}]',
           '[{"resource":"caf\u00e9","threshold":1}]', '[{"resource":"\\ud83d\\ude00","threshold":1}]', '\ufeff[]', '[{"resource":"x","threshold":1}]\x00',
           '[{"resource":"a","threshold":1,"specificItems":[{"valKind":3,"valStr":"0x1p-2","threshold":1}]}]',
           '[{"resource":"a","threshold":1,"specificItems":[{"valKind":3,"valStr":"1_000.5","threshold":1}]}]',
           '[{"resource":"a","threshold":1,"specificItems":[{"valKind":3,"valStr":".5","threshold":1}]}]',
           '[{"resource":"a","threshold":1,"specificItems":[{"valKind":3,"valStr":"infinity","threshold":1}]}]',
           '[{"resource":"a","threshold":-0}]', '[{"resource":"a","threshold":1e-400,"metricType":-0}]',
           '[' * 50 + ']' * 50, '[' * 20000, '[{"resource":"' + "x" * 5000 + '","threshold":1}]', '\xff\xfe', '[{"resource":"a\x7fb","threshold":1}]',
           '[{"resource":"a","threshold":1,"specificItems":[{"valKind":0,"valStr":"1"}],"specificItems":[]}]',
           '[{"resource":"a","threshold":12345678901234567890123456789012345678901234567890}]']


def exercise_only(ctx, eng):
    ops, n = [], 0
    for m in MODS:
        for i, p in enumerate(OUTSIDE):
            ops.append(f"case x-{m}-{i}")
            hx = p.encode("utf-8", "surrogatepass" if False else "ignore").hex() if p else "-"
            good = '[{"resource":"keep","threshold":1,"metricType":0,"triggerCount":1,"retryTimeoutMs":1,"statIntervalMs":1000}]'.encode().hex()
            ops += [f"ds.handle {m} {good}", f"ds.handle {m} {hx}", f"ds.handle {m} {hx}"]
            n += 1
    impl, err = core.run_impl(eng.binary, PROP, "\n".join(ops) + "\n")
    if impl is None:
        ctx.violation("exercise-harness-error.txt", err, no_input=True)
        return
    bad = None
    for c in core.split_cases(impl):
        res = [core.split_res(l)[1] for l in c]
        if any(r is None or r.startswith("PANIC") or r.split(" ", 1)[0] not in ("ok", "err") for r in res):
            bad = c
            break
        keep, first, second = res
        if first.startswith("err ") and first[4:] != keep[3:]:
            bad = c            # rejected but the rules changed
            break
        if second != first:
            bad = c            # redelivery changed something
            break
    ctx.cov["exercised_outside_alphabet"] = n
    if bad is not None:
        ctx.violation("exercise-only.replay", "# trace-level check on a payload outside the Lean parser's alphabet failed\ncase replay\n" + "\n".join(bad) + "\n")


def tag_tables(ctx, eng):
    """the generator's own tag tables against the implementation's reflection output"""
    ops = ["case tags"] + [f"tags {m}" for m in TAGS]
    impl, err = core.run_impl(eng.binary, PROP, "\n".join(ops) + "\n")
    if impl is None:
        ctx.violation("tags-harness-error.txt", err, no_input=True)
        return
    for l in impl[1:]:
        op, r = core.split_res(l)
        m = op.split()[1]
        want = ";".join(f"{a}:{b}:{c}" for a, b, c in TAGS[m])
        if r != want:
            ctx.violation("generator-tags.txt", f"the generator's tag table for {m} is stale:\n impl {r}\n gen  {want}\n", no_input=True)


FILE_GOOD = {
    "flow": ['[{"resource":"f1","threshold":5}]', '[{"resource":"f1","threshold":8}]', '[{"resource":"f1","threshold":7},{"resource":"f2","threshold":1.5}]'],
    "system": ['[{"metricType":2,"triggerCount":5}]', '[{"metricType":3,"triggerCount":7}]', '[{"metricType":3,"triggerCount":100}]'],
    "cb": ['[{"resource":"c","strategy":2,"retryTimeoutMs":1000,"statIntervalMs":1000,"threshold":3}]',
           '[{"resource":"c","strategy":1,"retryTimeoutMs":1000,"statIntervalMs":1000,"threshold":0.5}]',
           '[{"resource":"c","strategy":2,"retryTimeoutMs":1000,"statIntervalMs":1000,"threshold":4}]'],
    "isolation": ['[{"resource":"i","threshold":3}]', '[{"resource":"i","threshold":9}]', '[{"resource":"i","threshold":4},{"resource":"j","threshold":1}]'],
    "hotspot": ['[{"resource":"h","threshold":3,"specificItems":[{"valKind":0,"valStr":"7","threshold":1}]}]', '[{"resource":"h","threshold":4}]', '[{"resource":"h","threshold":7}]'],
}


def file_cases(ctx, n):
    """random event sequences on a real temp file: in-place write, truncate+write, rename-away + re-create / give up, replace by
    rename-over (known finding), remove; contents decodable and not, always ending with file.close"""
    rng = ctx.rng
    cases = []
    for i in range(n):
        m = rng.choice(MODS)
        good = FILE_GOOD[m]
        pool = good + good + ["[]", "", "null", "[", "[1]", "garbage", " "]
        first = rng.choice(good + good + ["", "[", "[{", "{}", "nul", good[0][:len(good[0]) // 2], "none"])   # incl. undecodable / half-written / empty starts
        ops = [f"file.new {m} {first if first == 'none' else hexp(first)}"]
        away, closed, absent, have_away = False, first == "none", first == "none", False
        if rng.random() < 0.3:
            ops.append("file.reinit")
        for _ in range(rng.randint(2, 7)):
            r = rng.random()
            if absent and not away:                    # removed for good / never existed: only a re-creation makes sense
                ops.append(f"file.recreate {hexp(rng.choice(good))}")
                absent = False
            elif away:                                   # the watcher is in its re-watch retry loop
                if r < 0.25 and have_away:
                    ops.append("file.renameback")                               # the same file, unchanged: same size, same mtime
                elif r < 0.40:
                    ops.append(f"file.recreatep {hexp(rng.choice(good))}")       # a new file carrying the old file's mtime (cp -p)
                elif r < 0.70:
                    ops.append(f"file.recreate {hexp(rng.choice(pool))}")
                elif r < 0.85:
                    ops.append(f"file.replace {hexp(rng.choice(good))}")
                else:
                    ops.append("file.giveup")
                    closed = absent = True
                away = False
            elif r < 0.15 and not closed:
                ops.append(f"file.rewrite {hexp(rng.choice(good + good + ['[', '[]']))}")   # in place, identical mtime (same size when the lengths agree)
            elif r < 0.40:
                ops.append(f"file.write {hexp(rng.choice(pool))}")
            elif r < 0.55:
                ops.append(f"file.truncwrite {hexp(rng.choice(good + ['[]', '']))}")   # decodable only: the intermediate empty content may or may not be seen
            elif r < 0.80:
                ops.append("file.rename")
                away, absent, have_away = not closed, closed, True
            elif r < 0.90:
                ops.append(f"file.replace {hexp(rng.choice(good + ['[', '[]']))}")
                closed = True
            else:
                ops.append("file.remove")
                closed = absent = True
        if away:
            ops.append(rng.choice([f"file.recreate {hexp(rng.choice(good))}", "file.giveup"]))
        ops.append("file.close")
        cases.append(Case(f"file{ctx.seed}-{i}", ops, tags=("file", m)))
    return cases


def extra(ctx, eng):
    tag_tables(ctx, eng)
    if not ctx.violations:
        exercise_only(ctx, eng)
    if not ctx.violations:
        # real temp file + fsnotify: a small slice in the quick tier (plus the five corpus/C18/file-*.ops cases), many in thorough
        cs = file_cases(ctx, 60 if ctx.tier == "thorough" else 4)
        eng.check(cs, "file")
        ctx.cov["file_datasource_cases"] = len(cs)


def run(ctx):
    import importlib
    from vlib import std
    return std.run(ctx, importlib.import_module("checks." + PROP), extra=extra)


META = {
    "technique": "Lean 4 proof (handler state machine with converter/DeepEqual/updater as parameters; table-driven JSON-tree codec, generic round trip) "
                 "+ differential correspondence model/impl over payload sequences against the real rule managers",
    "level_text": ("Theorems in lean/Sentinel/Props/C18.lean, kernel-checked: Handle returns normally for every converter and updater outcome incl. panics; for all "
                   "five parsers and every byte string (text-level JSON parser universally quantified; faithful_or_rejected, at full strength since fix 2a360c1: "
                   "none of the five converters can panic) a delivery either applies exactly the valid rules of the decoded list (up to the module's "
                   "own rule equality) with a nil error, or returns an error and leaves everything unchanged; exact redelivery is a no-op; empty/null/[] clear; "
                   "fromJson(toJson r) = r for every well-typed record of the five wire types, proved once for any tag table with distinct names; the abstract file "
                   "source (in-place write, watcher look, remove, rename-away, re-create during the re-watch retries, give up, rename-over) converges to the decoded "
                   "current content while it is open and is cleared once closed; the convergence statement is false for rename-over (known finding, witness) and "
                   "proved for all histories without it.  Real-file cases (fsnotify, gated util.Sleep) run in every tier.  Tied to the code by running payload sequences through the real "
                   "handlers + rule managers and the compiled Lean driver (same definitions) and comparing Handle's result and GetRules after every delivery; the tag "
                   "tables are compared with reflect on every run."),
    "level_note": ("Trusted: Lean kernel; axioms propext/Classical.choice/Quot.sound; Go harness and canonical printing; text-level JSON parsing is encoding/json's "
                   "(the driver's parser covers the generator's ASCII alphabet, anything else is exercised on the implementation only); decimal->binary64 "
                   "conversion (Lean Float.ofScientific vs strconv) is compared, not proved; M-RULES abstraction of the managers (valid rules of the loaded list in "
                   "force) is C13's subject; inotify delivery is the OS's."),
    "design_ref": "DESIGN.md 6.C18",
}
