"""C01 — Entry/Exit accounting is conserved and correctly attributed (api.Entry / TraceError / Exit level)."""
from vlib.core import Case

PROP = "C01"
SPEC_MODE = "spec"
KEEP_PREFIX = 0
SHRINK_BUDGET = 150
SIZES = {"quick": 600, "thorough": 12000}
RULE = ("op histories over 1-6 resources: entries (default chain with isolation / hotspot rules, or custom chains from a behaviour "
        "table: node/no-op/panicking prepare slots, nil/pass/block/panicking rule slots, stat.DefaultSlot and recording slots), "
        "inbound/outbound, resource type varying between entries of one resource (api.WithResourceType), batch in {0,1,2,3,small,2^32-1}, 0-3 args incl. unhashable, nested and interleaved; TraceError (nil and "
        "non-nil), Exit with/without error, double exits, options left out (traffic type, batch, flag, resource type, chain, args, attachments: the pooled EntryOptions must supply the default), attachments by WithAttachments(caller's map)+WithAttachment with the caller mutating its map afterwards, exit handlers (nil / error / panic), several WithArgs / options passed twice in one call, stat.ResetResourceNodeMap() while entries are in flight, clocks that read 0 or step backwards (7 % of the cases), hotspot rules of metric type QPS and Concurrency, two goroutines exiting one entry simultaneously (racexit, forced to overlap by a rendezvous stat slot), late Exit(WithError)/TraceError on exited ids after other entries reused "
        "the pooled context, ops on blocked ids; multi-goroutine soaks (2-8 goroutines x 10-120 Entry/Trace/Exit rounds, GOMAXPROCS 8) whose final account is compared; time steps from {0,1,499,500,501,999,1000,1001,9999,10000,10001,>array}; reads of "
        "every counter (1 s and 10 s views), gauge, peak concurrency, min RT, ctx.Err/Args of live entries, recording-slot logs. "
        "non-trivial = at least one pass, one block, one completion, one late op on an exited id and one non-zero read; distinct by "
        "(rules, op-kind/chain/outcome sequence)")

EVS = ["pass", "block", "complete", "error", "rt"]
PRES = ["N", "N", "N", "N", "oN", "No", "xN", "Nx", "-", "o", "x", "NN"]
RULES = ["-", "p", "n", "pn", "np", "b", "pb", "nb", "b", "x", "px", "bx", "xb", "ppb"]
STATS = ["S", "S", "S0", "S01", "0", "-", "S1", "01", "wS", "wS0", "Sw", "wS01"]
RTYPES = ["common", "web", "rpc", "api_gateway", "db_sql", "cache", "mq"]
STEPS = [0, 0, 1, 1, 2, 7, 499, 500, 501, 999, 1000, 1001, 1499, 9499, 9999, 10000, 10001, 10500, 20000, 35001]
ERRS = ["e1", "e2", "boom", "late", "nil", "blk", "w_e1", "blk"]   # plain, nil, *base.BlockError, wrapped


def gen_args(rng, hot, panic_ok):
    n = rng.choice([0, 0, 1, 1, 1, 2, 3])
    args = []
    for i in range(n):
        r = rng.random()
        if i == 0 and panic_ok and r < (0.5 if hot else 0.15):
            args.append("u:" + rng.choice("xyz"))
        elif i > 0 and r < 0.1:
            args.append("u:" + rng.choice("xyz"))   # unhashable, but not at the hotspot index: harmless
        elif r < 0.6:
            args.append("s:" + rng.choice("abcd"))
        else:
            args.append("i:" + str(rng.choice([0, 1, 7, -3, 42])))
    return args


def gen_chain(rng, panic_ok):
    if rng.random() < 0.55:
        return "default"
    for _ in range(20):
        pre, rules, stats = rng.choice(PRES), rng.choice(RULES), rng.choice(STATS)
        if not panic_ok and ("x" in pre or "x" in rules.split("b")[0]):
            continue
        return f"c/{pre}/{rules}/{stats}"
    return "c/N/p/S0"


def gen_case(rng, cid):
    nres = rng.randint(1, 6)
    ress = [f"r{i}" for i in range(nres)]
    panicky = rng.random() < 0.25          # the slice inside the known-finding region
    # unusual clocks (7 % of the cases): the clock reads exactly 0 at the start and/or steps backwards between ops; the
    # response-time figures are then whatever the code computes (not compared), conservation must still hold
    weird = rng.random() < 0.07
    if weird and rng.random() < 0.6:
        ops = [f"clock abs {rng.choice([0, 0, 1, 5])}"]
        now = 0
    else:
        ops = [f"clock {rng.choice([0, 1, 250, 499, 500, 501, 9999, rng.randint(0, 12000)])}"]
        now = int(ops[0].split()[1])
    # the node map grows by n never-seen resources first (rarely past base.DefaultMaxResourceAmount = 10000): the case's own
    # resources are then first-time resources beyond the threshold and must be accounted like any other
    if rng.random() < 0.06:
        ops.append(f"many {rng.choice([10000, 10001, 10500]) if rng.random() < 0.25 else rng.choice([1, 3, 50, 400])}")
    hot = set()
    for r in ress:
        if rng.random() < 0.35:
            ops.append(f"rule iso {r} {rng.choice([1, 1, 2, 3, 5, 4294967295])}")
        if rng.random() < 0.3 and not weird:
            # hotspot rule on argument 0: QPS (panics on specificItems[arg]) or Concurrency (panics inside the parameter cache)
            ops.append(f"rule {rng.choice(['hot', 'hotc'])} {r}")
            hot.add(r)
    live, done, blocked = [], [], []
    used = []
    chains = {}
    withmap = []
    nsoak = 0
    nid = 0
    late = []         # (countdown, op) scheduled late ops on exited ids
    nops = rng.randint(15, 90)
    for _ in range(nops):
        late = [(c - 1, o) for c, o in late]
        due = [o for c, o in late if c <= 0]
        late = [(c, o) for c, o in late if c > 0]
        ops.extend(due)
        r = rng.random()
        if weird and r < 0.14 and rng.random() < 0.5:
            # backwards: to an earlier relative time, or to a tiny absolute reading (far behind the epoch)
            if rng.random() < 0.5:
                now = max(0, now - rng.choice([1, 2, 499, 500, 1000, 10001]))
                ops.append(f"clock {now}")
            else:
                ops.append(f"clock abs {rng.choice([0, 0, 1, 3, 499, 500, 10000])}")
        elif r < 0.14:
            d = rng.choice(STEPS) if rng.random() < 0.8 else rng.randint(0, 1200)
            if rng.random() < 0.15:
                d = (500 - now % 500) % 500 + rng.choice([0, 500, 10000])     # land on a bucket / cycle boundary
            now += d
            ops.append(f"clock {now}")
        elif r < 0.42:
            nid += 1
            res = rng.choice(ress)
            big = rng.random() < 0.04 and res not in hot
            batch = 4294967295 if big else rng.choice([1, 1, 1, 1, 2, 3, 0, rng.randint(1, 100)])
            chain = gen_chain(rng, panicky)
            args = gen_args(rng, res in hot, panicky)
            # the resource type varies between entries of one resource (typed while untyped ones are in flight and vice versa)
            rty = f" type={rng.choice(RTYPES)}" if rng.random() < 0.45 else ""
            # options that are NOT passed must come out as the defaults although the options object is pooled:
            # traffic type (`-` = outbound), batch (`-` = 1), flag, resource type, slot chain, args, attachments
            dirn = rng.choice(["in", "out", "in", "out", "-"])
            if rng.random() < 0.15:
                rty += f" flag={rng.choice([1, -1, 7, 2147483647])}"
            # HOW the options are passed: several WithArgs in one call (the list is their concatenation), options given
            # twice with a decoy value first (the last one counts; attachments merge)
            how = ""
            if rng.random() < 0.12:
                how += " dup=" + "".join(c for c in "btfrca" if rng.random() < 0.5) + "x"
            if len(args) >= 2 and rng.random() < 0.35:
                how += f" argsplit={rng.randint(1, len(args) - 1)}"
            rty = how + rty
            bt = "-" if (rng.random() < 0.3 and not big) else str(batch)
            att = ""
            if rng.random() < 0.2:
                keys = rng.sample(["k1", "k2", "k3", "k4"], rng.randint(0, 3))
                att = " |" + "".join(f" {k}={rng.choice('uvw')}{rng.randint(0, 9)}" for k in keys)
                if rng.random() < 0.6:
                    att += " |" + "".join(f" {rng.choice(['k1', 'k2', 'k5', 'k6'])}={rng.choice('xyz')}{j}" for j in range(rng.randint(1, 2)))
                withmap.append(nid)
            ops.append(f"entry {nid} {res} {dirn}{rty} {bt} {chain} {len(args)}" + "".join(" " + a for a in args) + att)
            chains[nid] = chain
            if att and rng.random() < 0.7:
                ops.append(f"attmap {nid}")
                ops.append(f"ctx {nid} att")
            if res not in used:
                used.append(res)
            live.append(nid)   # may in fact be blocked: ops on blocked ids are part of the domain
            if rng.random() < 0.3:
                ops.append(f"ctx {nid} {rng.choice(['err', 'args', 'att', 'flag', 'batch'])}")
            if rng.random() < 0.12:
                # exit handlers do not change the account (a panicking one is outside the domain: see notes)
                ops.append(f"whenexit {nid} {rng.choice(['ok', 'err', 'err', 'err', 'ok', 'panic'] if rng.random() < 0.3 else ['ok', 'err', 'err'])}")
        elif r < 0.50 and (live or done):
            pool = live if (rng.random() < 0.75 and live) else (done or live)
            err = rng.choice(ERRS)
            # api.TraceError, or entry.SetError called directly (non-nil errors only)
            ops.append(f"{'seterr' if err != 'nil' and rng.random() < 0.25 else 'trace'} {rng.choice(pool)} {err}")
        elif r < 0.68 and (live or done):
            if live and rng.random() < 0.8:
                # exits out of order: newest, oldest or random
                k = rng.choice([len(live) - 1, 0, rng.randrange(len(live))])
                i = live.pop(k)
                # two goroutines exiting the same entry at once (always when its chain has the rendezvous slot)
                verb = "racexit" if ("w" in chains.get(i, "").split("/")[-1] or rng.random() < 0.05) else "exit"
                ops.append(f"{verb} {i}" + (f" {rng.choice(ERRS)}" if rng.random() < 0.35 else ""))
                done.append(i)
                # pool-reuse stress: late calls on the exited entry after the next entries took its context
                if rng.random() < 0.6:
                    late.append((rng.randint(1, 4), f"exit {i} late"))
                if rng.random() < 0.4:
                    late.append((rng.randint(1, 4), f"trace {i} late"))
                if rng.random() < 0.3:
                    late.append((rng.randint(1, 3), f"exit {i}"))
            elif done:
                ops.append(f"exit {rng.choice(done)}" + (f" {rng.choice(ERRS)}" if rng.random() < 0.6 else ""))
        elif r < 0.70 and rng.random() < 0.06:
            # the test utility stat.ResetResourceNodeMap() in the middle of the traffic
            ops.append("resetnodes")
            ops.append("nodes")
            ops.append("read __inbound__ conc")
        elif r < 0.695 and rng.random() < 0.25 and not weird:
            # many goroutines at one instant on their own resources; the final account must be the sequential ledger's
            R = rng.choice([1, 2, 3])
            ops.append(f"soak {rng.choice([2, 4, 8])} {rng.choice([10, 40, 120])} {R} {rng.randint(0, 10 ** 6)}")
            nsoak += 1
            for name in [f"s{j}" for j in range(R)] + [f"f{nsoak}_{j}" for j in range(3)]:
                if name not in used:
                    used.append(name)
            for j in range(3):
                ops.append(f"read f{nsoak}_{j} sum10 {rng.choice(['pass', 'complete'])}")
        elif r < 0.93:
            key = rng.choice((used or ress) + ["__inbound__"]) if rng.random() < 0.93 else rng.choice(ress + ["nosuch"])
            g = rng.choice(["sum", "sum", "sum10", "conc", "conc", "maxconc", "minrt", "type", "nodes"])
            if g == "nodes":
                ops.append("nodes")
            elif g == "type":
                ops.append(f"read {rng.choice(ress)} type")
            elif g in ("sum", "sum10"):
                ops.append(f"read {key} {g} {rng.choice(EVS)}")
            else:
                ops.append(f"read {key} {g}")
        elif r < 0.955 and withmap:
            # the caller goes on using its own attachment map; a live entry must keep what it was given at Entry time
            i = rng.choice(withmap)
            ops.append(f"attmut {i} {rng.choice(['k1', 'k2', 'k7'])} m{rng.randint(0, 9)}")
            ops.append(f"ctx {i} att")
            ops.append(f"attmap {i}")
        elif r < 0.97 and (live or done):
            i = rng.choice(live or done)
            ops.append(f"ctx {i} {rng.choice(['err', 'args', 'att', 'flag', 'batch'])}")
            if rng.random() < 0.3:
                ops.append(f"whenexit {i} {rng.choice(['ok', 'err'])}")
        else:
            ops.append("reclog")
    ops.extend(o for _, o in late)
    # closing: sometimes drain everything and look at the idle state
    # (always when a hotspot rule is loaded: a lock left behind by a recovered panic must be met by an op of this case)
    if hot or rng.random() < 0.6:
        for i in live:
            ops.append(f"exit {i}")
        for r in used + ["__inbound__"]:
            ops.append(f"read {r} conc")
        ops.append("reclog")
    return Case(cid, ops, tags=(f"res={nres}", "panicky" if panicky else "plain") + (("weird-clock",) if weird else ()))


def gen(ctx, n):
    return [gen_case(ctx.rng, f"g{ctx.seed}-{i}") for i in range(n)]


def corpus():
    import glob, os
    from vlib.core import ROOT
    res = []
    for p in sorted(glob.glob(os.path.join(ROOT, "corpus", PROP, "*.ops"))):
        ops = [l.rstrip("\n") for l in open(p) if l.strip() and not l.startswith("#") and not l.startswith("case ")]
        res.append(Case(os.path.basename(p), ops, tags=("corpus",)))
    return res


def densify(ops, rng):
    """reads of every kind on every key after random ops, ctx reads on every id seen: used by the failing-input search"""
    keys, ids = ["__inbound__"], []
    out = []
    for o in ops:
        out.append(o)
        t = o.split()
        if t[0] == "entry":
            if t[2] not in keys:
                keys.append(t[2])
            ids.append(t[1])
        if rng.random() < 0.5 and t[0] in ("entry", "exit", "racexit", "trace", "clock"):
            for k in keys:
                for g in rng.sample(["sum pass", "sum block", "sum complete", "sum error", "sum rt", "sum10 pass", "sum10 complete",
                                     "conc", "maxconc", "minrt"], 4):
                    out.append(f"read {k} {g}")
            for i in ids[-4:]:
                out.append(f"ctx {i} err")
                out.append(f"ctx {i} args")
            out.append("reclog")
    return out


def nontrivial(case, impl):
    npass = nblock = late = nz = compl = 0
    exited = set()
    kinds = []
    for l in impl:
        op, _, r = l.partition(" => ")
        t = op.split()
        if t[0] == "entry":
            npass += r == "pass"
            nblock += r == "block"
            k = 4
            while t[k].startswith(("type=", "flag=", "dup=", "argsplit=")):
                k += 1
            kinds.append("E" + t[3][0] + str(k - 4) + t[k][:1] + t[k + 1] + r[:1])
        elif t[0] in ("exit", "racexit"):
            if t[1] in exited:
                late += 1
            else:
                compl += 1
            exited.add(t[1])
            kinds.append(t[0][0].upper() + str(len(t)))
        elif t[0] in ("trace", "seterr"):
            late += t[1] in exited
            kinds.append("T")
        elif t[0] == "read":
            kinds.append("R" + t[2][:2])
            if r not in ("0", "nil", "1") or (t[2] != "minrt" and r == "1"):
                nz += 1
        elif t[0] == "clock":
            kinds.append("c")
        elif t[0] == "soak":
            kinds.append("S" + t[1])
    if npass and nblock and late and nz and compl:
        return hash((tuple(o for o in case.ops if o.startswith("rule")), tuple(kinds)))
    return None


EXTRA_MODULES = ("Sentinel.Props.C01Pool",)
GEN = "lean/Sentinel/Gen/PoolFacts.lean"


def pregen():
    """Delete and regenerate lean/Sentinel/Gen/PoolFacts.lean from $VERIF_REPO (DESIGN 6.C01 layer ii). Returns (ok, log).
    Fails closed: if the extractor cannot be built or run, a table with an `unknown` row is written, which `pool_discipline` rejects."""
    import os
    from vlib import core
    gen = os.path.join(core.ROOT, GEN)
    os.makedirs(os.path.dirname(gen), exist_ok=True)
    if os.path.exists(gen):
        os.remove(gen)
    os.makedirs(os.path.join(core.ROOT, ".build"), exist_ok=True)
    exe = os.path.join(core.ROOT, ".build", "poolfacts01")
    rc, so, se = core.sh(["go", "build", "-o", exe, "./internal/c01/poolfacts"], cwd=os.path.join(core.ROOT, "go"), env=core.goenv(), timeout=600)
    log = so + se
    if rc == 0:
        rc, so, se = core.sh([exe, "-repo", core.REPO, "-lean", gen + ".tmp"], cwd=core.ROOT, env=core.goenv(), timeout=120)
        log += so + se
        if rc == 0 and os.path.exists(gen + ".tmp"):
            os.replace(gen + ".tmp", gen)
            return True, log
    with open(gen, "w") as f:
        f.write("import Sentinel.Model.PoolFacts\n/-! GENERATED placeholder: the extractor failed -/\nnamespace Sentinel.Gen.PoolFacts\n"
                "open Sentinel.PoolFacts\ndef fields : List FieldRow := [⟨\"?\", \"?\", .ref, .unknown⟩]\n"
                "def assigns : List AssignRow := []\ndef guards : Guards := ⟨false, false, false, false, false⟩\nend Sentinel.Gen.PoolFacts\n")
    return False, log


def run(ctx):
    """Standard flow, preceded by the variant selection of DESIGN.md 2.6: if the known finding panic-pass-gauge no longer
    reproduces on the tree under test (its replay ends with concurrency 0 instead of -1), the drivers are switched to the
    repaired variant of the recover path (`fix = true`, the one `accounting_repaired` is about); the correspondence is then run
    against it and no KNOWN-FINDING line is printed."""
    import os
    import sys
    from vlib import core, std
    os.environ.pop("VERIF_C01_FIX", None)
    ok_gen, gen_log = pregen()
    if not ok_gen:
        ctx.log("poolfacts extractor failed (pool_discipline will not check):", gen_log[-300:])
    else:
        # which rows of the regenerated table break pool_discipline (empty on a disciplined tree)
        tmp = os.path.join(core.LEAN, ".lake", "c01_offenders.lean")
        ok_b, _ = core.lake_build(["Sentinel.Gen.PoolFacts"])
        if ok_b:
            with open(tmp, "w") as f:
                f.write("import Sentinel.Gen.PoolFacts\nopen Sentinel.PoolFacts Sentinel.Gen.PoolFacts\n"
                        "#eval IO.println (\"\\n\".intercalate (offenders fields assigns guards))\n")
            rc, so, se = core.sh(["lake", "env", "lean", tmp], cwd=core.LEAN, timeout=300)
            rows = [l for l in so.splitlines() if l.strip()]
            ctx.cov["pool_facts_offenders"] = rows
            for l in rows:
                ctx.log("pool discipline broken:", l)
            os.remove(tmp)
    binary, _ = core.build_harness()
    if binary is not None:
        p = os.path.join(core.ROOT, "replays", "known", "C01-panic-pass-gauge.ops")
        impl, _ = core.run_impl(binary, PROP, open(p).read())
        if impl and impl[-1].strip() == "read h conc => 0" and any(l.strip() == "read h sum pass => 1" for l in impl):
            os.environ["VERIF_C01_FIX"] = "1"
            ctx.log("known finding panic-pass-gauge does not reproduce on this tree: using the repaired model variant")
    return std.run(ctx, sys.modules[__name__])


META = {
    "technique": "Lean 4 proof (simulation invariant between the code-shaped entry lifecycle and the history ledger, on top of the "
                 "leap-array refinement) + differential correspondence model/impl through the public API",
    "level_text": ("Theorems in lean/Sentinel/Props/C01.lean, kernel-checked for every time-monotone op history over any resources, batch "
                   "counts, traffic types, argument lists and chain behaviour tables (incl. panicking prepare/rule slots): every observable "
                   "of the code-shaped model (window sums of pass/block/complete/error/rt, min RT, peak concurrency, the gauge, ctx.Err/Args of "
                   "live entries, recording-slot call logs, the Entry outcome) equals the pool-free ledger recomputed from the history; "
                   "corollaries: pass+block tokens = requested tokens, exactly one completion per passed entry at its first Exit with its own "
                   "error and rt, none for blocked entries, late/double Exit and TraceError on an exited id leave the whole state unchanged, "
                   "gauge = number of live passed entries >= 0 and 0 when idle; the account is independent of the interleaving of calls addressed to "
                   "different entries (schedule_independent). The driver executes the model WITH the context pool (any free object may be handed "
                   "out); pooled_refines_pool_free / pooled_refines_ledger show pooling is unobservable, and the regenerated table of how the code "
                   "resets / assigns / aliases pooled fields re-proves pool_discipline on every run. For the recovered-panic path the statement is false on the "
                   "code: witness theorem + partial theorem outside the classified region (known finding panic-pass-gauge). The model is tied "
                   "to the code by running the same op files through api.Entry/TraceError/Exit (virtual clock, pinned P, GC off so that pool "
                   "reuse is deterministic) and the compiled Lean driver and comparing every observation."),
    "level_note": ("Trusted: Lean kernel; axioms propext/Classical.choice/Quot.sound; Go harness (custom slots wrapping the real prepare/stat "
                   "slots, canonical printing, per-case epoch), virtual util.Clock; the poolfacts extractor (syntactic, fails closed). Modelled not "
                   "verified: sync.Pool's implementation (modelled as an arbitrary choice among free objects or a new one), gauge as unbounded Int "
                   "(int32 in the code), the verdict of the built-in rule slots is an input of the theorems (the driver instantiates it for "
                   "isolation and hotspot rules). Goroutine schedules: every interleaving of whole API calls is a history covered by the theorems "
                   "and the account is proved independent of it; interleavings inside concurrent calls are only tested (multi-goroutine soak, "
                   "final account compared) - data races are C15's, bucket recycling under concurrent writers C09's. Panics inside user stat "
                   "slots / exit handlers are outside the property's domain."),
    "design_ref": "DESIGN.md 6.C01",
}
