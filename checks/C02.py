"""C02 — a reject-mode QPS flow rule admits exactly up to the threshold per statistic window."""
import itertools
import struct

from vlib import core, std
from vlib.core import Case, cases_text, split_cases, split_res

PROP = "C02"
SPEC_MODE = "spec"
KEEP_PREFIX = 2                       # `clock`, `load`
SIZES = {"quick": 4500, "thorough": 120000}
BATCH = 1500
EXTRA_MODULES = ("Sentinel.Lemmas.FlowReject", "Sentinel.Lemmas.FlowRejectConc", "Sentinel.Lemmas.FlowRejectG",
                 "Sentinel.Lemmas.FlowRejectBurstG", "Sentinel.Lemmas.FlowRejectOracle")
KEY = "assoc-standalone-own-traffic"
RULE = ("per case: one flow.LoadRules of 1-5 Direct/Reject rules over resources 1..4 (thresholds incl. 0, fractional, subnormal, "
        "NaN, +Inf, negative=invalid; StatIntervalInMs so that default view, derived view, independent window (n buckets of 500, or "
        "one bucket) and rejected geometries all occur; 25% associated rules, a fixed ~12% slice inside the known-finding region), then "
        "30% of the cases add 1-2 throttling rules (power-of-two thresholds, MaxQueueingTimeMs 0..2000) before/between/after the reject rules; 60% of the cases reload the rule list 1-4 times mid-case (identical, one field of one rule changed: threshold incl. +-1 ulp / interval / relation+RefResource, rule added / removed / swapped); 20-90 ops: api.Entry (batch 0..T+1, big; in 5/8 of the cases a share 15-100% of the entries carries api.WithResourceType(web/rpc/…), typed and untyped mixed on one resource, also on the referenced resource of associated rules, always after the load), clock steps from {0,1,L-1,L,L+1,Iv-1,Iv,Iv+1,10 s,>array} and snaps onto bucket / "
        "window / array-cycle boundaries, `par` (2-4 goroutines parked between rule check and statistic slots under a random schedule), "
        "node sums. Non-trivial = the case has a pass, a flow block and a later pass of the same resource after time moved "
        "(the window rolled); distinct by (rule geometries+relations, op-kind/decision sequence).")

T0 = 1_900_000_000_000
RTYPES = ["web", "rpc", "gateway", "dbsql", "cache", "mq", "common"]


def type_tok(rng, tprob, pref, res, k=1):
    """optional `type=…` token (api.WithResourceType): '' = plain entry; per-resource preferred type most of the time"""
    if rng.random() >= tprob:
        return ""
    return " type=" + ",".join(pref.get(res, "web") if rng.random() < 0.8 else rng.choice(RTYPES) for _ in range(k))


def fb(x):
    return "f:%016x" % struct.unpack(">Q", struct.pack(">d", x))[0]


THR = [0.0, 0.5, 1.0, 1.0, 1.5, 2.0, 2.0, 3.0, 3.0, 5.0, 7.25, 10.0, 2.9999999999999996, 3.0000000000000004, 100.0, 1e6, 3e9, 2.0 ** 31]
THR_ODD = [fb(float("inf")), "f:7ff8000000000001", "f:fff8000000000000", fb(-1.0), fb(-0.0), "f:0000000000000001", fb(5e-324), fb(-1e-300),
           fb(float("-inf")), fb(2.0 ** 40), fb(0.1)]
IV_VIEW = [0, 0, 1000, 1000, 500, 2000, 2500, 5000, 10000]
IV_OWN_MULTI = [1500, 3000, 3500, 4000, 7500, 9500]            # n = I/500 buckets of 500
IV_OWN_ONE = [100, 1, 7, 499, 750, 1250, 10001, 20000, 60000]   # one bucket of length I
IV_ALL = IV_VIEW * 2 + IV_OWN_MULTI + IV_OWN_ONE


def geom(iv):
    """(kind, n, L, Iv) as generateStatFor decides with the default configuration"""
    if iv in (0, 1000):
        return ("view", 20, 500, 1000)
    if iv > 10000 or iv < 500:
        sc = 1
    elif iv % 500 == 0:
        sc = iv // 500
    else:
        sc = 1
    if 10000 % iv == 0 and (iv // sc) % 500 == 0:
        return ("view", 20, 500, iv)
    return ("own", sc, iv // sc, iv)


THROTTLE_T = [1024.0, 1024.0, 4096.0, 64.0, 8.0, 8.0, 2.0, 0.5, 0.0]      # powers of two: the float interval is exact
THROTTLE_Q = [0, 5, 500, 500, 2000]


def throttle_rule(rng, res):
    return [res, fb(rng.choice(THROTTLE_T)), rng.choice([0, 0, 1000, 500, 2000]), "-", "q%d" % rng.choice(THROTTLE_Q)]


def rule_tok(r):
    return ",".join(map(str, r))


def mutate_rules(rng, rules, nres):
    """a reload: identical / one field of one rule changed / rule added / removed / swapped"""
    rules = [list(r) for r in rules]
    k = rng.random()
    i = rng.randrange(len(rules))
    r = rules[i]
    what = "identical"
    if k < 0.12:
        pass
    elif k < 0.37:
        what = "threshold"
        if len(r) == 5:
            r[1] = fb(rng.choice(THROTTLE_T))
        else:
            tv = thr_val(r[1])
            opts = [fb(rng.choice(THR)), fb(tv + 1) if tv == tv and tv < 1e9 else fb(1.0), fb(max(0.0, tv - 1)) if tv == tv and tv < 1e9 else fb(2.0),
                    "f:%016x" % (int(r[1][2:], 16) + 1) if 0 < int(r[1][2:], 16) < 0x7fe0000000000000 else fb(3.0)]
            if tv == tv and 0 < tv < 1e15 and rng.random() < 0.5:
                # tiny changes around the tolerance of Float64Equals (absolute 1e-8; a relative tolerance would be 1e-8*T):
                # a change below the tolerance keeps the OLD rule in force, one above it installs the new threshold
                what = "threshold-tiny"
                d = rng.choice([0.5e-8, 0.99e-8, 1.01e-8, 2e-8, 0.5e-8 * tv, 0.99e-8 * tv, 1.01e-8 * tv, 0.3e-8 * tv, 20.0 if tv > 1e9 else 2e-8])
                nv = tv - d if rng.random() < 0.75 else tv + d
                opts = [fb(max(0.0, nv))]
            r[1] = rng.choice(opts)
    elif k < 0.57:
        what = "interval"
        r[2] = rng.choice(IV_ALL if len(r) == 4 else [0, 1000, 500, 2000])
    elif k < 0.77 and len(r) == 4:
        what = "relation"
        r[3] = rng.choice(["-"] + [str(x) for x in range(1, nres + 2)]) if r[3] == "-" or rng.random() < 0.3 else str(int(r[3]) % (nres + 1) + 1)
    elif k < 0.87:
        what = "add"
        rules.insert(rng.randrange(len(rules) + 1), throttle_rule(rng, r[0]) if rng.random() < 0.3 else [r[0], fb(rng.choice(THR)), rng.choice(IV_ALL), "-"])
    elif k < 0.94 and len(rules) > 1:
        what = "remove"
        del rules[i]
    else:
        what = "swap"
        j = rng.randrange(len(rules))
        rules[i], rules[j] = rules[j], rules[i]
    return rules, what


def invalid_tok(rng, res, nres):
    """a rule IsValidRule rejects: negative threshold, empty Resource, associated with empty RefResource, undefined RelationStrategy"""
    k = rng.randrange(5)
    thr, iv = fb(rng.choice([0.0, 1.0, 2.0])), rng.choice([0, 1000, 3000])
    if k == 4:
        return "nil"
    if k == 0:
        return f"{res},{fb(rng.choice([-1.0, -0.5, -1e-300]))},{iv},-"
    if k == 1:
        return f"_,{thr},{iv},-"
    if k == 2:
        return f"{res},{thr},{iv},_"
    return f"{res},{thr},{iv},?"


def with_invalid(rng, toks, res, nres, p=0.25):
    toks = list(toks)
    while rng.random() < p:
        toks.insert(rng.randrange(len(toks) + 1), invalid_tok(rng, res, nres))
    return toks


def gen_rules(rng, force_region):
    nres = rng.choice([1, 2, 2, 3, 4])
    rules = []
    nr = rng.choice([1, 1, 2, 2, 3, 4, 5])
    for i in range(nr):
        res = rng.randint(1, nres)
        thr = fb(rng.choice(THR)) if rng.random() < 0.85 else rng.choice(THR_ODD)
        iv = rng.choice(IV_ALL)
        ref = "-"
        r = rng.random()
        if r < 0.25:
            ref = str(rng.randint(1, nres + 1))
            if rng.random() < 0.75 and geom(iv)[0] == "own":
                iv = rng.choice(IV_VIEW)           # keep most associated rules outside the known-finding region
        rules.append([res, thr, iv, ref])
    if force_region:
        res = rng.randint(1, nres)
        other = res % max(nres, 2) + 1
        rules[rng.randrange(len(rules))] = [res, fb(rng.choice([1.0, 2.0, 3.0])), rng.choice(IV_OWN_MULTI + IV_OWN_ONE), str(other)]
        nres = max(nres, other)
    return rules, nres


def thr_val(t):
    v = struct.unpack(">d", struct.pack(">Q", int(t[2:], 16)))[0]
    return v


def gen_case(rng, cid, force_region=None):
    if force_region is None:
        force_region = rng.random() < 0.12
    rules, nres = gen_rules(rng, force_region)
    # throttling rules (30% of the cases): before / between / after the reject rules of a resource
    if rng.random() < 0.30:
        for _ in range(rng.choice([1, 1, 2])):
            rules.insert(rng.randrange(len(rules) + 1), throttle_rule(rng, rng.choice(rules)[0]))
    reload_p = rng.choice([0, 0, 0.03, 0.06, 0.12])      # 60% of the cases reload their rules (1..4 times)
    nreloads = 0
    ncustom = 0
    base = T0 + rng.choice([0, 1, 499, 500, 9999, 10000, rng.randint(0, 10 ** 9), rng.randint(0, 10 ** 5) * 500, rng.randint(0, 10 ** 4) * 10000 - 1])
    now = base
    first_toks = with_invalid(rng, [rule_tok(r) for r in rules], rules[0][0], nres, p=0.08)
    ops = [f"clock {now}", "load %d %s" % (len(first_toks), " ".join(first_toks))]
    geoms = [geom(r[2]) for r in rules if len(r) == 4] or [geom(0)]
    kinds = []
    resources = list(range(1, nres + 1))
    focus = rules[rng.randrange(len(rules))]
    # resource types: 35% of the cases never pass WithResourceType, the others mix typed and untyped entries
    # (typed with probability tprob, always after the rules were loaded: `load` is the second op)
    tprob = rng.choice([0, 0, 0, 0.15, 0.5, 0.5, 0.9, 1.0])
    pref = {r: rng.choice(RTYPES[:3]) for r in range(1, nres + 2)}
    nops = rng.randint(20, 90)
    for _ in range(nops):
        x = rng.random()
        _, n, L, Iv = rng.choice(geoms)
        if nreloads < 4 and rng.random() < reload_p:
            prev_rules = rules
            rules, what = mutate_rules(rng, rules, nres)
            nreloads += 1
            # rules of the harness' custom generator (15% of the reloads): it issues a request from inside the rebuild, fails, or panics
            customs = []
            if rng.random() < 0.15:
                cres = rng.choice(rules)[0]
                for _ in range(rng.choice([1, 1, 2])):
                    ncustom += 1
                    mode = rng.choice(["e%d.%s" % (cres, rng.choice(["-", "-", 1, 2, 0])), "e%d.-" % cres, "fail", "panic"])
                    customs.append((cres, "%d,%s,0,-,x%s" % (cres, fb(1000.0 + ncustom), mode)))

            def add_customs(toks, only_res=None):
                toks = list(toks)
                for cres, tok in customs:
                    if only_res is not None and cres != only_res:
                        continue
                    pos = [i + 1 for i, t in enumerate(toks) if t.split(",")[0] == str(cres)]
                    toks.insert(rng.choice(pos + [len(toks)] * 2) if pos else len(toks), tok)
                return toks
            aborted = False
            if rng.random() < 0.04:
                ops.append("loadres _ %d %s" % (len(rules), " ".join(rule_tok(r) for r in rules)))     # empty resource name: error, no effect
            if rng.random() < 0.45:
                # flow.LoadRulesOfResource: the (mutated) rules of one resource, sometimes with invalid rules / rules of another
                # resource mixed in, sometimes an empty list (clear)
                tr = rng.choice(rules)[0]
                mine = [r for r in rules if r[0] == tr]
                if rng.random() < 0.12 and len(rules) > len(mine):
                    toks, what = [], "loadres-clear"
                    rules = [r for r in rules if r[0] != tr]
                else:
                    toks = add_customs(with_invalid(rng, [rule_tok(r) for r in mine], tr, nres, p=0.35), only_res=tr)
                    aborted = any("xpanic" in t for t in toks)
                    if rng.random() < 0.2:
                        other = [r for r in rules if r[0] != tr]
                        toks.insert(rng.randrange(len(toks) + 1), rule_tok(rng.choice(other)) if other else f"{tr % (nres + 1) + 1},{fb(1.0)},0,-")
                    what = "loadres:" + what
                    rules = [r for r in rules if r[0] != tr] + mine
                    if aborted:
                        rules, what = prev_rules, "loadres-aborted"
                ops.append("loadres %d %d %s" % (tr, len(toks), " ".join(toks)))
            else:
                toks = add_customs(with_invalid(rng, [rule_tok(r) for r in rules], rules[0][0], nres, p=0.15))
                ops.append("load %d %s" % (len(toks), " ".join(toks)))
                if any("xpanic" in t for t in toks):
                    rules, what = prev_rules, "load-aborted"
            if customs:
                kinds.append("custom-generator")
            kinds.append(what)
            geoms = [geom(r[2]) for r in rules if len(r) == 4] or [geom(0)]
            if all(r is not focus for r in rules):
                focus = rules[rng.randrange(len(rules))]
            continue
        if x < 0.22:
            d = rng.choice([0, 1, 1, 2, L - 1, L, L + 1, Iv - 1, Iv, Iv + 1, max(0, Iv - L), 10000, 10001, n * L, 2 * n * L + 3, rng.randint(0, 2 * L), rng.randint(0, 1200)])
            if rng.random() < 0.25:   # snap to a bucket / window / cycle boundary (or 1 ms before it)
                m = rng.choice([L, Iv, n * L, 500, 10000])
                d = (m - now % m) % m + rng.choice([0, 0, m]) - rng.choice([0, 0, 1])
            now += max(0, d)
            ops.append(f"clock {now}")
        elif x < 0.80:
            res = focus[0] if rng.random() < 0.6 else rng.choice(resources + [int(focus[3])] if focus[3] != "-" else resources)
            tv = thr_val(focus[1])
            tb = int(tv) if 0 <= tv < 4.2e9 else 3
            b = rng.choice([1, 1, 1, 1, 1, 2, 2, 3, 0, tb, tb + 1, max(0, tb - 1), rng.randint(0, 6), 1000])
            if tb > 10 ** 6:        # huge thresholds are only reached with batches near the limit
                b = rng.choice([tb, tb - 1, tb - 10, tb - 25, tb // 2, 1, 5, 10, 15])
            if b == 1 and rng.random() < 0.5:
                b = "-"                   # plain api.Entry(res): no WithBatchCount, the default batch of 1
            ops.append(f"entry {res} {b}" + type_tok(rng, tprob, pref, res))
        elif x < 0.90:
            res = focus[0] if rng.random() < 0.7 else rng.choice(resources)
            k = rng.choice([2, 2, 2, 3, 3, 4])
            bs = [rng.choice([1, 1, "-", "-", 2, 3, 0]) for _ in range(k)]
            sched = [i for i in range(k) for _ in (0, 1)]
            if rng.random() < 0.4:
                sched = list(range(k)) + rng.sample(range(k), k)     # all checks, then all records
            else:
                rng.shuffle(sched)
            ops.append("par %d %s %s" % (res, ",".join(map(str, bs)), ",".join(map(str, sched))) + type_tok(rng, tprob, pref, res, k))
        else:
            ops.append(f"sum {rng.choice(resources + [nres + 1])}")
    first = [x.split(",") for x in ops[1].split()[2:]]
    first = [r for r in first if len(r) >= 4 and r[0] != "_" and r[3] not in ("_", "?")]
    tags = tuple("throttle" if len(r) == 5 else "%s%s" % (geom(int(r[2]))[0], "/assoc" if r[3] != "-" else "") for r in first)
    return Case(cid, ops, tags=tags + tuple("reload:" + k for k in kinds))


def typed_stats(cases, dist):
    """measure how the resource-type dimension is exercised (typed = carries api.WithResourceType(non-common))"""
    for c in cases:
        rules = [x.split(",") for x in c.ops[1].split()[2:]]
        rules = [r for r in rules if len(r) >= 4]
        refs = {r[3] for r in rules if r[3] not in ("-", "_", "?")}
        typed, untyped = set(), set()
        for o in c.ops[2:]:
            t = o.split()
            if t[0] not in ("entry", "par"):
                continue
            tok = t[-1] if t[-1].startswith("type=") else ""
            names = tok[5:].split(",") if tok else []
            if any(n != "common" for n in names):
                typed.add(t[1])
            if not tok or "common" in names:
                untyped.add(t[1])
        if typed:
            dist["cases-with-typed-entries"] = dist.get("cases-with-typed-entries", 0) + 1
        if typed & untyped:
            dist["cases-mixing-typed-and-untyped-on-one-resource"] = dist.get("cases-mixing-typed-and-untyped-on-one-resource", 0) + 1
        if typed & refs:
            dist["cases-with-typed-entries-on-a-referenced-resource"] = dist.get("cases-with-typed-entries-on-a-referenced-resource", 0) + 1


def gen(ctx, n):
    base = ctx.cov.get("traces_validated_against_impl", 0)
    cases = [gen_case(ctx.rng, f"g{ctx.seed}-{base + i}") for i in range(n)]
    dist = ctx.cov.setdefault("rule_geometries", {})
    for c in cases:
        for t in c.tags:
            dist[t] = dist.get(t, 0) + 1
        rules = [x.split(",") for x in c.ops[1].split()[2:]]
        rules = [r for r in rules if len(r) >= 4 and r[0] != "_" and r[3] not in ("_", "?")]
        if any("entry" == o.split()[0] and o.split()[2] == "-" for o in c.ops):
            dist["cases-with-plain-entries-(no-batch-option)"] = dist.get("cases-with-plain-entries-(no-batch-option)", 0) + 1
        if any(o.startswith("loadres ") for o in c.ops):
            dist["cases-with-loadres"] = dist.get("cases-with-loadres", 0) + 1
        if any(len(a) == 5 and len(b) == 4 and a[0] == b[0] for i, a in enumerate(rules) for b in rules[i + 1:]):
            dist["cases-with-throttle-before-reject-on-one-resource"] = dist.get("cases-with-throttle-before-reject-on-one-resource", 0) + 1
        if any(t.startswith("reload:") for t in c.tags):
            dist["cases-with-reload"] = dist.get("cases-with-reload", 0) + 1
        if any(len(r) == 4 and r[3] != "-" and r[3] != r[0] and geom(int(r[2]))[0] == "own" for r in rules):
            dist["cases-inside-known-finding-region"] = dist.get("cases-inside-known-finding-region", 0) + 1
        if len(rules) > 1:
            dist["cases-with-several-rules"] = dist.get("cases-with-several-rules", 0) + 1
    typed_stats(cases, dist)
    return cases


def corpus():
    import glob, os
    from vlib.core import ROOT
    res = []
    for p in sorted(glob.glob(os.path.join(ROOT, "corpus", PROP, "*.ops"))):
        ops = [l.rstrip("\n") for l in open(p) if l.strip() and not l.startswith("#") and not l.startswith("case ")]
        res.append(Case(os.path.basename(p), ops, tags=("corpus",)))
    return res


def densify(ops, rng):
    """probe every resource after random ops (entries of batch 0/1 and node sums) and nudge the clock to boundaries"""
    out = []
    now = 0
    for o in ops:
        out.append(o)
        t = o.split()
        if t[0] == "clock":
            now = int(t[1])
        if t[0] in ("entry", "par", "clock") and rng.random() < 0.5:
            res = rng.randint(1, 4)
            for g in rng.sample(["sum", "e0", "e1", "tick"], 2):
                if g == "sum":
                    out.append(f"sum {res}")
                elif g == "e0":
                    out.append(f"entry {res} 0" + rng.choice(["", "", " type=web", " type=rpc"]))
                elif g == "e1":
                    out.append(f"entry {res} 1" + rng.choice(["", "", " type=web", " type=rpc"]))
                elif now:
                    m = rng.choice([500, 1000, 1500, 3000, 10000])
                    now += (m - now % m) % m
                    out.append(f"clock {now}")
    return out


def nontrivial(case, impl):
    state = {}     # res -> stage: 1 = passed, 2 = then blocked, 3 = later passed again at a later time
    now = 0
    kinds = []
    for l in impl:
        op, r = split_res(l)
        t = op.split()
        if r and " +" in r:
            r = r.split(" +")[0]
        if t[0] == "load" and kinds:
            kinds.append("L")
        if t[0] == "clock":
            now = int(t[1])
            kinds.append("c")
        elif t[0] == "entry" and r:
            res = t[1]
            st, at = state.get(res, (0, 0))
            if r == "pass":
                if st == 0:
                    state[res] = (1, now)
                elif st == 2 and now > at:
                    state[res] = (3, now)
                kinds.append("p")
            elif r.startswith("block flow"):
                if st == 1:
                    state[res] = (2, now)
                kinds.append("b" + r.split()[-1])
        elif t[0] == "par":
            kinds.append("P" + (r or "").replace("block flow ", "b").replace("pass", "p"))
    if any(st == 3 for st, _ in state.values()):
        return hash((case.tags, case.ops[1].split()[2:] and tuple(x.split(",", 1)[-1] for x in case.ops[1].split()[2:]), "".join(kinds)))
    return None


# ----------------------------------------------------------------------------------------------------------
# extra phase: schedule enumeration (all 2-thread interleavings, all / sampled 3-thread ones) + window-cap oracle
# ----------------------------------------------------------------------------------------------------------

def all_schedules(k):
    base = [i for i in range(k) for _ in (0, 1)]
    return sorted(set(itertools.permutations(base)))


def sched_cases(ctx):
    rng = ctx.rng
    cases = []
    setups = []
    ivs = [0, 2000, 3000, 750, 20000]
    for iv in ivs:
        for T in ([1.0, 2.0, 3.5] if ctx.tier == "quick" else [0.0, 1.0, 2.0, 3.0, 3.5, 5.0]):
            setups.append((iv, T))
    s2 = all_schedules(2)
    s3 = all_schedules(3)
    for (iv, T) in setups:
        for k, scheds in ((2, s2), (3, s3)):
            chosen = scheds if (k == 2 or ctx.tier == "thorough") else rng.sample(scheds, 12)
            for sc in chosen:
                pre = max(0, int(T) - rng.choice([0, 1, 1, 2]))
                bs = [rng.choice([1, 1, 2]) for _ in range(k)]
                now = T0 + rng.randint(0, 10 ** 6) * 500 + rng.choice([0, 250, 499])
                ops = [f"clock {now}", f"load 1 1,{fb(T)},{iv},-"]
                ty = rng.choice(["", "", " type=web", " type=rpc"])
                ops += ["entry 1 1" + rng.choice(["", ty])] * pre
                ops.append("par 1 %s %s" % (",".join(map(str, bs)), ",".join(map(str, sc))) + (ty and " type=" + ",".join([ty[6:]] * k)))
                ops += ["sum 1", "entry 1 1" + ty, f"clock {now + geom(iv)[3] + 500}", "entry 1 1", "sum 1"]
                cases.append(Case(f"s{len(cases)}", ops, tags=(f"k={k}", f"iv={iv}", f"T={T}")))
    return cases


def oracle_pass(ctx, eng, cases, label):
    text = cases_text(cases)
    impl, err = core.run_impl(eng.binary, PROP, text)
    if impl is None:
        ctx.violation(f"{label}-oracle-harness-error.txt", str(err), no_input=True)
        return
    judge, err = core.run_lean(PROP, "oracle", "\n".join(impl) + "\n")
    if judge is None:
        ctx.violation(f"{label}-oracle-driver-error.txt", str(err), no_input=True)
        return
    ci, cj = split_cases(impl), split_cases(judge)
    over = 0
    checked = 0
    for case, im, ju in zip(cases, ci, cj):
        for i, l in enumerate(ju):
            _, r = split_res(l)
            if r == "ok":
                checked += 1
            if r is not None and r.startswith("bad") and not r.startswith("bad-op"):
                over += 1
                if over <= 2:
                    body = ["# window cap exceeded on the implementation: " + r, "case replay"] + case.ops + ["# --- implementation trace"] + ["# " + x for x in im]
                    ctx.violation(f"{label}-{case.cid}-cap.replay", "\n".join(body) + "\n")
    oc = ctx.cov.setdefault("window_cap_oracle", {"decisions_judged": 0, "violations": 0})
    oc["decisions_judged"] += checked
    oc["violations"] += over


def extra(ctx, eng):
    cases = sched_cases(ctx)
    eng.check(cases, "sched")
    ctx.cov["schedule_cases"] = {"total": len(cases), "two_thread_schedules_all": len(all_schedules(2)),
                                 "three_thread_schedules": len(all_schedules(3)), "three_thread_exhaustive": ctx.tier == "thorough"}
    if ctx.has_input():
        return
    oracle_pass(ctx, eng, cases, "sched")
    oracle_pass(ctx, eng, gen(ctx, 300 if ctx.tier == "quick" else 3000), "generated")


def run(ctx):
    import sys
    return std.run(ctx, sys.modules[__name__], extra=extra)


META = {
    "technique": "Lean 4 proof (leap-array refinement + induction over arrival histories; small-step invariant for k concurrent callers) "
                 "+ differential correspondence model/impl through flow.LoadRules and api.Entry, schedule replay at the check/record yield point",
    "level_text": ("Theorems in lean/Sentinel/Props/C02.lean, kernel-checked for every rule list, every load time and every monotone arrival history: "
                   "the code-shaped model (generateStatFor geometry choice, node / independent leap arrays, Slot.Check in rule order, stat slots after the "
                   "checks) decides exactly like the array-free reference `refCheck` over the history of admitted arrivals (admit_iff), hence window caps, no "
                   "spurious block, blocked requests consume nothing; small-step theorem: with at most k callers between check and record the window sum "
                   "never exceeds T+(k-1)*maxBatch for any number of threads and any schedule. The model is tied to the code by running the same op files "
                   "through flow.LoadRules/api.Entry (virtual clock, goroutines parked at chain.between-check-and-stat) and the compiled Lean driver."),
    "level_note": ("Scope of the proofs: runG_eq_ref covers every op history of clock/load/entry (reject + throttling rules, sleeps, reloads) of the executed stepOp against the array-free reference, admit_iff_executed_full_partial and window_cap_after_reload_partial follow from it; the `par` small step is proved for reject-only states (sched_eq_ref, par_overshoot); executed_eq_core ties the general driver definitions to the reject-only core theorems. Trusted: Lean kernel; axioms propext/Classical.choice/Quot.sound; Go harness, virtual util.Clock, yield hook. Modelled not verified: "
                   "float64 threshold read as exact dyadic (exact while counts stay below 2^53), Direct+Reject and Direct+Throttling rules (throttling interval as exact rational ceiling; generator keeps power-of-two thresholds "
                   "where the float64 expression is exact), default statistic configuration (20x500 ms node array, 1000 ms default view), other slots "
                   "(system/isolation/hotspot/breaker) have no rules. Known finding assoc-standalone-own-traffic: faithful model + witness + partial."),
    "design_ref": "DESIGN.md 6.C02",
}
