"""C19 — framework adapters honour the entry contract on every path (translator-backed).

Flow of one run (custom `run(ctx)`; the standard op-file engine is only used by `replay`):

1. `pregen()`: delete and regenerate `lean/Sentinel/Gen/Adapters.lean` (+ its text twin `adapters.ir`) from the
   syntax trees of `$VERIF_REPO/pkg/adapters/**` with `go/cmd/extract19` (fails closed: an extractor failure
   writes a table whose only row is `.unknown`).
2. Lean stage: `lake build Sentinel.Props.C19 sentinel-driver`, axiom audit.  `all_rows_ok` is re-proved by the
   kernel against the regenerated table.
3. Table evaluation with the compiled driver (same `conforms`): every (entry point, scenario) pair is judged;
   a non-conforming pair that is not a recorded finding (same key *and* body) is a VIOLATION whose replay names
   the pair and the IR term.  `corr C19` (fresh extraction) is compared with the driver's view of the table.
4. Dynamic validation of the IR semantics: one synthesized Go module per adapter (`go/c19/<adapter>` + the
   adapter's own sources + `go/c19/probe`) drives the real middleware in-process through blocked/admitted ×
   ok/err/panic, observes the events through the statistic node and prints `trace` lines; they must equal the
   trace `runProg` predicts for the extracted term, and are themselves judged with `conformsTrace`.
"""
import concurrent.futures
import glob
import json
import os
import re
import shutil
import subprocess
import sys

from vlib import core
from vlib.core import Case

PROP = "C19"
SPEC_MODE = "oracle"
KEEP_PREFIX = 0
SIZES = {"quick": 1, "thorough": 5}      # passes of the dynamic harnesses (each pass = a different run order)
RULE = ("exhaustive: every function body under pkg/adapters/** that calls sentinel.Entry (one program per distinct path through "
        "its option tests) x the six scenarios {blocked, admitted} x {handler ok, err, panic}, judged by the kernel (theorem) and by "
        "the compiled driver; dynamic part: every driven entry point x scenario x {default rejection, custom fallback} plus the admitted scenarios "
        "with a clock stepping backwards inside the handler (and harness-specific variants: iris forced rules, micro single options), run order "
        "shuffled from the seed; non-trivial = the pair exercises the contract (all do); distinct by (entry point key, scenario, "
        "fallback variant)")

GEN_DIR = os.path.join(core.LEAN, "Sentinel", "Gen")
GEN_LEAN = os.path.join(GEN_DIR, "Adapters.lean")
GEN_IR = os.path.join(GEN_DIR, "adapters.ir")
DYN_SRC = os.path.join(core.GO, "c19")
DYN_BUILD = os.path.join(core.BUILD, "c19")
SCENARIOS = [(b, h) for b in ("blocked", "admitted") for h in ("ok", "err", "panic")]

# adapters with a dynamic harness (directory under go/c19 == directory under pkg/adapters)
DYN = sorted(d for d in os.listdir(DYN_SRC) if os.path.exists(os.path.join(DYN_SRC, d, "main.go"))) if os.path.isdir(DYN_SRC) else []

FAIL_CLOSED_LEAN = """import Sentinel.Model.AdapterIR
/-! GENERATED (fail closed): the extractor did not run: {why} -/
namespace Sentinel.Gen
open Sentinel.AdapterIR
def prog0 : Prog := ⟨"extractor-failed", [.unknown]⟩
def adapters : List Prog := [prog0]
end Sentinel.Gen
"""


def pregen():
    """Delete and regenerate the generated table from $VERIF_REPO. Returns (ok, log). Never leaves the file missing."""
    os.makedirs(GEN_DIR, exist_ok=True)
    for p in (GEN_LEAN, GEN_IR):
        if os.path.exists(p):
            os.remove(p)
    binary, log = core.build_harness("extract19")
    ok = False
    if binary is not None:
        rc, so, se = core.sh([binary, core.REPO, GEN_LEAN, GEN_IR], env=core.goenv(), timeout=300)
        log = so + se
        ok = rc == 0 and os.path.exists(GEN_LEAN) and os.path.exists(GEN_IR)
    if not ok:
        with open(GEN_LEAN, "w") as f:
            f.write(FAIL_CLOSED_LEAN.format(why=log.strip().replace("-/", "- /")[-500:]))
        with open(GEN_IR, "w") as f:
            f.write("extractor-failed unknown\n")
    return ok, log


def read_table():
    rows, notes = [], []
    for l in open(GEN_IR):
        l = l.rstrip("\n")
        if l.startswith("#"):
            notes.append(l)
        elif l.strip():
            k, _, ir = l.partition(" ")
            rows.append((k, ir))
    return rows, notes


def norm_trace(t):
    """a second nil dereference during unwinding replaces the first panic: the caller sees one"""
    return re.sub(r"nilDeref(,nilDeref)+", "nilDeref", t)


# ----------------------------------------------------------------------------------------------
# dynamic harnesses
# ----------------------------------------------------------------------------------------------

def build_dyn(adapter):
    """Synthesize and build the harness module of one adapter: go/c19/<adapter>/main.go + go/c19/probe +
    the adapter's own non-test sources (copied from $VERIF_REPO, compiled as package c19h/adapter) against
    $VERIF_REPO's core.  (The adapter modules pin sentinel-golang v1.0.x and old `go` directives; building them as
    modules against the current tree needs module files that are not in the offline cache, compiling their sources
    inside a go 1.22 module does not.)  Returns (binary or None, log)."""
    src = os.path.join(DYN_SRC, adapter)
    bd = os.path.join(DYN_BUILD, adapter)
    shutil.rmtree(bd, ignore_errors=True)
    os.makedirs(os.path.join(bd, "probe"))
    os.makedirs(os.path.join(bd, "adapter"))
    ad = os.path.join(core.REPO, "pkg", "adapters", adapter)
    # go.mod = the adapter's own requirement list (complete, so it resolves offline), as module c19h at go 1.22,
    # with sentinel-golang replaced by the tree under test
    mod = []
    for l in open(os.path.join(ad, "go.mod")).read().splitlines():
        if l.startswith("module "):
            l = "module c19h"
        elif re.match(r"go \d", l):
            l = "go 1.22"
        elif l.startswith("toolchain ") or (l.startswith("replace ") and "sentinel-golang" in l):
            continue
        mod.append(l)
    mod.append("replace github.com/alibaba/sentinel-golang => " + core.REPO)
    with open(os.path.join(bd, "go.mod"), "w") as f:
        f.write("\n".join(mod) + "\n")
    shutil.copy(os.path.join(src, "main.go"), bd)
    shutil.copy(os.path.join(DYN_SRC, "probe", "probe.go"), os.path.join(bd, "probe"))
    for f in sorted(glob.glob(os.path.join(ad, "*.go"))):
        if not f.endswith("_test.go") and "_example" not in os.path.basename(f):
            shutil.copy(f, os.path.join(bd, "adapter"))
    sums = set()
    for p in (os.path.join(core.REPO, "go.sum"), os.path.join(ad, "go.sum"), os.path.join(src, "go.sum")):
        if os.path.exists(p):
            sums.update(l for l in open(p).read().splitlines() if l.strip())
    with open(os.path.join(bd, "go.sum"), "w") as f:
        f.write("\n".join(sorted(sums)) + "\n")
    out = os.path.join(bd, "harness")
    rc, so, se = core.sh(["go", "build", "-o", out, "."], cwd=bd, env=core.goenv(), timeout=1800)
    if rc != 0:
        return None, so + se
    return out, so + se


def run_dyn(binary, seed):
    p = subprocess.run([binary, str(seed)], capture_output=True, text=True, timeout=300, env=core.goenv())
    lines = [l for l in p.stdout.splitlines() if l.startswith("trace ")]
    return p.returncode, lines, p.stderr[-4000:]


def split_skipped(ls):
    """`=> skipped`: a backstep case for which the harness obtained no two agreeing valid observations (machine load):
    no claim is made for it."""
    keep = [l for l in ls if not l.endswith(" => skipped")]
    return keep, len(ls) - len(keep)


def driver(mode, text):
    lines, err = core.run_lean(PROP, mode, text)
    if lines is None:
        raise RuntimeError(err)
    return lines


# ----------------------------------------------------------------------------------------------
# translator self-test on the fixtures (corpus/C19/fixtures)
# ----------------------------------------------------------------------------------------------

FIXTURES = os.path.join(core.ROOT, "corpus", PROP, "fixtures")


def translator_selftest(ctx):
    """The extractor must translate the fixture bodies exactly as recorded (expected.ir), every `Good*` fixture must
    conform in all scenarios and every `Bad*` fixture must fail at least one (judged by the compiled driver)."""
    binary, log = core.build_harness("extract19")
    if binary is None:
        return "extract19 does not build: " + log[-500:]
    out = os.path.join(core.BUILD, "c19-fixtures")
    os.makedirs(out, exist_ok=True)
    rc, so, se = core.sh([binary, FIXTURES, os.path.join(out, "F.lean"), os.path.join(out, "f.ir")], env=core.goenv(), timeout=120)
    if rc != 0:
        return "extract19 failed on the fixtures: " + (so + se)[-500:]
    got = [l.rstrip("\n") for l in open(os.path.join(out, "f.ir")) if not l.startswith("#") and l.strip()]
    want = [l.rstrip("\n") for l in open(os.path.join(FIXTURES, "expected.ir")) if l.strip()]
    if got != want:
        diff = [f"want {w!r} got {g!r}" for w, g in zip(want + [None] * len(got), got + [None] * len(want)) if w != g][:5]
        return "translator output on the fixtures changed: " + "; ".join(diff)
    rows = [l.partition(" ")[::2] for l in got]
    ops = [f"conf {k} {b} {h} => {ir}" for k, ir in rows for b, h in SCENARIOS]
    judged = driver("oracle", "case fixtures\n" + "\n".join(ops) + "\n")[1:]
    verdict = {}
    for i, (k, _) in enumerate(rows):
        fn = k.split(":")[1].split(".")[0 if not k.split(":")[1].startswith("wrapper") else 1]
        oks = [core.split_res(l)[1] == "ok" for l in judged[6 * i:6 * i + 6]]
        verdict.setdefault(fn, []).append(all(oks))
    wrong = [fn for fn, v in verdict.items() if (fn.startswith("Bad") and all(v)) or (not fn.startswith("Bad") and not all(v))]
    ctx.cov["translator_fixtures"] = {"functions": len(verdict), "programs": len(rows), "pairs_judged": len(ops)}
    if wrong:
        return "fixture verdicts wrong for: " + ", ".join(wrong)
    return None


# ----------------------------------------------------------------------------------------------
# the check
# ----------------------------------------------------------------------------------------------

def run(ctx):
    cov = ctx.cov
    gen_ok, gen_log = pregen()
    ctx.log("pregen:", "ok" if gen_ok else "FAILED", gen_log.strip().splitlines()[-1:] if gen_log.strip() else "")
    ok, problem = core.lean_stage(ctx)
    thms = cov.get("theorems", [])
    ctx.log("lean stage:", "ok" if ok else "BROKEN", f"({cov.get('discharged')}/{cov.get('obligations')} theorems)")
    cov["checker_cmd"] = ("go run ./cmd/extract19 $VERIF_REPO lean/Sentinel/Gen/Adapters.lean lean/Sentinel/Gen/adapters.ir && " + cov.get("checker_cmd", ""))
    cov["trusted_base"] = [
        "Lean 4.33 kernel (lake build elaborates and kernel-checks every theorem; the table theorem is re-checked against the regenerated table)",
        "axioms allowed: propext, Classical.choice, Quot.sound (audited per theorem with collectAxioms)",
        "the translator go/cmd/extract19 (go/parser + go/ast, ~600 lines): Go function body -> IR term; fails closed (`.unknown`) on what it cannot classify",
        "the IR semantics' reading of Go defer/panic and of api.Entry / Exit / TraceError (validated dynamically on the driven adapters)",
        "Lean compiler/runtime for the executable driver (same definitions the theorems are about)",
        "go/c19 harnesses: event observation through the statistic node (pass/block/complete/error counts, concurrency gauge)",
    ]
    if not os.path.exists(core.DRIVER):
        ctx.violation("lean-build.txt", "the Lean driver does not build:\n" + problem, no_input=True)
        return finish(ctx)

    st = translator_selftest(ctx)
    if st is not None:
        ctx.violation("translator-selftest.txt", "the translator no longer handles its fixtures (corpus/C19/fixtures) as recorded, so what it says about "
                      "pkg/adapters cannot be relied on:\n" + st + "\n", no_input=True)
    rows, notes = read_table()
    known = {e["key"]: e for e in core.load_known(PROP) if e.get("kind") == "known"}

    # --- 3. every (entry point, scenario) pair, judged by the compiled `conforms` ----------------------------------
    ops = [f"conf {k} {b} {h} => {ir}" for k, ir in rows for b, h in SCENARIOS]
    try:
        judged = driver("oracle", "case table\n" + "\n".join(ops) + "\n")[1:]
    except RuntimeError as e:
        ctx.violation("driver-error.txt", str(e), no_input=True)
        return finish(ctx)
    bad, known_hit, npairs_ok = {}, {}, 0
    for (k, ir), chunk in zip(rows, [judged[i:i + 6] for i in range(0, len(judged), 6)]):
        for (b, h), line in zip(SCENARIOS, chunk):
            _, r = core.split_res(line)
            if r == "ok":
                npairs_ok += 1
            elif r and r.startswith("known:"):
                known_hit.setdefault(k, []).append((b, h))
            else:
                bad.setdefault(k, []).append((b, h, r))
    ir_of = dict(rows)
    for k, fails in list(bad.items())[:12]:
        body = [f"# entry point {k} does not honour the entry contract",
                f"# IR term extracted from {core.REPO}/pkg/adapters: {ir_of[k]}",
                "# replay: bin/check C19 replay <this file>", "case replay"]
        body += [f"conf {k} {b} {h}" for b, h, _ in fails]
        body.append("# --- failing (adapter, scenario) pairs and the predicted event trace")
        body += [f"# {k} x ({b}, {h}): {r}" for b, h, r in fails]
        body += [n for n in notes if k in n]
        ctx.violation("table-" + re.sub(r"[^A-Za-z0-9]+", "_", k) + ".replay", "\n".join(body) + "\n")
    for k in sorted(known_hit):
        if k in known:
            ctx.known(f"{k}: {known[k]['what']}")
        else:
            ctx.violation("unlisted-" + re.sub(r"[^A-Za-z0-9]+", "_", k) + ".replay",
                          f"# {k} is a recorded finding in Lean (AdapterIRKnown) but is not listed in known/C19.jsonl\ncase replay\n" +
                          "\n".join(f"conf {k} {b} {h}" for b, h in known_hit[k]) + "\n")
    cov["known_findings_replayed"] = sorted(k for k in known_hit if k in known)
    cov["programs"] = len(rows)
    cov["table_pairs"] = len(ops)
    cov["pairs_conforming"] = npairs_ok
    cov["pairs_recorded_nonconforming"] = sum(len(v) for v in known_hit.values())
    cov["pairs_violating"] = sum(len(v) for v in bad.values())
    cov["unknown_constructs"] = notes
    rows_ok = sum(1 for k, _ in rows if k not in bad)
    table_thm = any(t["name"].endswith("all_rows_ok") for t in thms) and ok
    cov["obligations"] = len(thms) + len(rows) if thms else max(1, len(rows))
    cov["discharged"] = sum(1 for t in thms if not t["axioms"] or set(t["axioms"]) <= core.ALLOWED_AXIOMS) + (rows_ok if table_thm else 0)
    cov["samples"] = [{"entry_point": k, "ir": ir} for k, ir in (rows[:2] + rows[len(rows) // 2:len(rows) // 2 + 2] + rows[-2:])]
    ctx.log(f"table: {len(rows)} entry points, {len(ops)} pairs: {npairs_ok} conform, "
            f"{cov['pairs_recorded_nonconforming']} recorded, {cov['pairs_violating']} violating")

    # fresh extraction through `corr C19` == the driver's view of the regenerated table (keeps the replay path honest)
    binary, blog = core.build_harness()
    if binary is None:
        ctx.violation("harness-build.txt", "go/cmd/corr does not build against the current tree\n" + blog[-3000:], no_input=True)
    else:
        text = "case table\n" + "\n".join(f"conf {k} {b} {h}" for k, _ in rows for b, h in SCENARIOS) + "\n"
        impl, err = core.run_impl(binary, PROP, text)
        model = driver("model", text)
        d = core.compare(impl or [], model)
        if impl is None or d is not None:
            ctx.violation("table-stale.corr", f"fresh extraction and generated table differ at line {d}: {err or ''}\n"
                          f"impl:  {(impl or ['?'])[d or 0]}\nmodel: {model[d or 0]}\n", no_input=True)

    if not ok and not ctx.violations:
        ctx.violation("proof-broken.txt", f"proof obligations of Sentinel.Props.C19 no longer check:\n{problem}\n"
                      "the table evaluation found no non-conforming (entry point, scenario) pair\n", no_input=True)

    # --- 4. dynamic validation ------------------------------------------------------------------------------------
    dynamic(ctx, rows)   # also when the table already shows violations: the real runs give a second, concrete replay
    return finish(ctx)


def dynamic(ctx, rows):
    cov = ctx.cov
    keys = {k for k, _ in rows}
    with concurrent.futures.ThreadPoolExecutor(max_workers=min(8, max(1, len(DYN)))) as ex:
        built = dict(zip(DYN, ex.map(build_dyn, DYN)))
    lines = []
    for a in DYN:
        binary, log = built[a]
        if binary is None:
            ctx.violation(f"dyn-build-{a}.txt", f"the dynamic harness for pkg/adapters/{a} does not build against {core.REPO}; the IR semantics "
                          f"cannot be validated on it\n{log[-3000:]}", no_input=True)
            continue
        for _ in range(SIZES[ctx.tier]):
            seed = ctx.rng.randrange(1, 2 ** 31)
            rc, ls, err = run_dyn(binary, seed)
            if rc != 0 or not ls:
                ctx.violation(f"dyn-run-{a}.txt", f"harness {a} seed {seed} exited {rc}\n{err}", no_input=True)
                break
            lines += [(a, seed, l) for l in split_skipped(ls)[0]]
            cov["backstep_skipped"] = cov.get("backstep_skipped", 0) + split_skipped(ls)[1]
            for n in err.splitlines():
                if n.startswith("note ") and n not in cov.setdefault("dynamic_notes", []) and len(cov["dynamic_notes"]) < 12:
                    cov["dynamic_notes"].append(n)
    cov["dynamic_adapters"] = [a for a in DYN if built[a][0] is not None]
    if not lines:
        return
    text = "case dyn\n" + "\n".join(l for _, _, l in lines) + "\n"
    model = driver("model", text)[1:]
    judge = driver("oracle", text)[1:]
    seen, driven = set(), set()
    nbad = nmis = 0
    known = {e["key"] for e in core.load_known(PROP) if e.get("kind") == "known"}
    for (a, seed, l), m, j in zip(lines, model, judge):
        op, obs = core.split_res(l)
        _, pred = core.split_res(m)
        _, verdict = core.split_res(j)
        t = op.split()
        driven.add(t[1])
        seen.add((op, obs))
        if verdict not in ("ok", "?") and not (verdict.startswith("known:") and verdict[6:] in known):
            nbad += 1
            if nbad <= 3:
                ctx.violation(f"dyn-{a}-{nbad}.replay", f"# the real adapter violates the entry contract on this run (harness go/c19/{a}, seed {seed})\n"
                              f"case replay\n{op}\n# --- observed | predicted | verdict\n# {obs} | {pred} | {verdict}\n")
        elif norm_trace(obs) != norm_trace(pred):
            nmis += 1
            if nmis <= 3:
                ctx.violation(f"dyn-{a}-mismatch-{nmis}.corr", f"# IR semantics and real adapter disagree (harness go/c19/{a}, seed {seed}); the observed trace itself "
                              f"satisfies the contract (or is a recorded finding)\ncase replay\n{op}\n# --- observed | predicted | verdict\n# {obs} | {pred} | {verdict}\n",
                              no_input=True)
    cov["traces_validated_against_impl"] = len(lines)
    cov["evaluations"] = cov["table_pairs"] + len(lines)
    cov["distinct_nontrivial"] = len(seen)
    cov["dynamic_entry_points"] = sorted(driven)
    cov["static_only_entry_points"] = sorted(keys - driven)
    cov["model_disagreements"] = nmis
    cov["spec_failures"] = nbad
    cov["samples"] += [{"dynamic": l} for _, _, l in lines[:3]]
    ctx.log(f"dynamic: {len(lines)} observed traces over {len(driven)} entry points ({len(cov['dynamic_adapters'])} adapters), "
            f"{nmis} disagreements, {nbad} contract failures")


def finish(ctx):
    cov = ctx.cov
    cov["rule"] = RULE
    cov["exhaustive"] = True
    cov.setdefault("evaluations", cov.get("table_pairs", 0))
    cov.setdefault("distinct_nontrivial", cov.get("table_pairs", 0))
    ctx.assumptions += [
        "the translator's structural recognition of the wrapped-handler call (parameter call / Next on a parameter / embedded wrapped client) "
        "covers what adapters use; anything else is `.unknown` and rejected",
        "a call statement inside the block branch is the fallback / default rejection; whether it stops the handler chain is decided by its callee name and the "
        "framework table in Sentinel.Model.AdapterIR (the configured / default fallback option is trusted to stop the chain)",
        "the framework table (return-stops, stop calls) is as read from the framework sources in the module cache; dynamically confirmed for gin, iris, gear, fiber, goframe",
        "events of non-driven adapters follow the IR semantics validated on the driven ones",
    ]
    if ctx.tier == "thorough" and not ctx.violations:
        rc, so, se = core.sh(["lake", "env", "leanchecker", "Sentinel.Props.C19"], cwd=core.LEAN, timeout=3600)
        cov["leanchecker"] = "ok" if rc == 0 else ("failed: " + (so + se)[-500:])
        if rc != 0:
            ctx.violation("leanchecker.txt", so + se, no_input=True)
    return ctx.finish()


# `bin/check C19 replay <file>` goes through vlib.std.replay (op file -> corr / driver): make sure the table it
# compares against is fresh and the dynamic harnesses exist for `trace` ops.
if len(sys.argv) >= 3 and os.path.basename(sys.argv[0]) == "check" and sys.argv[1] == PROP and sys.argv[2] == "replay":
    pregen()
    os.environ["C19_DYN_DIR"] = DYN_BUILD
    if len(sys.argv) > 3 and os.path.exists(sys.argv[3]) and any(l.startswith("trace ") for l in open(sys.argv[3])):
        for _a in DYN:
            build_dyn(_a)


def gen(ctx, n):
    rows, _ = read_table()
    return [Case(f"t{i}", [f"conf {k} {b} {h}" for b, h in SCENARIOS]) for i, (k, _) in enumerate(rows)][:n]


def corpus():
    return []


META = {
    "category": "proof",
    "technique": ("translator-backed Lean 4 proof: go/ast extraction of one IR term per adapter entry point, regenerated every run; kernel evaluation "
                  "(`decide`) of the conformance predicate over the whole table; IR semantics validated by driving the real adapters in-process"),
    "level_text": ("lean/Sentinel/Props/C19.lean: `all_adapters_conform` — every entry point of the *current* pkg/adapters tree (table regenerated "
                   "from the syntax trees on each run) that is not a recorded finding conforms in all six scenarios (blocked/admitted x handler "
                   "ok/err/panic): entry asked first; blocked => handler not run (incl. by the framework advancing the chain itself where returning alone does not stop it: gin, hertz, iris, gear) and rejection produced; admitted => handler once, exit exactly "
                   "once and last, handed-back error traced.  `scenarios_complete` makes the scenario list the whole space; general lemmas "
                   "(canonical shape conforms, dropped defer / exit-after-call / fall-through block branch fail, dead code after return, "
                   "unknown / nil-deref rejected) do not depend on the table.  Recorded findings have `_witness` theorems on literal copies; a "
                   "program counts as recorded only if key and body both match.  The IR semantics is tied to the code by in-process runs of the "
                   "real adapters whose observed event traces must equal the predicted ones."),
    "level_note": ("Trusted: Lean kernel; the go/ast translator (fails closed on unknown constructs); the reading of Go defer/panic in the IR semantics "
                   "(dynamically validated on the driven adapters); event observation through the stat node. Not inspected: what the fallback writes; "
                   "stream lifetimes after the interceptor returns (grpc/micro stream entry points exit when the stream is created)."),
    "design_ref": "DESIGN.md 6.C19",
}
