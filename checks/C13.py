"""C13 — only valid, latest-loaded rules are in force; reported rules equal enforced (all six rule managers)."""
from vlib.core import Case

PROP = "C13"
SPEC_MODE = "spec"
KEEP_PREFIX = 0
SIZES = {"quick": 3000, "thorough": 150000}
BATCH = 1500
RULE = ("op sequences (load / loadres / clear / clearres) over flow, isolation, hotspot, circuit breaker, system, outlier; rule lists mix valid rules "
        "(boundary thresholds), one invalid rule per IsValidRule clause, nil elements, a small slice of foreign-resource and unbuildable rules, "
        "verbatim reloads, reloads that duplicate an identical rule or drop one of two duplicates, and reloads with exactly one field of one rule changed (every field of every record, both load paths; also as a fixed "
        "systematic corpus); after every state op the return class, GetRules/GetRulesOfResource, the identity classes of the controller objects in force (ctrlids) and probe traffic (single requests and, for flow, short same-instant request sequences) (flow, isolation, breaker, system) "
        "on the touched resources are compared; fresh rule objects per load; non-trivial = some load that changed state contained an invalid or nil "
        "rule and probes returned both pass and block; distinct by (module, op kind, rule-kind) sequence")

import math
from fractions import Fraction

QU = 2 ** 60


def Qf(x):
    """a float threshold as the exact integer number of 2^-60 units (values below 2^-8 are snapped to that grid)"""
    return round(Fraction(x) * QU)


def H(h):
    """a threshold given in halves"""
    return h * QU // 2


def qfloat(q):
    return float(Fraction(q, QU))


# thresholds of unusual magnitude: huge (legal for the validators), and fractional just below an integer
HUGE = [Qf(x) for x in (1e8, 2e9, 2000000003.0, 4e9, 1e12, 1e15, 123456789.5)]
FRAC = [Qf(x) for x in (math.nextafter(3.0, 0), 3 - 1e-9, 2 - 1e-9, math.nextafter(2.0, 0), 1 - 1e-9, 0.75, 2.5, 1e-3)]
# statistic intervals: round ones, ones that are no multiple of the 500 ms global bucket, primes, tiny, beyond the global 10 s span
STAT_ODD = [1, 7, 250, 499, 501, 700, 997, 1250, 1501, 1600, 1750, 2000, 3001, 5000, 9973, 9999, 10000, 10001, 12345, 15000]


def th_delta(rng, q):
    """a threshold close to q: +-1, +-3, +-1 ulp, 1e-9 relative, just inside / outside the 1e-8 absolute tolerance"""
    v = qfloat(q)
    c = rng.choice(["+1", "-1", "+3", "-3", "ulp+", "ulp-", "rel+", "rel-", "in+", "in-", "out+", "out-"])
    w = {"+1": v + 1, "-1": v - 1, "+3": v + 3, "-3": v - 3, "ulp+": math.nextafter(v, math.inf), "ulp-": math.nextafter(v, -math.inf),
         "rel+": v * (1 + 1e-9), "rel-": v * (1 - 1e-9), "in+": v + 5e-9, "in-": v - 5e-9, "out+": v + 2e-8, "out-": v - 2e-8}[c]
    return Qf(w)


# unsigned 32-bit fields over the full range
U32 = [2 ** 31 - 1, 2 ** 31, 2 ** 31 + 1, 2 ** 32 - 1]

MODS = ["flow", "iso", "hot", "cb", "sys", "out"]
RES = {"flow": ["f1", "f2", "f3"], "iso": ["i1", "i2", "i3"], "hot": ["h1", "h2"], "cb": ["c1", "c2", "c3"], "out": ["o1", "o2"]}
BIG = 2 ** 62


# ---- rule records: one dict per rule, every field of the Go struct that validity / equality / DeepEqual / the getters look at ---------

FIELDS = {
    "flow": ["res", "tcs", "cb", "th", "rel", "ref", "maxQ", "wp", "cf", "st", "lm", "hm", "ml", "mh", "id"],
    "iso": ["res", "metric", "th", "id"],
    "hot": ["res", "metric", "cb", "pidx", "pkey", "th", "maxQ", "burst", "dur", "cap", "items", "id"],
    "cb": ["res", "s", "retry", "minReq", "stat", "bk", "maxRt", "th", "probe", "id"],
    "sys": ["metric", "th2", "st", "id"],
    "out": ["pct", "rec", "act", "recyc", "att", "inner"],
}
# values a one-field delta may switch to (the generator never uses MinRequestAmount 2 or MaxAllowedRtMs >= 50: probe model)
ALPHA = {
    "flow": dict(res=["f1", "f2", "f3"], tcs=[0, 1, 2], cb=[0, 1], th=[H(0), H(1), H(2), H(3), H(4), H(6), H(20), H(200)] + HUGE + FRAC, rel=[0, 1], ref=["_", "f9", "f8"],
                 maxQ=[0, 500, 7] + U32, wp=[0, 1, 10] + U32, cf=[0, 2, 3, 5] + U32, st=[0, 1000] + STAT_ODD + U32, lm=[1000, 2000], hm=[100, 200],
                 ml=[1024, 512], mh=[2048, 4096, 1 << 20], id=["_", "a", "b"]),
    "iso": dict(res=["i1", "i2", "i3"], metric=[0, 1], th=[1, 2, 3, 10] + U32, id=["_", "a", "b"]),
    "hot": dict(res=["h1", "h2"], metric=[0, 1], cb=[0, 1], pidx=[0, 1, -1], pkey=["_", "k", "k2"], th=[0, 1, 3, 100], maxQ=[0, 500, 7],
                burst=[0, 2, 4], dur=[1, 5, 0], cap=[0, 100, 50], items=[0, 1, 2, 7], id=["_", "a", "b"]),
    "cb": dict(res=["c1", "c2", "c3"], s=[0, 1, 2], retry=[1000, 5000] + U32, minReq=[0, 1, 100] + U32, stat=[1000] + STAT_ODD + U32, bk=[0, 1, 2, 3],
               maxRt=[0, 10, 20], th=[H(0), H(1), H(2), H(4), H(10)] + HUGE + FRAC, probe=[0, 1, 3] + U32, id=["_", "a", "b"]),
    "sys": dict(metric=[0, 1, 2, 3, 4], th2=[0, 1, 2, 8, 9, 20], st=[-1, 0, 1], id=["_", "a", "b"]),
    "out": dict(pct=[0, 1, 2], rec=[0, 1000, 500], act=[0, 1], recyc=[0, 60], att=[0, 3]),
}


def tok(mod, r):
    """the op-line token of a rule dict (None = nil)"""
    if r is None:
        return "-"
    if mod == "out":
        inner = "-" if r["inner"] is None else tok("cb", r["inner"])
        return ";".join(str(r[k]) for k in FIELDS["out"][:-1]) + ";" + inner
    return ",".join(str(r[k]) for k in FIELDS[mod])


def rid(rng):
    return rng.choice(["_"] * 12 + ["a", "b"])


def flow_rule(rng, res, kind):
    st = rng.choice([0, 0, 0, 1000, 2000, 700] + ([rng.choice(STAT_ODD), rng.randint(1, 15000)] if rng.random() < 0.5 else []))
    th = rng.choice([0, 0, 1, 2, 3, 4, 6, 20])
    f = dict(res=res, tcs=0, cb=rng.choice([0, 0, 1]), th=H(th), rel=0, ref="_", maxQ=0, wp=0, cf=0, st=st, lm=0, hm=0, ml=0, mh=0, id=rid(rng))
    if kind == "valid":
        v = rng.random()
        if v < 0.55:
            if f["cb"] == 1:
                f["maxQ"] = rng.choice([0, 500])
            if rng.random() < 0.15:
                f["th"] = rng.choice(HUGE + FRAC)
        elif v < 0.72:
            f.update(tcs=1, cb=rng.choice([0, 1]), th=rng.choice([H(20), H(200)]), wp=rng.choice([1, 10]), cf=rng.choice([0, 0, 2, 3, 5]), st=0)
        elif v < 0.86:
            f.update(tcs=2, cb=rng.choice([0, 1]), lm=1000, hm=100, ml=1024, mh=rng.choice([2048, 1 << 20]), st=0)
        elif v < 0.95:
            f.update(rel=1, ref="f9", st=rng.choice([0, 2000]))
        elif v < 0.975:
            kind = "custom"                     # built by the harness' own generator (strategy 7 / behaviour 9)
            f.update(tcs=7, cb=9, th=H(rng.randint(1, 400)), st=0)
        else:
            kind = "unbuildable"
            if rng.random() < 0.5:
                f.update(tcs=rng.choice([3, 7]))
            else:
                f.update(cb=rng.choice([2, 9]))
    else:
        c = int(kind[3:])
        mem = dict(tcs=2, cb=0, lm=1000, hm=100, ml=1024, mh=2048, st=0)
        if c == 1: f.update(res="_")
        elif c == 2: f.update(th=rng.choice([H(-1), H(-2), H(-40)]), cb=0)
        elif c == 3: f.update(tcs=rng.choice([-1, -5]), cb=0, th=H(0))
        elif c == 4: f.update(cb=-1, th=H(0))
        elif c == 5: f.update(rel=rng.choice([2, -1]), th=H(0))
        elif c == 6: f.update(rel=1, ref="_", th=H(0))
        elif c == 7: f.update(tcs=1, wp=0, cf=3, th=H(20))
        elif c == 8: f.update(tcs=1, wp=10, cf=1, th=H(20))
        elif c == 9: f.update(mem, lm=rng.choice([0, -1]))
        elif c == 10: f.update(mem, hm=rng.choice([0, -1]))
        elif c == 11: f.update(mem, hm=rng.choice([1000, 2000]))
        elif c == 12: f.update(mem, ml=rng.choice([0, -1]))
        elif c == 13: f.update(mem, mh=rng.choice([0, -1]))
        elif c == 14: f.update(mem, mh=BIG)
        elif c == 15: f.update(mem, ml=rng.choice([2048, 4096]))
    return f, kind


def iso_rule(rng, res, kind):
    f = dict(res=res, metric=0, th=rng.choice([1, 1, 2, 3, 10]), id=rid(rng))
    if kind == "inv1": f["res"] = "_"
    elif kind == "inv2": f["metric"] = rng.choice([1, -1])
    elif kind == "inv3": f["th"] = 0
    return f, kind


def hot_rule(rng, res, kind):
    f = dict(res=res, metric=1, cb=0, pidx=rng.choice([0, 0, 1, -1]), pkey="_", th=rng.choice([0, 1, 3, 100]), maxQ=0, burst=rng.choice([0, 0, 2]),
             dur=rng.choice([1, 1, 5]), cap=rng.choice([0, 0, 100]), items=rng.choice([0, 0, 1, 1, 2, 7]), id=rid(rng))
    if kind == "valid":
        v = rng.random()
        if v < 0.45:
            if rng.random() < 0.10:
                f["maxQ"] = 7           # ignored under Reject, also by Rule.Equals (stale-equal-rule region when it is the only change)
        elif v < 0.65:
            f.update(cb=1, maxQ=rng.choice([0, 500]), burst=rng.choice([0, 0, 0, 4]))
        elif v < 0.82:
            f.update(metric=0, dur=rng.choice([0, 1]))
        elif v < 0.93:
            f.update(pidx=0, pkey="k")
        else:
            kind = "unbuildable"
            if rng.random() < 0.5: f.update(cb=rng.choice([2, 5]))
            else: f.update(metric=rng.choice([2, 9]))
    else:
        c = int(kind[3:])
        if c == 1: f.update(res="_")
        elif c == 2: f.update(th=rng.choice([-1, -9]))
        elif c == 3: f.update(metric=-1)
        elif c == 4: f.update(cb=-1)
        elif c == 5: f.update(metric=1, dur=rng.choice([0, -1]))
        elif c == 6: f.update(pidx=rng.choice([1, 3]), pkey="k")
        elif c == 7: f.update(cb=0, burst=-1)
        elif c == 8: f.update(cb=1, maxQ=-1)
    return f, kind


def cb_rule(rng, res, kind, unbuildable_ok=True):
    s = rng.choice([0, 1, 2, 2])
    f = dict(res=res, s=s, retry=rng.choice([1000, 5000]), minReq=rng.choice([0, 1, 1, 100]), stat=rng.choice([1000, 10000, rng.choice(STAT_ODD), rng.randint(1, 15000)]),
             bk=rng.choice([0, 1, 2, 3]), maxRt=rng.choice([0, 10, 20]), th=rng.choice([H(0), H(1), H(2)]) if s < 2 else rng.choice([H(0), H(1), H(2), H(3), H(4), H(10)]),
             probe=rng.choice([0, 0, 1, 3]), id=rid(rng))
    if kind == "valid":
        if f["s"] == 2 and rng.random() < 0.15:
            f["th"] = rng.choice(HUGE + FRAC)
        elif f["s"] < 2 and rng.random() < 0.1:
            f["th"] = rng.choice([Qf(1 - 1e-9), Qf(0.75), Qf(math.nextafter(1.0, 0)), Qf(1e-3)])
        if unbuildable_ok and rng.random() < 0.04:
            kind = "unbuildable"
            f.update(s=rng.choice([3, 8]))
        elif unbuildable_ok and rng.random() < 0.04:
            kind = "custom"                     # built by the harness' own generator (strategy 7)
            f.update(s=7, th=H(rng.randint(0, 400)))
    else:
        c = int(kind[3:])
        if c == 1: f.update(res="_")
        elif c == 2: f.update(stat=0)
        elif c == 3: f.update(retry=0)
        elif c == 4: f.update(th=rng.choice([H(-1), H(-2)]), s=rng.choice([0, 1, 2]), minReq=rng.choice([0, 1]))
        elif c == 5: f.update(s=0, th=rng.choice([H(3), H(4)]))
        elif c == 6: f.update(s=1, th=rng.choice([H(3), H(10)]))
    return f, kind


def sys_rule(rng, _res, kind):
    m = rng.choice([0, 1, 2, 3, 4])
    f = dict(metric=m, th2=rng.choice([0, 1, 2]) if m == 4 else rng.choice([0, 0, 1, 2, 7, 8, 9, 20]), st=rng.choice([-1, -1, 0, 1]), id=rid(rng))
    if kind == "inv1": f["th2"] = rng.choice([-1, -3])
    elif kind == "inv2": f["metric"] = rng.choice([5, 6, 40])
    elif kind == "inv3": f.update(metric=4, th2=rng.choice([3, 4]))
    return f, kind


def out_rule(rng, res, kind):
    f = dict(pct=rng.choice([0, 1, 2]), rec=rng.choice([0, 0, 1000]), act=rng.choice([0, 0, 1]), recyc=rng.choice([0, 0, 60]), att=rng.choice([0, 0, 3]))
    f["inner"], _ = cb_rule(rng, res, "valid", unbuildable_ok=False)
    if kind == "inv1": f["inner"], _ = cb_rule(rng, "_", "valid", unbuildable_ok=False)
    elif kind == "inv2": f["pct"] = rng.choice([-1, 3])
    elif kind == "inv3": f["inner"], _ = cb_rule(rng, res, "inv" + str(rng.choice([2, 3, 4, 5, 6])))
    elif kind == "inv4": f["inner"] = None
    return f, kind


POOL = {"flow": (flow_rule, 15), "iso": (iso_rule, 3), "hot": (hot_rule, 8), "cb": (cb_rule, 6), "sys": (sys_rule, 3), "out": (out_rule, 4)}


U32_FIELDS = {"flow": ["maxQ", "wp", "cf", "st"], "iso": ["th"], "cb": ["retry", "stat", "minReq", "probe"]}


def pick_rule(rng, mod, res, stats):
    f, kind = _pick_rule(rng, mod, res, stats)
    if f is not None and mod in U32_FIELDS and rng.random() < 0.06:
        tgt = f if mod != "out" else None
        if tgt is not None:
            tgt[rng.choice(U32_FIELDS[mod])] = rng.choice(U32)
    return f, kind


def _pick_rule(rng, mod, res, stats):
    fn, ncl = POOL[mod]
    r = rng.random()
    if r < 0.10:
        stats["nil"] += 1
        return None, "nil"
    kind = "valid" if r < 0.62 else "inv" + str(rng.randint(1, ncl))
    f, kind = fn(rng, res, kind)
    stats["invalid" if kind.startswith("inv") else kind] = stats.get("invalid" if kind.startswith("inv") else kind, 0) + 1
    return f, kind


def delta(rng, mod, r):
    """a copy of rule dict r with exactly one field changed (every field of the record can be hit); returns (copy, field)"""
    r = dict(r)
    if mod == "out" and r["inner"] is not None and rng.random() < 0.6:
        r["inner"], fld = delta(rng, "cb", r["inner"])
        return r, "inner." + fld
    fld = rng.choice([k for k in FIELDS[mod] if k != "inner"])
    if fld == "th" and mod in ("flow", "cb") and rng.random() < 0.7:
        q = th_delta(rng, r["th"])
        if q != r["th"]:
            r["th"] = q
            return r, "th~"
    alts = [v for v in ALPHA[mod][fld] if v != r[fld]]
    r[fld] = rng.choice(alts)
    return r, fld


def load_op(mod, kind, res, rules):
    body = f"{len(rules)}" + "".join(" " + tok(mod, x) for x in rules)
    return f"load {mod} {body}" if kind == "load" else f"{kind} {mod} {res} {body}"


def near_batches(rules, res):
    """batch counts right at the thresholds of the flow rules just loaded for res (a batch probe tells T from T+-1)"""
    bs = []
    for r in rules or []:
        if r is None or r.get("res") != res:
            continue
        T = qfloat(r["th"]) if r["tcs"] != 2 else float(r["hm"])
        if 1 <= T < 4294967290:
            bs += [int(T), int(T) + 1]
    return list(dict.fromkeys(bs))[:6]


def observe(rng, mod, touched, everything=False, rules=None):
    """getters and probes for the touched resources of a module"""
    ops = []
    if mod == "sys":
        return ["get sys", "probe sys"]
    if mod == "out":
        return ["get out"]
    for res in touched:
        if res == "_":
            continue
        ops.append(f"getres {mod} {res}")
        if mod == "flow":
            for b in ([1, 2, 3] if everything else rng.sample([1, 1, 2, 3, 11], 2)):
                ops.append(f"probe flow {res} {b}")
            seqs = ["1 1 1 1", "2 1", "3 1", "100 1", "1 1 1 1 1 1 1", "10 1 1", "50 50 1", "200 1"]
            for q in (seqs[:6] if everything else rng.sample(seqs, 2)):
                ops.append(f"probeseq flow {res} {q}")
            for b in near_batches(rules, res):
                ops.append(f"probe flow {res} {b}")
                if b > 3:
                    ops.append(f"probeseq flow {res} {b - 1} 1 1")
        elif mod == "iso":
            for b in ([1, 2, 3, 4] if everything else rng.sample([1, 2, 3, 4, 11], 2)):
                ops.append(f"probe iso {res} {b}")
        elif mod == "cb":
            ops.append(f"probe cb {res}")
        if mod in ("flow", "hot", "cb"):
            ops.append(f"ctrlids {mod} {res}")
            ops.append(f"ctrlhist {mod} {res}")
    ops.append(f"get {mod}")
    return ops


def gen_case(rng, cid, stats):
    mods = rng.sample(MODS, rng.choice([1, 1, 2, 2, 3]))
    ops, kinds = [], []
    last = {}                      # module -> (kind, res, rule dicts, touched) of the last load / loadres
    for _ in range(rng.randint(4, 14)):
        mod = rng.choice(mods)
        names = RES.get(mod, ["-"])
        r = rng.random()
        prev = last.get(mod)
        if r < 0.12 and prev:
            kind, res, rules, touched = prev                                   # identical reload (fresh objects, same values)
            op = load_op(mod, kind, res, rules)
            kinds.append((mod, "again"))
        elif r < 0.125 and mod != "out":
            # a big whole-set load: 13..60 rules over few resources, so that the order within a resource shows in GetRules
            few = names[:rng.choice([1, 2, 2])] if mod != "sys" else ["-"]
            rules = [pick_rule(rng, mod, rng.choice(few), stats)[0] for _ in range(rng.randint(13, 60))]
            op, touched = load_op(mod, "load", None, rules), (list(few) if mod != "sys" else [])
            ops += [op, f"getord {mod}"]
            last[mod] = ("load", None, rules, touched)
            stats["big"] = stats.get("big", 0) + 1
            kinds.append((mod, "big", len(rules)))
        elif r < 0.155 and mod in ("flow", "cb"):
            # fault episode: the custom generator errors / panics during a load; then it recovers and the caller retries the identical list
            g = rng.choice(["panic", "panic", "fail"])
            res = rng.choice(names)
            cust = dict(flow_rule(rng, res, "valid")[0], tcs=7, cb=9, th=H(1000 + len(ops)), st=0) if mod == "flow" \
                else dict(cb_rule(rng, res, "valid", False)[0], s=7, th=H(1000 + len(ops)))
            rules = [pick_rule(rng, mod, res, stats)[0] for _ in range(rng.choice([0, 1, 2]))]
            rules.insert(rng.randint(0, len(rules)), cust)
            kind = rng.choice(["load", "loadres", "loadresx"])
            touched = list(names) if kind == "load" else [res]
            first = load_op(mod, kind, res, rules)
            ops += [f"genmode {mod} {g}", first] + observe(rng, mod, touched, rules=rules) + [f"genmode {mod} ok"]
            op = first
            last[mod] = (kind, res, rules, touched)
            stats["fault"] = stats.get("fault", 0) + 1
            kinds.append((mod, "fault", g, kind))
        elif r < 0.20 and prev and mod in ("flow", "hot", "cb", "iso") and any(x is not None for x in prev[2]):
            kind, res, rules, touched = prev                                   # duplicate an identical rule / drop one of two duplicates
            rules = list(rules)
            dups = [j for j, x in enumerate(rules) if x is not None and rules.count(x) > 1]
            if dups and rng.random() < 0.35:
                del rules[rng.choice(dups)]
            else:
                i = rng.choice([j for j, x in enumerate(rules) if x is not None])
                rules.insert(rng.choice([i + 1, len(rules), 0]), dict(rules[i]))
            stats["dup"] = stats.get("dup", 0) + 1
            op = load_op(mod, kind, res, rules)
            last[mod] = (kind, res, rules, touched)
            kinds.append((mod, "dup", len(rules)))
        elif r < 0.34 and prev and any(x is not None for x in prev[2]):
            kind, res, rules, touched = prev                                   # reload with exactly one field of one rule changed
            rules = list(rules)
            i = rng.choice([j for j, x in enumerate(rules) if x is not None])
            rules[i], fld = delta(rng, mod, rules[i])
            stats["delta"] = stats.get("delta", 0) + 1
            if rng.random() < 0.25 and mod not in ("sys", "out"):             # ... through the other load path
                if kind == "load":
                    res = rules[i]["res"] if rules[i]["res"] != "_" else names[0]
                    kind, rules = "loadres", [x for x in rules if x is not None and x["res"] == res]
                    touched = [res]
                else:
                    kind, touched = "load", list(names)
            op = load_op(mod, kind, res, rules)
            last[mod] = (kind, res, rules, touched)
            kinds.append((mod, "delta", fld))
        elif r < 0.62 or mod == "sys":
            if r > 0.58 and mod == "sys":
                op, touched = "clear sys", []
                kinds.append((mod, "clear"))
            else:
                n = rng.choice([0, 1, 1, 2, 2, 3, 4, 6])
                rules, ks = [], []
                for _ in range(n):
                    f, k = pick_rule(rng, mod, rng.choice(names), stats)
                    rules.append(f); ks.append(k)
                op = load_op(mod, "load", None, rules)
                touched = list(names)
                last[mod] = ("load", None, rules, touched)
                kinds.append((mod, "load", tuple(sorted(set(ks)))))
        elif r < 0.90:
            res = rng.choice(names + (["_"] if rng.random() < 0.08 else []))
            n = rng.choice([0, 1, 1, 1, 1]) if mod == "out" else rng.choice([0, 1, 1, 2, 2, 3, 4])
            rules, ks = [], []
            for _ in range(n):
                rr = res
                if rng.random() < 0.04 and res != "_":
                    rr = rng.choice([x for x in names if x != res])       # a rule naming another resource
                    stats["foreign"] += 1
                f, k = pick_rule(rng, mod, rr if rr != "_" else names[0], stats)
                rules.append(f); ks.append(k)
            lk = "loadresx" if mod != "out" and rng.random() < 0.3 else "loadres"      # loadresx: the caller reuses one slice per resource
            op = load_op(mod, lk, res, rules)
            touched = [res] + ([rng.choice(names)] if rng.random() < 0.5 else [])       # plus another one: locality
            last[mod] = (lk, res, rules, touched)
            kinds.append((mod, "loadres", tuple(sorted(set(ks)))))
        elif r < 0.95:
            res = rng.choice(names)
            op, touched = f"clearres {mod} {res}", [res, rng.choice(names)]
            kinds.append((mod, "clearres"))
        else:
            op, touched = f"clear {mod}", list(names)
            kinds.append((mod, "clear"))
        ops.append(op)
        ops += observe(rng, mod, list(dict.fromkeys(touched)), rules=last.get(mod, (0, 0, None, 0))[2] if op.startswith("load") else None)
    return Case(cid, ops, tags=tuple(mods)), kinds


# ---- systematic one-field deltas: every field of every record, both load paths, every base rule shape ------------------------------

def _bases():
    F = dict(res="f1", tcs=0, cb=0, th=H(4), rel=0, ref="_", maxQ=0, wp=0, cf=0, st=0, lm=0, hm=0, ml=0, mh=0, id="_")
    HB = dict(res="h1", metric=1, cb=0, pidx=0, pkey="_", th=3, maxQ=0, burst=0, dur=1, cap=0, items=1, id="_")
    C = dict(res="c1", s=2, retry=1000, minReq=1, stat=1000, bk=0, maxRt=0, th=H(2), probe=0, id="_")
    return {
        "flow": [F, dict(F, cb=1, maxQ=500), dict(F, tcs=1, th=H(20), wp=10, cf=3), dict(F, tcs=1, cb=1, th=H(20), wp=10, cf=2, maxQ=500),
                 dict(F, tcs=2, lm=1000, hm=100, ml=1024, mh=2048), dict(F, tcs=2, cb=1, lm=1000, hm=100, ml=1024, mh=2048),
                 dict(F, rel=1, ref="f9", st=2000)],
        "iso": [dict(res="i1", metric=0, th=2, id="_")],
        "hot": [HB, dict(HB, cb=1, maxQ=500), dict(HB, metric=0, dur=0), dict(HB, pkey="k", items=2)],
        "cb": [C, dict(C, s=0, th=H(1), maxRt=10), dict(C, s=1, th=H(1))],
        "sys": [dict(metric=3, th2=8, st=-1, id="_"), dict(metric=4, th2=1, st=0, id="_")],
        "out": [dict(pct=1, rec=0, act=0, recyc=0, att=0, inner=dict(C, res="o1"))],
    }


def fault_corpus():
    """the custom generator errors / panics during a load of every shape, then recovers and the identical list is retried;
    and consecutive per-resource loads through one reused slice (loadresx) for all four modules"""
    cases = []
    bases = _bases()
    for mod in ("flow", "cb"):
        A = bases[mod][0]
        res = A["res"]
        X = dict(A, tcs=7, cb=9, th=H(6)) if mod == "flow" else dict(A, s=7)
        B = dict(A, th=H(6)) if mod == "flow" else dict(A, th=H(10))
        for g in ("panic", "fail"):
            for path in ("load", "loadres", "loadresx"):
                for pre, lst in (([], [X]), ([A], [A, X]), ([A], [X, B]), ([A, X], [A, dict(X, th=H(8))]), ([A, X], [B, X])):
                    ops = []
                    if pre:
                        ops += [load_op(mod, path, res, pre)] + observe(None, mod, [res], everything=True, rules=pre)
                    ops += [f"genmode {mod} {g}", load_op(mod, path, res, lst)] + observe(None, mod, [res], everything=True, rules=lst)
                    ops += [f"genmode {mod} ok", load_op(mod, path, res, lst)] + observe(None, mod, [res], everything=True, rules=lst)
                    ops += [load_op(mod, path, res, lst)]
                    cases.append(Case(f"fault-{mod}-{g}-{path}-{len(cases)}", ops, tags=("corpus", "fault")))
    two = {"flow": (bases["flow"][0], dict(bases["flow"][0], th=H(6))), "iso": (bases["iso"][0], dict(bases["iso"][0], th=3)),
           "hot": (bases["hot"][0], dict(bases["hot"][0], th=100)), "cb": (bases["cb"][0], dict(bases["cb"][0], th=H(10)))}
    for mod, (A, B) in two.items():
        res = A["res"]
        ops = []
        for lst in ([A], [B], [A], [A, B], [B, A], [B], [A]):
            ops += [load_op(mod, "loadresx", res, lst)] + observe(None, mod, [res], everything=True, rules=lst)
        cases.append(Case(f"slice-reuse-{mod}", ops, tags=("corpus", "slice")))
    return cases


def big_corpus():
    """whole-set loads of 20 and 45 valid rules over two resources (distinct thresholds, so the order within a resource is observable)"""
    cases = []
    bases = _bases()
    for mod in ("flow", "iso", "hot", "cb", "sys"):
        A = bases[mod][0]
        for n in (20, 45):
            rules = []
            for i in range(n):
                r = dict(A)
                if mod == "sys":
                    r.update(metric=[3, 1][i % 2], th2=8 + 2 * ((i * 7) % n))
                else:
                    r["res"] = RES[mod][i % 2]
                    if mod in ("flow", "cb"):
                        r["th"] = H(20 + 2 * ((i * 7) % n))
                    elif mod == "iso":
                        r["th"] = 5 + (i * 7) % n
                    else:
                        r["th"] = 5 + (i * 7) % n
                rules.append(r)
            ops = [load_op(mod, "load", None, rules), f"getord {mod}", f"get {mod}"]
            if mod != "sys":
                ops += [f"getres {mod} {RES[mod][0]}", f"getres {mod} {RES[mod][1]}"]
            cases.append(Case(f"big-{mod}-{n}", ops, tags=("corpus", "big")))
    return cases


def dup_corpus():
    """duplicate identical rules across reload pairs, every controller-bearing module, both load paths"""
    cases = []
    bases = _bases()
    extra_flow = [dict(bases["flow"][0], cb=1, th=H(2), maxQ=0, st=1000), dict(bases["flow"][0], cb=1, th=H(1), maxQ=0)]
    for mod in ("flow", "hot", "cb"):
        for bi, A in enumerate(bases[mod] + (extra_flow if mod == "flow" else [])):
            fld = {"flow": "th", "hot": "th", "cb": "th"}[mod]
            B = dict(A, **{fld: [v for v in ALPHA[mod][fld] if v != A[fld]][0]})
            res = A["res"]
            for path in ("load", "loadres"):
                ops = []
                for lst in ([A], [A, A], [A], [A, A, A], [A, B], [A, A, B], [B, A, A], [A, A], [B, B, A]):
                    ops += [load_op(mod, path, res, [dict(x) for x in lst])] + observe(None, mod, [res], everything=True, rules=lst)
                cases.append(Case(f"dup-{mod}{bi}-{path}", ops, tags=("corpus", "dup")))
    return cases


def replace_corpus():
    """X -> Y for every ordered pair of base rule shapes (same resource, same statistic interval), both load paths:
    the controller of Y must behave like a fresh one whatever X left behind (statistic, pacer, breaker)"""
    cases = []
    bases = _bases()
    flow = bases["flow"] + [dict(bases["flow"][0], cb=1, th=H(2), maxQ=0)]
    shapes = {"flow": [dict(x, st=st) for st in (0, 1000) for x in flow if x["rel"] == 0] + [x for x in flow if x["rel"] == 1],
              "hot": bases["hot"], "cb": bases["cb"]}
    for mod, lst in shapes.items():
        for i, X in enumerate(lst):
            for j, Y in enumerate(lst):
                if i == j or (mod == "flow" and X["st"] != Y["st"]):
                    continue
                res = X["res"]
                for path in ("load", "loadres"):
                    ops = [load_op(mod, path, res, [dict(X)])] + observe(None, mod, [res], everything=True, rules=[X])
                    ops += [load_op(mod, path, res, [dict(Y)])] + observe(None, mod, [res], everything=True, rules=[Y])
                    cases.append(Case(f"repl-{mod}{i}-{j}-{path}", ops, tags=("corpus", "replace")))
    return cases


def delta_corpus():
    cases = []
    for mod, bases in _bases().items():
        for bi, base in enumerate(bases):
            variants = []
            for fld in FIELDS[mod]:
                if fld == "inner":
                    for f2 in FIELDS["cb"]:
                        for v in [x for x in ALPHA["cb"][f2] if x != base["inner"][f2]][:2]:
                            if f2 == "res": v = "o2"
                            variants.append(("inner." + f2, dict(base, inner=dict(base["inner"], **{f2: v}))))
                    continue
                alts = [x for x in ALPHA[mod][fld] if x != base[fld]]
                for v in (alts if fld in ("st", "stat") else alts[:2]):
                    variants.append((fld, dict(base, **{fld: v})))
                if fld == "th" and mod in ("flow", "cb"):
                    for big in (base["th"], Qf(2e9), Qf(1e15), Qf(3.0), Qf(2.0)):
                        b2 = dict(base, th=big)
                        for w in ("+1", "+3", "ulp+", "ulp-", "rel+", "in+", "in-", "out+"):
                            v = qfloat(big)
                            q = Qf({"+1": v + 1, "+3": v + 3, "ulp+": math.nextafter(v, math.inf), "ulp-": math.nextafter(v, -math.inf),
                                    "rel+": v * (1 + 1e-9), "in+": v + 5e-9, "in-": v - 5e-9, "out+": v + 2e-8}[w])
                            if q != big:
                                variants.append((f"th{w}", (b2, dict(b2, th=q))))
            res = base.get("res") or (base["inner"]["res"] if mod == "out" else None)
            for fld, var in variants:
                base0 = base
                if isinstance(var, tuple):
                    base, var = var
                for path in (("load", "loadres") if mod != "sys" else ("load",)):
                    ops = [load_op(mod, path, res, [base])] + observe(None, mod, [res], everything=True, rules=[base, var])
                    ops += [load_op(mod, path, res, [var])] + observe(None, mod, [res], everything=True, rules=[base, var])
                    ops += [load_op(mod, path, res, [base])] + observe(None, mod, [res], everything=True, rules=[base, var])
                    cases.append(Case(f"delta-{mod}{bi}-{fld}-{path}-{len(cases)}", ops, tags=("corpus", "delta")))
                base = base0
    return cases


_KINDS = {}


def gen(ctx, n):
    stats = ctx.cov.setdefault("generator_rule_kinds", {"valid": 0, "invalid": 0, "nil": 0, "unbuildable": 0, "foreign": 0, "delta": 0, "dup": 0, "custom": 0, "fault": 0})
    res = []
    for i in range(n):
        c, kinds = gen_case(ctx.rng, f"g{ctx.seed}-{ctx.cov.get('traces_validated_against_impl', 0)}-{i}", stats)
        _KINDS[c.cid] = kinds
        res.append(c)
    return res


def corpus():
    import glob, os
    from vlib.core import ROOT
    res = []
    for p in sorted(glob.glob(os.path.join(ROOT, "corpus", PROP, "*.ops"))):
        ops = [l.rstrip("\n") for l in open(p) if l.strip() and not l.startswith("#") and not l.startswith("case ")]
        res.append(Case(os.path.basename(p), ops, tags=("corpus",)))
    return res + big_corpus() + fault_corpus() + dup_corpus() + replace_corpus() + delta_corpus()


def densify(ops, rng):
    """after every state op: every getter and every probe of that module"""
    out = []
    for o in ops:
        out.append(o)
        t = o.split()
        if t[0] in ("load", "loadres", "loadresx", "clear", "clearres") and rng.random() < 0.8:
            out += observe(rng, t[1], RES.get(t[1], []), everything=True)
    return out


def nontrivial(case, impl):
    mixed, blk, pas = False, False, False
    for l in impl:
        op, _, r = l.partition(" => ")
        t = op.split()
        if t[0] in ("load", "loadres", "loadresx") and r == "changed":
            rules = t[3:] if t[0] == "load" else t[4:]
            if "-" in rules or any(_is_invalid(t[1], x) for x in rules):
                mixed = True
        elif t[0] == "probe":
            blk |= r == "block"
            pas |= r == "pass"
    if mixed and blk and pas:
        k = _KINDS.get(case.cid)
        return hash(tuple(k)) if k else hash(tuple(o.split()[0] + o.split()[1] for o in case.ops))
    return None


def _is_invalid(mod, tok):
    """cheap syntactic test used only for the coverage statistic"""
    f = tok.replace(";", ",").split(",")
    return tok != "-" and (f[0] == "_" or any(x.startswith("-") and x != "-" for x in f))


META = {
    "technique": "Lean 4 proof (invariant over op histories of the rule managers) + differential correspondence model/impl with probe traffic",
    "level_text": ("Theorems in lean/Sentinel/Props/C13.lean, kernel-checked for every history of LoadRules / LoadRulesOfResource / Clear* and every rule "
                   "list (valid, invalid, nil): the enforced rules of each resource are exactly the accepted rules of the latest load in order, getters "
                   "equal enforced, invalid rules are never enforced, per-resource ops leave other resources untouched, both load paths agree, no load "
                   "panics, identical reloads report unchanged (outside the recorded findings, each with a by-decide witness). The model (the same "
                   "definitions the driver runs) is tied to the six rule_manager.go files by running op files through the real packages and comparing "
                   "return classes, GetRules/GetRulesOfResource and the decisions of api.Entry probes; the spec (filter-valid-of-latest recomputed from "
                   "the history) is compared with the implementation directly."),
    "level_note": ("Trusted: Lean kernel; axioms propext/Classical.choice/Quot.sound; Go harness, virtual clock, canonical printing (thresholds in halves, "
                   "GetRules sorted, every field printed). Modelled not verified: Go maps as "
                   "total functions, runtime state of reused controllers (C14) left out, probe decisions only for an idle system and Direct/current-resource flow "
                   "rules, total memory size taken as 2^50, outlier probes not run."),
    "design_ref": "DESIGN.md 6.C13",
}
