"""C13 — only valid, latest-loaded rules are in force; reported rules equal enforced (all six rule managers)."""
from vlib.core import Case

PROP = "C13"
SPEC_MODE = "spec"
KEEP_PREFIX = 0
SIZES = {"quick": 3000, "thorough": 150000}
BATCH = 1500
RULE = ("op sequences (load / loadres / clear / clearres) over flow, isolation, hotspot, circuit breaker, system, outlier; rule lists mix valid rules "
        "(boundary thresholds), one invalid rule per IsValidRule clause, nil elements, a small slice of foreign-resource and unbuildable rules, "
        "verbatim reloads; after every state op the return class, GetRules/GetRulesOfResource and probe traffic (flow, isolation, breaker, system) "
        "on the touched resources are compared; fresh rule objects per load; non-trivial = some load that changed state contained an invalid or nil "
        "rule and probes returned both pass and block; distinct by (module, op kind, rule-kind) sequence")

MODS = ["flow", "iso", "hot", "cb", "sys", "out"]
RES = {"flow": ["f1", "f2", "f3"], "iso": ["i1", "i2", "i3"], "hot": ["h1", "h2"], "cb": ["c1", "c2", "c3"], "out": ["o1", "o2"]}
BIG = 2 ** 62


# ---- rule pools: each returns (token, kind) ---------------------------------------------------------------------------------------

def flow_rule(rng, res, kind):
    # res,tcs,cb,th2,rel,ref,maxQ,wp,cf,st,lm,hm,ml,mh
    st = rng.choice([0, 0, 0, 1000, 2000, 700])
    th = rng.choice([0, 0, 1, 2, 3, 4, 6, 20])
    f = dict(res=res, tcs=0, cb=rng.choice([0, 0, 1]), th2=th, rel=0, ref="_", maxQ=0, wp=0, cf=0, st=st, lm=0, hm=0, ml=0, mh=0)
    if kind == "valid":
        v = rng.random()
        if v < 0.62:
            if f["cb"] == 1:
                f["maxQ"] = rng.choice([0, 500])
        elif v < 0.80:
            f.update(tcs=1, cb=rng.choice([0, 1]), th2=rng.choice([20, 200]), wp=rng.choice([1, 10]), cf=rng.choice([0, 0, 2, 3, 5]), st=0)
        elif v < 0.88:
            f.update(tcs=2, cb=rng.choice([0, 1]), lm=1000, hm=100, ml=1024, mh=rng.choice([2048, 1 << 20]), st=0)
        elif v < 0.95:
            f.update(rel=1, ref="f9", st=rng.choice([0, 2000]))
        else:
            kind = "unbuildable"
            if rng.random() < 0.5:
                f.update(tcs=rng.choice([3, 7]))
            else:
                f.update(cb=rng.choice([2, 9]))
    else:
        c = int(kind[3:])
        mem = dict(tcs=2, cb=0, lm=1000, hm=100, ml=1024, mh=2048, st=0)
        if c == 1: f.update(res="_")
        elif c == 2: f.update(th2=rng.choice([-1, -2, -40]), cb=0)
        elif c == 3: f.update(tcs=rng.choice([-1, -5]), cb=0, th2=0)
        elif c == 4: f.update(cb=-1, th2=0)
        elif c == 5: f.update(rel=rng.choice([2, -1]), th2=0)
        elif c == 6: f.update(rel=1, ref="_", th2=0)
        elif c == 7: f.update(tcs=1, wp=0, cf=3, th2=20)
        elif c == 8: f.update(tcs=1, wp=10, cf=1, th2=20)
        elif c == 9: f.update(mem, lm=rng.choice([0, -1]))
        elif c == 10: f.update(mem, hm=rng.choice([0, -1]))
        elif c == 11: f.update(mem, hm=rng.choice([1000, 2000]))
        elif c == 12: f.update(mem, ml=rng.choice([0, -1]))
        elif c == 13: f.update(mem, mh=rng.choice([0, -1]))
        elif c == 14: f.update(mem, mh=BIG)
        elif c == 15: f.update(mem, ml=rng.choice([2048, 4096]))
    tok = ",".join(str(f[k]) for k in ["res", "tcs", "cb", "th2", "rel", "ref", "maxQ", "wp", "cf", "st", "lm", "hm", "ml", "mh"])
    return tok, kind


def iso_rule(rng, res, kind):
    m, th = 0, rng.choice([1, 1, 2, 3, 10])
    if kind == "inv1": res = "_"
    elif kind == "inv2": m = rng.choice([1, -1])
    elif kind == "inv3": th = 0
    return f"{res},{m},{th}", kind


def hot_rule(rng, res, kind):
    # res,metric,cb,pidx,pkey,th,maxQ,burst,dur,cap,items
    f = dict(res=res, metric=1, cb=0, pidx=rng.choice([0, 0, 1, -1]), pkey="_", th=rng.choice([0, 1, 3, 100]), maxQ=0, burst=rng.choice([0, 0, 2]),
             dur=rng.choice([1, 1, 5]), cap=rng.choice([0, 0, 100]), items=rng.choice([0, 0, 1, 1, 2, 7]))
    if kind == "valid":
        v = rng.random()
        if v < 0.45:
            if rng.random() < 0.15:
                f["maxQ"] = 7           # irrelevant under Reject: not compared by Rule.Equals
        elif v < 0.65:
            f.update(cb=1, maxQ=rng.choice([0, 500]), burst=rng.choice([0, 0, 4]))
        elif v < 0.82:
            f.update(metric=0, dur=rng.choice([0, 1]))
        elif v < 0.93:
            f.update(pidx=0, pkey="k")
        else:
            kind = "unbuildable"
            if rng.random() < 0.5: f.update(cb=rng.choice([2, 5]))
            else: f.update(metric=rng.choice([2, 9]))
    else:
        c = int(kind[3:])
        if c == 1: f.update(res="_")
        elif c == 2: f.update(th=rng.choice([-1, -9]))
        elif c == 3: f.update(metric=-1)
        elif c == 4: f.update(cb=-1)
        elif c == 5: f.update(metric=1, dur=rng.choice([0, -1]))
        elif c == 6: f.update(pidx=rng.choice([1, 3]), pkey="k")
        elif c == 7: f.update(cb=0, burst=-1)
        elif c == 8: f.update(cb=1, maxQ=-1)
    tok = ",".join(str(f[k]) for k in ["res", "metric", "cb", "pidx", "pkey", "th", "maxQ", "burst", "dur", "cap", "items"])
    return tok, kind


def cb_rule(rng, res, kind, unbuildable_ok=True):
    # res,strategy,retry,minReq,statMs,buckets,maxRt,th2,probe
    s = rng.choice([0, 1, 2, 2])
    f = dict(res=res, s=s, retry=rng.choice([1000, 5000]), minReq=rng.choice([0, 1, 1, 100]), stat=rng.choice([1000, 10000]),
             bk=rng.choice([0, 1, 2, 3]), maxRt=rng.choice([0, 10, 20]), th2=rng.choice([0, 1, 2]) if s < 2 else rng.choice([0, 1, 2, 3, 4, 10]),
             probe=rng.choice([0, 0, 1, 3]))
    if kind == "valid":
        if unbuildable_ok and rng.random() < 0.04:
            kind = "unbuildable"
            f.update(s=rng.choice([3, 8]))
    else:
        c = int(kind[3:])
        if c == 1: f.update(res="_")
        elif c == 2: f.update(stat=0)
        elif c == 3: f.update(retry=0)
        elif c == 4: f.update(th2=rng.choice([-1, -2]), s=rng.choice([0, 1, 2]), minReq=rng.choice([0, 1]))
        elif c == 5: f.update(s=0, th2=rng.choice([3, 4]))
        elif c == 6: f.update(s=1, th2=rng.choice([3, 10]))
    tok = ",".join(str(f[k]) for k in ["res", "s", "retry", "minReq", "stat", "bk", "maxRt", "th2", "probe"])
    return tok, kind


def sys_rule(rng, _res, kind):
    m = rng.choice([0, 1, 2, 3, 4])
    th = rng.choice([0, 1, 2]) if m == 4 else rng.choice([0, 0, 1, 2, 7, 8, 9, 20])
    st = rng.choice([-1, -1, 0, 1])
    if kind == "inv1": th = rng.choice([-1, -3])
    elif kind == "inv2": m = rng.choice([5, 6, 40])
    elif kind == "inv3": m, th = 4, rng.choice([3, 4])
    return f"{m},{th},{st}", kind


def out_rule(rng, res, kind):
    pct, rec = rng.choice([0, 1, 2]), rng.choice([0, 0, 1000])
    inner, _ = cb_rule(rng, res, "valid", unbuildable_ok=False)
    if kind == "inv1": inner, _ = cb_rule(rng, "_", "valid", unbuildable_ok=False)
    elif kind == "inv2": pct = rng.choice([-1, 3])
    elif kind == "inv3": inner, _ = cb_rule(rng, res, "inv" + str(rng.choice([2, 3, 4, 5, 6])))
    elif kind == "inv4": inner = "-"
    return f"{pct};{rec};{inner}", kind


POOL = {"flow": (flow_rule, 15), "iso": (iso_rule, 3), "hot": (hot_rule, 8), "cb": (cb_rule, 6), "sys": (sys_rule, 3), "out": (out_rule, 4)}


def pick_rule(rng, mod, res, stats):
    fn, ncl = POOL[mod]
    r = rng.random()
    if r < 0.10:
        stats["nil"] += 1
        return "-", "nil"
    kind = "valid" if r < 0.62 else "inv" + str(rng.randint(1, ncl))
    tok, kind = fn(rng, res, kind)
    stats["invalid" if kind.startswith("inv") else kind] += 1
    return tok, kind


def observe(rng, mod, touched, everything=False):
    """getters and probes for the touched resources of a module"""
    ops = []
    if mod == "sys":
        return ["get sys", "probe sys"]
    if mod == "out":
        return ["get out"]
    for res in touched:
        if res == "_":
            continue
        ops.append(f"getres {mod} {res}")
        if mod == "flow":
            for b in ([1, 2, 3] if everything else rng.sample([1, 1, 2, 3, 11], 2)):
                ops.append(f"probe flow {res} {b}")
        elif mod == "iso":
            for b in ([1, 2, 3, 4] if everything else rng.sample([1, 2, 3, 4, 11], 2)):
                ops.append(f"probe iso {res} {b}")
        elif mod == "cb":
            ops.append(f"probe cb {res}")
    ops.append(f"get {mod}")
    return ops


def gen_case(rng, cid, stats):
    mods = rng.sample(MODS, rng.choice([1, 1, 2, 2, 3]))
    ops, kinds = [], []
    last = {}                      # module -> last state op (for verbatim reloads)
    for _ in range(rng.randint(4, 14)):
        mod = rng.choice(mods)
        names = RES.get(mod, ["-"])
        r = rng.random()
        if r < 0.14 and mod in last:
            op, touched = last[mod]                     # identical reload
            kinds.append((mod, "again"))
        elif r < 0.52 or mod == "sys":
            if r > 0.48 and mod == "sys":
                op, touched = "clear sys", []
                kinds.append((mod, "clear"))
            else:
                n = rng.choice([0, 1, 1, 2, 2, 3, 4, 6])
                toks, ks = [], []
                for _ in range(n):
                    res = rng.choice(names)
                    t, k = pick_rule(rng, mod, res, stats)
                    toks.append(t); ks.append(k)
                op = f"load {mod} {n}" + "".join(" " + t for t in toks)
                touched = list(names)
                kinds.append((mod, "load", tuple(sorted(set(ks)))))
        elif r < 0.88:
            res = rng.choice(names + (["_"] if rng.random() < 0.08 else []))
            if mod == "out":
                n = rng.choice([0, 1, 1, 1, 1])
            else:
                n = rng.choice([0, 1, 1, 2, 2, 3, 4])
            toks, ks = [], []
            for _ in range(n):
                rr = res
                if rng.random() < 0.04 and res != "_":
                    rr = rng.choice([x for x in names if x != res])       # a rule naming another resource
                    stats["foreign"] += 1
                t, k = pick_rule(rng, mod, rr if rr != "_" else names[0], stats)
                toks.append(t); ks.append(k)
            op = f"loadres {mod} {res} {n}" + "".join(" " + t for t in toks)
            touched = [res] + ([rng.choice(names)] if rng.random() < 0.5 else [])       # plus another one: locality
            kinds.append((mod, "loadres", tuple(sorted(set(ks)))))
        elif r < 0.94:
            res = rng.choice(names)
            op, touched = f"clearres {mod} {res}", [res, rng.choice(names)]
            kinds.append((mod, "clearres"))
        else:
            op, touched = f"clear {mod}", list(names)
            kinds.append((mod, "clear"))
        last[mod] = (op, touched)
        ops.append(op)
        ops += observe(rng, mod, list(dict.fromkeys(touched)))
    return Case(cid, ops, tags=tuple(mods)), kinds


_KINDS = {}


def gen(ctx, n):
    stats = ctx.cov.setdefault("generator_rule_kinds", {"valid": 0, "invalid": 0, "nil": 0, "unbuildable": 0, "foreign": 0})
    res = []
    for i in range(n):
        c, kinds = gen_case(ctx.rng, f"g{ctx.seed}-{ctx.cov.get('traces_validated_against_impl', 0)}-{i}", stats)
        _KINDS[c.cid] = kinds
        res.append(c)
    return res


def corpus():
    import glob, os
    from vlib.core import ROOT
    res = []
    for p in sorted(glob.glob(os.path.join(ROOT, "corpus", PROP, "*.ops"))):
        ops = [l.rstrip("\n") for l in open(p) if l.strip() and not l.startswith("#") and not l.startswith("case ")]
        res.append(Case(os.path.basename(p), ops, tags=("corpus",)))
    return res


def densify(ops, rng):
    """after every state op: every getter and every probe of that module"""
    out = []
    for o in ops:
        out.append(o)
        t = o.split()
        if t[0] in ("load", "loadres", "clear", "clearres") and rng.random() < 0.8:
            out += observe(rng, t[1], RES.get(t[1], []), everything=True)
    return out


def nontrivial(case, impl):
    mixed, blk, pas = False, False, False
    for l in impl:
        op, _, r = l.partition(" => ")
        t = op.split()
        if t[0] in ("load", "loadres") and r == "changed":
            rules = t[3:] if t[0] == "load" else t[4:]
            if "-" in rules or any(_is_invalid(t[1], x) for x in rules):
                mixed = True
        elif t[0] == "probe":
            blk |= r == "block"
            pas |= r == "pass"
    if mixed and blk and pas:
        k = _KINDS.get(case.cid)
        return hash(tuple(k)) if k else hash(tuple(o.split()[0] + o.split()[1] for o in case.ops))
    return None


def _is_invalid(mod, tok):
    """cheap syntactic test used only for the coverage statistic"""
    f = tok.replace(";", ",").split(",")
    return tok != "-" and (f[0] == "_" or any(x.startswith("-") and x != "-" for x in f))


META = {
    "technique": "Lean 4 proof (invariant over op histories of the rule managers) + differential correspondence model/impl with probe traffic",
    "level_text": ("Theorems in lean/Sentinel/Props/C13.lean, kernel-checked for every history of LoadRules / LoadRulesOfResource / Clear* and every rule "
                   "list (valid, invalid, nil): the enforced rules of each resource are exactly the accepted rules of the latest load in order, getters "
                   "equal enforced, invalid rules are never enforced, per-resource ops leave other resources untouched, both load paths agree, no load "
                   "panics, identical reloads report unchanged (outside the recorded findings, each with a by-decide witness). The model (the same "
                   "definitions the driver runs) is tied to the six rule_manager.go files by running op files through the real packages and comparing "
                   "return classes, GetRules/GetRulesOfResource and the decisions of api.Entry probes; the spec (filter-valid-of-latest recomputed from "
                   "the history) is compared with the implementation directly."),
    "level_note": ("Trusted: Lean kernel; axioms propext/Classical.choice/Quot.sound; Go harness, virtual clock, canonical printing (thresholds in halves, "
                   "GetRules sorted, hotspot BurstCount/MaxQueueingTimeMs printed only under the behaviour that reads them). Modelled not verified: Go maps as "
                   "total functions, rule IDs and controller reuse (C14) left out, probe decisions only for an idle system and Direct/current-resource flow "
                   "rules, total memory size taken as 2^50, outlier probes not run."),
    "design_ref": "DESIGN.md 6.C13",
}
