"""C20 — outlier ejection never removes more than the allowed share of nodes (core/outlier on a slot chain)."""
import collections
import glob
import math
import os
import struct
from fractions import Fraction

from vlib import core, std
from vlib.core import Case

PROP = "C20"
SPEC_MODE = "oracle"
KEEP_PREFIX = 1   # the first line (a `recovery` or the first load); a shrink that loses the load is ill-formed (bad-op)
SIZES = {"quick": 4000, "thorough": 100000}
BATCH = 2000
SHRINK_BUDGET = 200
RULE = ("one outlier rule (12 %: two resources with their own rules over the same addresses) (all three breaker strategies, probe numbers 0..3, bucket counts incl. non-divisors, retry timeouts 1..3000 ms) "
        "on 0..40 callee addresses with per-node failure profiles (healthy / flaky / dead / slow), requests = Entry+TraceCallee(+TraceError)+Exit "
        "in virtual time with steps around the retry timeout and the statistic interval, address-less probes, recycler timer callbacks and "
        "active-recovery successes driven directly, reloads that change MaxEjectionPercent / EnableActiveRecovery only; MaxEjectionPercent from "
        "{0, 1, k/100, k/n and the doubles next to it, 1/3, pred(1), subnormal, random}; non-trivial = some request saw a non-empty filter list "
        "or a non-empty half-open list; distinct by (strategy, active, probeNum, percent, per-request (n, nf, #rejecting, #half-open) sequence)")

T0 = 1_900_000_000_000


def fb(x):
    return "f:%016x" % struct.unpack(">Q", struct.pack(">d", float(x)))[0]


def enc(a):
    """percent-encoding of a node address for the op language (injective; %E = the empty address)"""
    if a == "":
        return "%E"
    return "".join(c if (c.isascii() and (c.isalnum() or c in "._-")) else "".join("%%%02X" % b for b in c.encode()) for c in a)


SPECIAL_ADDRS = ["Node-A:8080", "node-a:8080", "NODE-A:8080", " node-a:8080", "node-a:8080 ", "a:1", "A:1", " a:1 ", "\ta:1",
                 "[::1]:8080", "[2001:DB8::1]:80", "[2001:db8::1]:80", "10.0.0.1:80", "HOST", "host", "Host", " ", "  ", "%41", "%",
                 "a,b", "[x]", "a=b", "x:C", "É:1", "é:1", "svc.Prod.local:443", "svc.prod.local:443"]


def make_addrs(rng, nn):
    """node addresses of a case: plain n<i>, or (25 %) drawn from an alphabet with mixed case, padding, IPv6 literals,
    pairs differing only in case / surrounding blanks (different nodes on the unchanged tree), protocol-hostile characters"""
    if nn and rng.random() < 0.25:
        pool = rng.sample(SPECIAL_ADDRS, min(nn, len(SPECIAL_ADDRS)))
        pool += [f"N{i}" for i in range(nn - len(pool))]
        return [enc(a) for a in pool]
    return [f"n{i}" for i in range(nn)]


def pick_percent(rng, n):
    """MaxEjectionPercent, boundary-heavy; n = intended node count"""
    r = rng.random()
    n = max(n, 1)
    if r < 0.08:
        return 0.0
    if r < 0.16:
        return 1.0
    if r < 0.36:
        return rng.choice([1, 5, 10, 20, 25, 30, 33, 50, 66, 70, 75, 90, 99, rng.randint(0, 100)]) / 100
    if r < 0.66:
        k = rng.randint(1, n)
        x = k / n
        return min(1.0, max(0.0, rng.choice([x, math.nextafter(x, 0.0), math.nextafter(x, 2.0), (k - 0.5) / n])))
    if r < 0.74:
        return rng.choice([1 / 3, 2 / 3, 1 / 7, math.nextafter(1.0, 0.0), 5e-324, 2.0 ** -1022, 1 / (n + 1)])
    return rng.random()



class R:
    """the rule of one resource as the generator tracks it"""

    def __init__(self, name, strat, retry, minreq, interval, bc, maxrt, thr, probe, pe, active):
        self.name, self.strat, self.retry, self.minreq, self.interval = name, strat, retry, minreq, interval
        self.bc, self.maxrt, self.thr, self.probe, self.pe, self.active = bc, maxrt, thr, probe, pe, active

    def load(self, rng=None, op=None):
        """bulk path (`load` = outlier.LoadRules) or per-resource path (`loadres` = outlier.LoadRuleOfResource)"""
        if op is None:
            op = "load" if rng is None or rng.random() < 0.5 else "loadres"
        return (f"{op} {self.name} {self.strat} {self.retry} {self.minreq} {self.interval} {self.bc} {self.maxrt} "
                f"{fb(self.thr)} {self.probe} {fb(self.pe)} {self.active}")

    def invalid_loadres(self, rng, op="loadres"):
        """a per-resource load of an invalid rule: reported as an error, the rule in force stays (C13 outlier-invalid-keeps-old)"""
        k = rng.choice(["pe", "retry", "interval", "thr"])
        pe, retry, interval, thr = self.pe, self.retry, self.interval, self.thr
        if k == "pe":
            pe = rng.choice([1.5, 2.0, math.nextafter(1.0, 2.0)])
        elif k == "retry":
            retry = 0
        elif k == "interval":
            interval = 0
        else:
            thr = -1.0
        return (f"{op} {self.name} {self.strat} {retry} {self.minreq} {interval} {self.bc} {self.maxrt} "
                f"{fb(thr)} {self.probe} {fb(pe)} {self.active}")

    def change_cb(self, rng):
        """change exactly one field of the breaker part (never to a threshold within Float64Equals of the old one)"""
        f = rng.choice(["thr", "thr", "retry", "minreq", "probe", "maxrt", "bc", "interval", "strategy"])
        if f == "thr":
            if self.strat == 2:
                self.thr = float(rng.choice([x for x in (0, 1, 2, 3, 5) if x != self.thr]))
            else:
                self.thr = rng.choice([x for x in (0.0, 0.3, 0.5, 0.8, 1.0) if abs(x - self.thr) > 0.05])
        elif f == "retry":
            self.retry = rng.choice([x for x in (1, 50, 500, 1000, 3000, 60000) if x != self.retry])
        elif f == "minreq":
            self.minreq = rng.choice([x for x in (0, 1, 2, 5) if x != self.minreq])
        elif f == "probe":
            self.probe = rng.choice([x for x in (0, 1, 2, 3) if x != self.probe])
        elif f == "maxrt":          # breaker-relevant for the slow-request strategy only (else the old breakers are kept)
            self.maxrt = rng.choice([x for x in (0, 5, 50) if x != self.maxrt])
        elif f == "bc":
            self.bc = rng.choice([x for x in (0, 1, 2, 10, 3, 5) if x != self.bc])
        elif f == "interval":
            self.interval = rng.choice([x for x in (100, 1000, 10000) if x != self.interval])
        else:
            old = self.strat
            self.strat = rng.choice([x for x in (0, 1, 2) if x != old])
            if self.strat == 2:
                self.thr = float(rng.choice([1, 2, 3]))
            elif old == 2:
                self.thr = rng.choice([0.3, 0.5, 1.0])
        return f

    def L(self):
        return self.interval // (self.bc if self.bc and self.interval % self.bc == 0 else 1)


def gen_call(rng, R_, a, bad):
    """one request to address a with a bad (slow / failing) or good outcome under rule R_; returns (op, rt)"""
    if R_.strat == 0:
        rt = rng.choice([R_.maxrt + 1, R_.maxrt + 100]) if bad else rng.choice([0, R_.maxrt])
        oc = rng.choice(["ok", "err"]) if rng.random() < 0.2 else "ok"
    else:
        rt = rng.choice([0, 0, 1, 7, 100])
        oc = "err" if bad else "ok"
    return f"call {R_.name} {a} {oc} {rt}", rt


def random_rule(rng, name, nn):
    strat = rng.choice([0, 1, 2, 2])
    thr = float(rng.choice([0, 1, 1, 2, 3])) if strat == 2 else rng.choice([0.0, 0.3, 0.5, 0.5, 1.0])
    return R(name, strat, rng.choice([1, 50, 500, 1000, 3000]), rng.choice([0, 0, 1, 2, 5]), rng.choice([100, 1000, 1000, 10000]),
             rng.choice([0, 1, 2, 10, 3, 5]), rng.choice([0, 5, 50]), thr, rng.choice([0, 1, 1, 2, 3]), pick_percent(rng, nn),
             rng.choice([0, 0, 1]))


def recovery_ops(rng, ru):
    """the rule's recovery fields (only the retryer's timers read them): MaxRecoveryAttempts over {0, 1, 2, large} with active
    recovery on and off; RecoveryIntervalMs 0 (zero value) only for rules that stay passive, because with active recovery the
    retryer would then re-check in a real-time hot loop.  Sets ru.no_fail (no failing `check` ops: with MaxRecoveryAttempts = 0 a
    failed check re-arms time.AfterFunc(0) forever) and ru.stay_passive."""
    ru.no_fail, ru.stay_passive = False, False
    if rng.random() < 0.5:
        return []
    ma = rng.choice([0, 0, 1, 2, 4000000000])
    ims = 4000
    if ru.active == 0 and rng.random() < 0.3:
        ims, ru.stay_passive = 0, True
    ru.no_fail = ma == 0
    return [f"recovery {ru.name} {ma} {ims}"]


def gen_recycle_scenario(rng, cid):
    """eject + schedule some nodes, then (often) reload the rule — identical / percent or recovery fields only / one breaker
    field changed (rebuilds every breaker Closed) — let scheduled nodes complete successfully (or not), fire their recycle
    timers, look at the node count again."""
    nn = rng.choice([1, 2, 2, 3, 4, 6])
    strat = rng.choice([1, 2, 2, 0])
    thr = 1.0 if strat == 2 else 0.5
    ru = R("r", strat, rng.choice([50, 1000, 60000]), rng.choice([0, 1]), rng.choice([1000, 10000]), rng.choice([0, 1, 2]),
           5, thr, rng.choice([1, 1, 2, 0]), rng.choice([0.5, 1.0, 1.0, pick_percent(rng, nn)]), rng.choice([0, 0, 1]))
    ops = recovery_ops(rng, ru) + [ru.load(rng)]
    now = T0
    addrs = make_addrs(rng, nn)
    dead = [a for a in addrs if rng.random() < 0.7] or [addrs[0]]
    for a in addrs:
        for _ in range(rng.choice([1, 2])):
            o, rt = gen_call(rng, ru, a, a in dead)
            now += rt
            ops.append(o)
    ops.append("probe r")                      # the outliers are handed to the recycler here
    kind = rng.choice(["cb", "cb", "cb", "same", "pe", "active", "none", "drop"])
    if kind == "cb":
        ru.change_cb(rng)
    elif kind == "pe":
        ru.pe = pick_percent(rng, nn)
    elif kind == "active" and not ru.stay_passive:
        ru.active = 1 - ru.active
    elif kind == "drop":
        # the rule is dropped (bulk set without it / per-resource clear / invalid bulk rule) and loaded again: nodes forgotten
        ops.append(rng.choice(["unload r", "unload r", "clearres r", ru.invalid_loadres(rng, op="load")]))
        if rng.random() < 0.5:
            ops.append("probe r")
    if kind != "none":
        ops.append(ru.load(rng))
    if rng.random() < 0.5:
        now += rng.choice([1, ru.retry, ru.retry + 1])
        ops.append(f"clock {now}")
    healed = []
    for a in dead:
        r = rng.random()
        if r < 0.6:
            for _ in range(rng.choice([1, 1, 2, 3])):
                o, rt = gen_call(rng, ru, a, False)
                now += rt
                ops.append(o)
            healed.append(a)
        elif r < 0.7 and ru.active:
            ops.append(f"retry r {a} 0")
        elif r < 0.8:
            o, rt = gen_call(rng, ru, a, True)
            now += rt
            ops.append(o)
    # active recovery: checks that keep failing (or succeed) after the real traffic went through, then a quiet period
    if ru.active and not (ru.strat == 0 and ru.maxrt == 0):
        for a in dead:
            if rng.random() < 0.6:
                ops.append(f"check r {a} {'ok' if ru.no_fail else rng.choice(['fail', 'fail', 'ok'])}")
    if rng.random() < 0.3:
        ops.append("probe r")
    for a in rng.sample(addrs, len(addrs)):
        if a in dead or rng.random() < 0.3:
            ops.append(f"recycle r {a}")
    ops.append("probe r")
    for a in addrs[:2]:
        o, rt = gen_call(rng, ru, a, rng.random() < 0.5)
        ops.append(o)
    ops.append("probe r")
    return Case(cid, ops, tags=("recycle-scenario", kind))


def gen_case(rng, cid, known_region=False):
    nn = rng.choice([0, 1, 1, 2, 3, 3, 4, 5, 7, 10, 16, rng.randint(0, 40)])
    ru = random_rule(rng, "r", nn)
    if known_region:
        # all nodes dead, percent = the double just below k/n whose product rounds up to k
        ru.strat, ru.thr, ru.minreq, ru.probe = 2, 1.0, 0, 1
        nn = rng.choice([3, 5, 6, 7, 9, 10, 11, 12, 13, 14, 15, 20, 25, 30])
        cands = []
        for k in range(1, nn):
            for p in (k / nn, math.nextafter(k / nn, 0.0)):
                if int(nn * p) > math.floor(nn * Fraction(p)):      # binary64 product rounds up past the exact floor
                    cands.append(p)
        ru.pe = rng.choice(cands) if cands else 1 / 3
    ops = recovery_ops(rng, ru) + [ru.load(rng)]
    # sometimes a second resource with its own rule over the same addresses (per-resource isolation)
    rules = {"r": ru}
    if not known_region and rng.random() < 0.12:
        s2 = rng.choice([1, 2])
        rules["s"] = R("s", s2, rng.choice([1, 50, 1000]), 0, 1000, rng.choice([0, 2]), 0, 1.0, rng.choice([0, 1, 2]),
                       pick_percent(rng, nn), rng.choice([0, 1]))
        ops.append(rules["s"].load(rng))
    addrs = make_addrs(rng, nn)
    # failure profile per node: probability of a bad completion
    prof = {}
    for a in addrs:
        prof[a] = 1.0 if known_region else rng.choice([0.0, 0.0, 0.2, 0.6, 1.0, 1.0])
    if rng.random() < 0.15 and not known_region:
        for a in addrs:
            prof[a] = 1.0                      # many nodes, all failing
    now = T0
    nops = rng.randint(5, 30) + 2 * nn
    seen = {name: [] for name in rules}
    names = sorted(rules)
    for i in range(nops):
        r = rng.random()
        res = rng.choice(names)
        cur = rules[res]
        sn = seen[res]
        if r < 0.22:
            d = rng.choice([0, 1, max(0, cur.retry - 1), cur.retry, cur.retry + 1, cur.L(), cur.interval, cur.interval + 1,
                            2 * cur.interval, rng.randint(0, 2 * cur.retry)])
            now += d
            ops.append(f"clock {now}")
        elif r < 0.73 and addrs:
            # first touch the not-yet-seen addresses, then random ones
            a = addrs[len(sn)] if len(sn) < nn and addrs[len(sn)] not in sn and rng.random() < 0.7 else rng.choice(addrs)
            if a not in sn:
                sn.append(a)
            o, rt = gen_call(rng, cur, a, rng.random() < prof[a])
            now += rt
            ops.append(o)
        elif r < 0.745:
            # a request whose callee address is empty: TraceCallee ignores it, nothing is recorded
            rt = rng.choice([0, 1, 7])
            now += rt
            ops.append(f"call {res} %E {rng.choice(['ok', 'err'])} {rt}")
        elif r < 0.83:
            ops.append(f"probe {res}")
        elif r < 0.84:
            ops.append("rules")                         # outlier.GetRules(): the rules in force
        elif r < 0.90 and sn:
            ops.append(f"recycle {res} {rng.choice(sn)}")
        elif r < 0.93 and sn and cur.active:
            # the retryer's timer callback: scripted check result (connectNode), or onConnected with a given rt
            if rng.random() < 0.6 and not (cur.strat == 0 and cur.maxrt == 0):
                ops.append(f"check {res} {rng.choice(sn)} {'ok' if getattr(cur, 'no_fail', False) else rng.choice(['ok', 'fail', 'fail'])}")
            else:
                ops.append(f"retry {res} {rng.choice(sn)} {rng.choice([0, 1, cur.maxrt + 1])}")
        elif r < 0.99 and not known_region:
            # reload in the middle of the history
            k = rng.random()
            if k < 0.08:
                ops.append(cur.invalid_loadres(rng))    # rejected: the old rule stays in force
                continue
            if k < 0.20:
                # the resource loses its rule and its node breakers — per-resource clear, a bulk load that omits it, or a
                # bulk load whose rule for it is invalid — then is loaded again (either path)
                ops.append(rng.choice([f"clearres {res}", f"unload {res}", f"unload {res}", cur.invalid_loadres(rng, op="load")]))
                if rng.random() < 0.5:
                    ops.append(f"probe {res}")
                if rng.random() < 0.5:
                    cur.pe = pick_percent(rng, nn)
            elif k < 0.30:
                pass                                    # identical
            elif k < 0.50:
                if not getattr(cur, "stay_passive", False):
                    cur.active = 1 - cur.active
            elif k < 0.68:
                cur.pe = rng.choice([pick_percent(rng, nn), 0.0, 0.25, 1.0])
            else:
                cur.change_cb(rng)                      # one breaker field: every node breaker is rebuilt Closed
            ops.append(cur.load(rng))
        else:
            ops.append(f"probe {res}")
    for name in names:
        ops.append(f"probe {name}")
    return Case(cid, ops, tags=("known-region",) if known_region else ())


_ctr = [0]


def gen(ctx, n):
    out = []
    for _ in range(n):
        _ctr[0] += 1
        x = ctx.rng.random()
        if x < 0.15:
            out.append(gen_recycle_scenario(ctx.rng, f"g{_ctr[0]}"))
        else:
            out.append(gen_case(ctx.rng, f"g{_ctr[0]}", known_region=(x < 0.21)))
    return out


def corpus():
    res = []
    for p in sorted(glob.glob(os.path.join(core.ROOT, "corpus", PROP, "*.ops"))):
        ops = [l.rstrip("\n") for l in open(p) if l.strip() and not l.startswith("#") and not l.startswith("case ")]
        res.append(Case(os.path.basename(p), ops, tags=("corpus",)))
    return res


def densify(ops, rng):
    out = []
    for o in ops:
        out.append(o)
        if rng.random() < 0.4 and o.split()[0] in ("call", "probe", "recycle", "retry", "check", "load", "loadres") and o.split()[1] in ("r", "s"):
            out.append("probe " + o.split()[1])
    return out


DIST = collections.Counter()


def nontrivial(case, impl):
    sig = []
    interesting = False
    loads = {}
    for l in impl:
        op, _, r = l.partition(" => ")
        if op.startswith("load ") or op.startswith("loadres "):
            t = op.split()
            DIST["loads via LoadRuleOfResource"] += t[0] == "loadres"
            DIST["loads via LoadRuleOfResource rejected (invalid)"] += r == "err"
            if r != "ok":
                if r == "invalid":
                    DIST["rule dropped (clearres / unload / invalid bulk rule)"] += 1
                    loads.pop(t[1], None)
                continue
            old = loads.get(t[1])
            if old is not None:
                DIST["reloads"] += 1
                DIST["reloads changing the breaker part"] += old[2:10] != t[2:10]
                DIST["reloads identical"] += old[1:] == t[1:]
                DIST["reloads changing only percent/active"] += (old[2:10] == t[2:10] and old[10:] != t[10:])
                DIST["reloads changing only percent/active, per-resource path"] += (old[2:10] == t[2:10] and old[10:] != t[10:] and t[0] == "loadres")
            loads[t[1]] = t
        if op.startswith("clearres ") or op.startswith("unload "):
            DIST["rule dropped (clearres / unload / invalid bulk rule)"] += 1
            loads.pop(op.split()[1], None)
        if op.startswith("check "):
            DIST["retryer checks (connectNode)"] += 1
            DIST["retryer checks failing"] += op.endswith(" fail")
        if op.startswith("recycle "):
            DIST["recycle ops"] += 1
        if not (op.startswith("call ") or op.startswith("probe ")):
            continue
        f = dict(x.split("=", 1) for x in r.split(" ") if "=" in x)
        try:
            n, nf = int(f["n"]), int(f["nf"])
            rej = 0 if f["rej"] == "[]" else f["rej"].count(",") + 1
            half = 0 if f["halfopen"] == "[]" else f["halfopen"].count(",") + 1
        except (KeyError, ValueError):
            continue
        DIST["checks"] += 1
        DIST["checks n=0"] += n == 0
        DIST["checks n=1"] += n == 1
        DIST["checks n>=10"] += n >= 10
        DIST["checks with rejecting nodes"] += rej > 0
        DIST["checks where the cap bites (nf < #rejecting)"] += nf < rej
        DIST["checks with filter non-empty"] += nf > 0
        DIST["checks with filter = all rejecting, non-empty"] += (nf == rej and nf > 0)
        DIST["checks with half-open nodes"] += half > 0
        DIST["checks with all nodes rejecting (n>=2)"] += (rej == n and n >= 2)
        if nf > 0 or half > 0:
            interesting = True
        sig.append((n, nf, rej, half))
    if interesting:
        return hash((case.ops[0], tuple(sig)))
    return None


# ------------------------------------------------------------------------------------------------------
# extra phases
# ------------------------------------------------------------------------------------------------------

def cap_cases(tier):
    """The float expression on its own.  `capdec n k`: p = k/100 (exhaustive n <= 4096 in the thorough tier);
    `cap n p`: p around k/n, where the rounded product can reach the next integer."""
    nmax = 4096 if tier == "thorough" else 300
    cases = []
    for k in range(0, 101):
        cases.append(Case(f"capdec-{k}", [f"capdec {n} {k}" for n in range(0, nmax + 1)]))
    m = 64 if tier == "thorough" else 24
    for n in range(1, m + 1):
        ops = []
        for k in range(0, n + 1):
            x = k / n
            for p in (x, math.nextafter(x, 0.0), math.nextafter(x, 2.0)):
                if 0.0 <= p <= 1.0:
                    ops.append(f"cap {n} {fb(p)}")
        cases.append(Case(f"cap-{n}", ops))
    return cases


def extra(ctx, eng):
    # 1. the float expression (a test, labelled as such): impl == model ties capF64 to the hardware product,
    #    the oracle checks code cap in {floor, floor-1} for decimals and <= exact floor (+1 = known finding) otherwise
    cs = cap_cases(ctx.tier)
    for i in range(0, len(cs), 40):
        eng.check(cs[i:i + 40], "cap-scan")
    ctx.cov["cap_scan_test"] = {"capdec_points": sum(len(c.ops) for c in cs if c.cid.startswith("capdec")),
                                "cap_points": sum(len(c.ops) for c in cs if c.cid.startswith("cap-"))}
    # 2. raw run: the harness prints the chosen filter set itself (depends on Go's map iteration order, so it is
    #    not compared with the model); the Lean oracle checks it against the model's rejecting set
    n = 300 if ctx.tier == "quick" else 3000
    cases = gen(ctx, n)
    impl, err = core.run_impl(eng.binary, PROP, core.cases_text(cases), extra_env={"C20_RAW": "1"})
    if impl is None:
        ctx.violation("raw-harness-error.txt", err, no_input=True)
        return
    judge, err = core.run_lean(PROP, "oracle", "\n".join(impl) + "\n")
    if judge is None:
        ctx.violation("raw-oracle-error.txt", err, no_input=True)
        return
    raw_lists = 0
    for case, il, jl in zip(cases, core.split_cases(impl), core.split_cases(judge)):
        i, _ = eng.spec_fail(il, jl)
        raw_lists += sum(1 for l in il if " nf=" in l and "nf=0 " not in l)
        if i is not None:
            body = eng.render(case.ops, il, il, jl, i, f"property {PROP} fails on the implementation (raw filter sets, case {case.cid}); "
                              "replay with C20_RAW=1 — the chosen set depends on map iteration order")
            ctx.violation(f"raw-{case.cid}.replay", body)
            break
    ctx.cov["raw_filter_sets_judged"] = raw_lists
    ctx.cov["check_distribution"] = dict(DIST)


def run(ctx):
    return std.run(ctx, __import__("checks.C20", fromlist=["x"]), extra=extra)


META = {
    "technique": "Lean 4 proof (closed form of the checkAllNodes loop for every iteration order, recycler-map invariant, exact binary64 product) "
                 "+ differential correspondence model/impl on a slot chain + trace oracle",
    "level_text": ("Theorems in lean/Sentinel/Props/C20.lean, kernel-checked for every node list, every iteration order (permutation), every breaker "
                   "state and every cap: the filter list is the first `cap` rejecting nodes in iteration order, hence a duplicate-free subset of the nodes whose "
                   "breaker answered TryPass=false, of size exactly min(cap, #rejecting) <= cap; the half-open list is exactly the passively probed nodes; "
                   "a node marked recovered since it was scheduled survives the recycler's timer whatever else happens to the map. The cap is the code's "
                   "int(float64(n)*p) modelled exactly in natural-number arithmetic (capF64, round-to-nearest-even), proved to lie in {floor(n*p), floor(n*p)+1} "
                   "with the +1 attained (known finding cap-float-roundup: 3 nodes, p = the double 1/3). The model is tied to core/outlier by running the same "
                   "op files through a real slot chain (virtual clock, real per-node breakers read back) and the compiled Lean driver; a Lean oracle judges "
                   "every observed request, including the raw order-dependent filter sets."),
    "level_note": ("Trusted: Lean kernel; axioms propext/Classical.choice/Quot.sound; Go harness (go:linkname read access to the node-breaker map and the "
                   "recycler/retryer callbacks, virtual util.Clock, canonical printing: an order-dependent proper subset of the rejecting set is printed as `*` "
                   "in the compared run and verbatim in the raw run). Modelled not verified: breaker threshold comparison in binary64 (Lean Float in the driver, "
                   "a parameter in the theorems); timers (time.AfterFunc, real time) and the channel hand-off to the background loops are replaced by direct "
                   "calls; sequential use only (the node-map race is C15). Decimal percentages k/100: cap in {floor(n*k/100)-1, floor(n*k/100)} checked "
                   "exhaustively for n <= 4096 (a test)."),
    "design_ref": "DESIGN.md 6.C20",
}
