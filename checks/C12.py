"""C12 — breaker transitions are atomic and probes exclusive under concurrency (schedule correspondence)."""
import itertools
import struct
import sys

from vlib.core import Case

PROP = "C12"
SPEC_MODE = "oracle"
KEEP_PREFIX = 1
SIZES = {"quick": 30000, "thorough": 290000}
BATCH = 5000
SEARCH_TRIES = 60
EXTRA_MODULES = ("Sentinel.Lemmas.BreakerRace",)
RULE = ("cases = one real breaker (error count / error ratio / slow ratio; timeout (incl. non-round values 997/1001/1009/3333/12345 ms), minRequestAmount, threshold, probeNum varied) + a sequential "
        "set-up phase (closed / just opened / open one ms before the deadline / open at the deadline / half-open with the probe outstanding) + one "
        "concurrent phase of 2-3 threads running TryPass (optionally blocked afterwards -> exit-hook rollback) and OnRequestComplete calls under an "
        "explicit schedule of cb.* yield-point steps and clock ticks. Part 1 (deterministic): for every set-up and every ordered pair of single-call "
        "threads ALL interleavings (binary strings with exactly maxsteps(t) entries per thread; finished threads are skipped, the rest drained), for the "
        "base configuration in quick and for all configurations in thorough; part 2: the same with a tick of timeout-1/timeout ms inserted and with "
        "two-call threads (sampled); part 3: random 2-3 thread programs (1-3 calls) with random schedules, a fixed slice aimed at each known-finding "
        "window. rule reloads (LoadRules with an identical / equal / tuned but stat-reusable rule as one schedule step `rd:`) while calls are under way on the old breaker object: 644 exhaustive cases in quick (11 592 in thorough) + 10 % of the random stream; two breakers per resource with LoadRulesOfResource(list) by one thread — `x` entries = yield points inside the rebuild — interleaved with request threads: 336 exhaustive cases in quick (2 016 in thorough) + 8 % of the random stream; requests through contexts without a SentinelEntry (`tpn`) in the random programs; the harness clock yields (`cb.x.clock`) between the clock read and the deadline load of the retry check, so schedules separate the two; 8 % two-probe cases (two breakers that trip together, the first with a probe quota, so that entries of different threads hold probes of different breakers at once; real WhenExit/Exit hooks); non-trivial = the state word changed during the concurrent phase; distinct by (configuration, set-up, sequence of (thread, yield point) steps)")


def fbits(x):
    return "f:%016x" % struct.unpack(">Q", struct.pack(">d", x))[0]


# (kind, timeout, minReq, threshold, probeNum, maxRt, calls needed to trip when closed, ok call, failing call)
CONFIGS = [
    ("ec", 10, 1, "1", 0, 0, 1, "c:1:ok", "c:1:err"),
    ("ec", 10, 1, "1", 1, 0, 1, "c:1:ok", "c:1:err"),
    ("ec", 5, 2, "2", 2, 0, 2, "c:1:ok", "c:1:err"),
    ("sr", 10, 1, fbits(0.5), 0, 5, 1, "c:5:ok", "c:6:ok"),
    ("er", 1, 0, fbits(1.0), 0, 0, 1, "c:1:ok", "c:1:err"),
    ("er", 7, 2, fbits(0.5), 3, 0, 2, "c:1:ok", "c:1:err"),
    ("sr", 10, 2, fbits(0.5), 1, 5, 2, "c:5:ok", "c:6:ok"),
    # retry timeouts that are not round (in seconds they are not exact binary fractions): the set-ups `almost` / `due` probe
    # exactly at deadline - 1 / deadline, and the oracle checks every deadline store against now + RetryTimeoutMs
    ("ec", 1001, 1, "1", 0, 0, 1, "c:1:ok", "c:1:err"),
    ("ec", 1009, 1, "1", 1, 0, 1, "c:1:ok", "c:1:err"),
    ("er", 12345, 0, fbits(1.0), 0, 0, 1, "c:1:ok", "c:1:err"),
    ("sr", 3333, 1, fbits(0.5), 0, 5, 1, "c:5:ok", "c:6:ok"),
    ("ec", 997, 1, "1", 0, 0, 1, "c:1:ok", "c:1:err"),
]
SETUPS = ["closed", "opened", "almost", "due", "halfopen", "halfopen-late"]
MAXSTEPS = {"tp": 4, "tpb": 5, "tpn": 4, "c": 5, "rd": 1}


def steps_of(call):
    if call.startswith("rl:"):
        return 1 + call.count("x")
    return MAXSTEPS["c" if call.startswith("c:") else "rd" if call.startswith("rd:") else call]


def reload_item(c, how):
    """a rule reload for the resource of configuration c: same strategy and statistic geometry (always stat-reusable);
    how = same (identical rule: breaker kept) | thr | minreq | timeout | probe | maxrt (equal for ec/er, tuned for sr)"""
    kind, to, mr, thr, pn, mx = c[:6]
    if how == "thr":
        thr = str(int(thr) + 1) if kind == "ec" else fbits(0.75 if thr != fbits(0.75) else 0.25)
    elif how == "minreq":
        mr += 1
    elif how == "timeout":
        to *= 2
    elif how == "probe":
        pn += 1
    elif how == "maxrt":
        mx += 1
    return f"rd:{to}:{mr}:{thr}:{pn}:{mx}"


RELOADS = ["same", "thr", "thr", "minreq", "timeout", "probe", "maxrt"]


def cfg_line(c):
    return f"cb.new {c[0]} {c[1]} {c[2]} {c[3]} {c[4]} {c[5]}"


def setup_ops(c, kind):
    """sequential phases bringing the breaker into the wanted situation"""
    to, need, bad = c[1], c[6], c[8]
    ops = []
    if kind == "closed":
        return ops
    ops += ["thread 0 " + " ".join([bad] * need), "sched"]
    if kind == "opened":
        return ops
    if kind == "almost":
        return ops + [f"sched tick:{to - 1}"]
    ops.append(f"sched tick:{to}")
    if kind == "due":
        return ops
    ops += ["thread 0 tp", "sched"]
    if kind == "halfopen-late":
        ops.append(f"sched tick:{to}")
    return ops


def case_of(cid, c, setup, progs, sched, tags=()):
    ops = [cfg_line(c)] + setup_ops(c, setup)
    for i, p in enumerate(progs):
        ops.append(f"thread {i} " + " ".join(p))
    ops += ["sched " + " ".join(str(x) for x in sched), "results", "log", "final"]
    return Case(cid, ops, tags=(c[0], f"probe={c[4]}", setup, f"threads={len(progs)}") + tuple(tags))


def interleavings(counts):
    """all sequences over thread ids with exactly counts[i] entries of thread i"""
    if len(counts) == 2:
        a, b = counts
        for pos in itertools.combinations(range(a + b), a):
            s = [1] * (a + b)
            for p in pos:
                s[p] = 0
            yield s
    else:
        items = [i for i, k in enumerate(counts) for _ in range(k)]
        seen = set()
        for p in itertools.permutations(items):
            if p not in seen:
                seen.add(p)
                yield list(p)


def menu(c):
    return ["tp", "tpb", c[7], c[8]]


def exhaustive(configs):
    for ci, c in enumerate(configs):
        for setup in SETUPS:
            for a in menu(c):
                for b in menu(c):
                    for k, s in enumerate(interleavings([steps_of(a), steps_of(b)])):
                        yield case_of(f"x{ci}-{setup}-{a}-{b}-{k}", c, setup, [[a], [b]], s, ("exhaustive",))


def exhaustive_reload(configs, setups):
    """a call that is under way on the old breaker object while another thread reloads the rule and then sends a request"""
    for ci, c in enumerate(configs):
        for setup in setups:
            for a in (c[8], "tp"):
                for how in ("thr", "same"):
                    progs = [[a], [reload_item(c, how), "tp"]]
                    for k, s in enumerate(interleavings([steps_of(a), 1 + 4])):
                        yield case_of(f"r{ci}-{setup}-{a}-{how}-{k}", c, setup, progs, s, ("exhaustive-reload",))


def reload_case(rng, cid, c):
    """2-3 threads, one or two of them reload the rule somewhere in their program"""
    progs = [rand_prog(rng, c, 2) for _ in range(rng.choice([2, 3, 3]))]
    for _ in range(rng.choice([1, 1, 2])):
        p = rng.choice(progs)
        p.insert(rng.randint(0, len(p)), reload_item(c, rng.choice(RELOADS)))
    return case_of(cid, c, rng.choice(SETUPS), progs, rand_sched(rng, progs, c), ("reload",))


LIST_SPECS = ["0,1,x", "1,0,x", "x,0,1", "0,x,1", "0,x", "1,x", "0,1,2,x", "2,x,0,1", "x,2,x", "0,1", "1,0", "0,1,x,x"]


def list_case(cid, c, opened, tick, spec, others, sched, tags=(), init="0,1"):
    """two breakers per resource (rule 0 = the configuration, rule 1 = the same with minRequestAmount + 100, rule 2 = double retry
    timeout), optionally rule 0's breaker opened, then LoadRulesOfResource(spec) by thread 0 — `x` = a yield point inside the
    rebuild — interleaved with the requests of the other threads"""
    kind, to, mr, thr, pn, mx = c[:6]
    ops = [cfg_line(c), f"rule 1 {to} {mr + 100} {thr} {pn} {mx}", f"rule 2 {2 * to} {mr} {thr} {pn} {mx}",
           f"rule 3 {to} {mr} {thr} {pn + 2} {mx}", f"thread 0 rl:{init}", "sched"]
    if opened:
        ops += ["thread 0 " + " ".join([c[8]] * c[6]), "sched"]
    if tick:
        ops.append(f"sched tick:{tick}")
    first = 0
    if spec is not None:
        ops.append(f"thread 0 rl:{spec}")
        first = 1
    for i, p in enumerate(others):
        ops.append(f"thread {i + first} " + " ".join(p))
    ops += ["sched " + " ".join(str(x) for x in sched), "results", "log", "final"]
    return Case(cid, ops, tags=(c[0], f"probe={c[4]}", "list-" + ("open" if opened else "closed"), f"threads={1 + len(others)}") + tuple(tags))


def exhaustive_list(configs):
    for ci, c in enumerate(configs):
        for opened, tick in ((True, 0), (True, c[1]), (False, 0)):
            for spec in ("0,1,x", "1,0,x", "0,x", "x,0,1"):
                other = ["tp", "tp"]
                for k, s in enumerate(interleavings([1 + spec.count("x"), 8])):
                    yield list_case(f"l{ci}-{int(opened)}-{tick}-{spec}-{k}", c, opened, tick, spec, [other], s, ("exhaustive-list",))


def list_reload_case(rng, cid, c):
    spec = rng.choice(LIST_SPECS)
    others = [rand_prog(rng, c, 3) for _ in range(rng.choice([1, 1, 2]))]
    progs = [["rl:" + spec]] + others
    opened = rng.random() < 0.7
    tick = rng.choice([0, 0, c[1] - 1, c[1]]) if opened else 0
    return list_case(cid, c, opened, tick, spec, others, rand_sched(rng, progs, c), ("list-reload",))


def two_probe_case(rng, cid, c):
    """two breakers on the resource, both tripping on the same completions, the first one with a probe quota (rule 3) so
    that callers get past it while it is HalfOpen: several entries can hold probes of different breakers at the same time
    (exit hooks of real SentinelEntry objects); requests with and without an entry, some blocked by a later slot"""
    init = rng.choice(["3,0", "3,0", "0,3", "3,3"])
    n = rng.choice([2, 3, 3])
    others = [[rng.choice(["tp", "tp", "tpb", "tpn"])] + rand_prog(rng, c, 2)[:rng.choice([0, 1, 2])] for _ in range(n)]
    sched = rand_sched(rng, [[x, x] for p in others for x in p], c, rng.choice([0, 0, 1]))
    # rand_sched numbers the doubled pseudo-programs: fold the ids back onto the real threads (two breakers = up to twice the steps)
    owner = [i for i, p in enumerate(others) for _ in p]
    sched = [owner[x] if isinstance(x, int) else x for x in sched]
    return list_case(cid, c, True, c[1], None, others, sched, ("two-probes",), init=init)


def rand_sched(rng, progs, c, n_ticks=None):
    total = sum(sum(steps_of(x) for x in p) for p in progs)
    ids = [i for i, p in enumerate(progs) for _ in range(sum(steps_of(x) for x in p))]
    rng.shuffle(ids)
    # bursts: let one thread run several steps in a row now and then
    if rng.random() < 0.4:
        ids.sort(key=lambda i: rng.random() + (0.5 if i == 0 else 0))
    s = ids[:rng.randint(max(1, total // 2), total)]
    to = c[1]
    for _ in range(rng.choice([0, 0, 1, 1, 2, 3]) if n_ticks is None else n_ticks):
        s.insert(rng.randint(0, len(s)), "tick:%d" % rng.choice([1, max(1, to - 1), to, to, to + 1, 2 * to]))
    return s


def rand_prog(rng, c, maxcalls=3):
    m = menu(c) + ["tp", c[8], "tpn"]
    return [rng.choice(m) for _ in range(rng.randint(1, maxcalls))]


def known_slice(rng, cid, c):
    """cases aimed at the windows of the known findings"""
    bad, ok, to = c[8], c[7], c[1]
    need = c[6]
    r = rng.random()
    if r < 0.4:      # opener parked between the CAS and the deadline store, TryPass races
        progs = [[bad], ["tp"] + rand_prog(rng, c, 1)]
        setup = "closed" if need == 1 else rng.choice(["closed", "halfopen"])
        if need > 1 and setup == "closed":
            progs[0] = [bad] * need
        pre = [0] * (3 + 4 * (len(progs[0]) - 1)) if setup == "closed" else [0, 0]
        s = pre + rand_sched(rng, progs, c, 0)
        return case_of(cid, c, setup, progs, s, ("slice:cas-store",))
    if r < 0.7:      # failed probe: HalfOpen->Open, deadline stale-but-past
        progs = [[bad], ["tp", "tp"], rand_prog(rng, c, 2)]
        s = [0, 0] + rand_sched(rng, progs, c)
        return case_of(cid, c, rng.choice(["halfopen", "halfopen-late"]), progs, s, ("slice:ho-store",))
    # ABA: a TryPass parked before its CAS across a whole probe cycle
    progs = [["tp"], ["tp", ok] + [bad] * need, rand_prog(rng, c, 2)]
    s = [0, 0] + [1] * rng.randint(8, 14) + rand_sched(rng, progs, c)
    return case_of(cid, c, "due", progs, s, ("slice:aba",))


def stream(ctx):
    rng = ctx.rng
    quick = ctx.tier == "quick"
    # part 1: exhaustive two-thread interleavings
    for case in exhaustive(CONFIGS[:1] if quick else CONFIGS[:6]):
        yield case
    for case in exhaustive_reload(CONFIGS[:1] if quick else CONFIGS[:6], ["closed", "halfopen"] if quick else SETUPS):
        yield case
    for case in exhaustive_list(CONFIGS[:1] if quick else CONFIGS[:6]):
        yield case
    i = 0
    while True:
        i += 1
        cid = f"g{ctx.seed}-{i}"
        c = rng.choice(CONFIGS)
        r = rng.random()
        if r < 0.12:
            yield known_slice(rng, cid, c)
        elif r < 0.20:
            yield reload_case(rng, cid, c)
        elif r < 0.28:
            yield list_reload_case(rng, cid, c)
        elif r < 0.36:
            yield two_probe_case(rng, cid, c)
        elif r < 0.45:   # part 2a: two single-call threads, all-steps schedule with ticks
            a, b = rng.choice(menu(c)), rng.choice(menu(c))
            progs = [[a], [b]]
            yield case_of(cid, c, rng.choice(SETUPS), progs, rand_sched(rng, progs, c, rng.choice([1, 2])), ("2t-tick",))
        elif r < 0.66:   # part 2b: two threads, up to three calls each
            progs = [rand_prog(rng, c), rand_prog(rng, c)]
            yield case_of(cid, c, rng.choice(SETUPS), progs, rand_sched(rng, progs, c), ("2t-multi",))
        else:            # part 3: three threads (sometimes four)
            progs = [rand_prog(rng, c) for _ in range(3 if rng.random() < 0.85 else 4)]
            yield case_of(cid, c, rng.choice(SETUPS), progs, rand_sched(rng, progs, c), ("3t",))


_streams = {}


def gen(ctx, n):
    st = _streams.get(id(ctx))
    if st is None:
        st = _streams[id(ctx)] = stream(ctx)
    return list(itertools.islice(st, n))


def corpus():
    import glob, os
    from vlib.core import ROOT
    res = []
    for p in sorted(glob.glob(os.path.join(ROOT, "corpus", PROP, "*.ops"))):
        ops = [l.rstrip("\n") for l in open(p) if l.strip() and not l.startswith("#") and not l.startswith("case ")]
        res.append(Case(os.path.basename(p), ops, tags=("corpus",)))
    return res


def densify(ops, rng):
    """perturb the schedule of the last concurrent phase (swap / drop / duplicate entries, add a tick)"""
    idx = [i for i, o in enumerate(ops) if o.startswith("sched ")]
    if not idx:
        return ops
    k = idx[-1]
    s = ops[k].split()[1:]
    for _ in range(rng.randint(1, 3)):
        r = rng.random()
        if r < 0.4 and len(s) > 1:
            i, j = rng.randrange(len(s)), rng.randrange(len(s))
            s[i], s[j] = s[j], s[i]
        elif r < 0.6 and s:
            del s[rng.randrange(len(s))]
        elif r < 0.8 and s:
            s.insert(rng.randrange(len(s) + 1), rng.choice(s))
        else:
            s.insert(rng.randrange(len(s) + 1), "tick:%d" % rng.choice([1, 4, 5, 9, 10]))
    out = list(ops)
    out[k] = "sched " + " ".join(s)
    return out


def nontrivial(case, impl):
    scheds = [l for l in impl if l.startswith("sched")]
    if not scheds:
        return None
    last = scheds[-1].partition(" => ")[2].split()
    states = ["".join(f.split(",")[1] for f in t.split(":") if f.startswith("W")) for t in last]
    if len(set(states)) < 2:
        return None
    return hash((case.ops[0], tuple(case.tags[2:3]), tuple(t.split(":")[0] + t.split(":")[1] for t in last)))


def run(ctx):
    """standard flow + one extra phase: the oracle's verdicts (computed from the implementation's trace) must coincide with
    the verdicts computed from the model's monitor fields — the ones the theorems are about (`ghost` mode of the driver)"""
    from vlib import std, core

    def extra(ctx, eng):
        n = 4000 if ctx.tier == "quick" else 40000
        st = stream(ctx)
        quick = ctx.tier == "quick"
        skip = (sum(1 for _ in exhaustive(CONFIGS[:1] if quick else CONFIGS[:6]))
                + sum(1 for _ in exhaustive_reload(CONFIGS[:1] if quick else CONFIGS[:6], ["closed", "halfopen"] if quick else SETUPS))
                + sum(1 for _ in exhaustive_list(CONFIGS[:1] if quick else CONFIGS[:6])))
        cases = list(itertools.islice(st, skip, skip + n))
        text = core.cases_text(cases)
        impl, err = core.run_impl(eng.binary, PROP, text)
        if impl is None:
            ctx.violation("ghost-harness-error.txt", str(err), no_input=True)
            return
        orc, err = core.run_lean(PROP, "oracle", "\n".join(impl) + "\n")
        gh, err2 = core.run_lean(PROP, "ghost", text)
        if orc is None or gh is None:
            ctx.violation("ghost-driver-error.txt", str(err) + str(err2), no_input=True)
            return
        diff = core.compare(orc, gh)
        ctx.cov["oracle_vs_model_monitors_cases"] = len(cases)
        if diff is not None:
            body = (f"oracle verdict and the verdict derived from the model's monitor fields differ at line {diff}:\n"
                    f"oracle: {orc[diff] if diff < len(orc) else '<missing>'}\nmodel : {gh[diff] if diff < len(gh) else '<missing>'}\n")
            ctx.violation("oracle-vs-monitors.txt", body, no_input=True)

    return std.run(ctx, sys.modules[__name__], extra=extra)


META = {
    "technique": ("Lean 4 proof (inductive invariants of a small-step interleaving model at atomic-access granularity, any number of threads, any schedule) "
                  "+ schedule correspondence: the same schedules are executed on the real breaker through the yield hooks and on the model, compared step by step"),
    "level_text": ("Theorems in lean/Sentinel/Props/C12.lean, kernel-checked for every configuration, any number of threads with arbitrary programs of "
                   "TryPass / OnRequestComplete calls (spawned at any time) and every schedule of atomic-access steps and clock ticks: the state word only "
                   "changes by a won CAS along a legal edge and the transition history is a path from Closed (log_is_path); every won CAS is reported to the "
                   "listeners exactly once, by its winner, with the CAS's expected value as prev (transition_once); with probeNum = 0 a TryPass returns true "
                   "only by reading Closed or by winning Open->HalfOpen, so nothing is admitted while the word is HalfOpen (single_probe). "
                   "no_early_admission is FALSE on the pinned code (early_probe_witness, aba_witness, by decide) and is proved outside the two classified "
                   "windows (no_early_admission_partial); the order in which different threads' listener calls arrive is not part of the property and not judged (the CAS history is the path; listener_order_partial shows the log equals it when notifications do not overlap with other threads' steps). After a rule reload every breaker object (live or retired) is such a breaker and a call bound to one object never touches the words of another; the published breaker list changes only when a load completes and a load keeps every reused breaker's words (reload_objects_are_breakers, world_step_frame, world_step_keeps_list, rebuild_keeps_objects). The model is tied to "
                   "core/circuitbreaker by running every schedule on the real breaker under the deterministic yield-hook scheduler and comparing, after "
                   "every step, yield points, state word, deadline, probe counter, listener calls and TryPass results; the same trace is judged by the oracle."),
    "level_note": ("Trusted: Lean kernel; axioms propext/Classical.choice/Quot.sound; the yield-hook scheduler (go/internal/sched) and the placement of the cb.* "
                   "hooks immediately before each atomic access; Go's sequentially consistent atomics (one step = one atomic access + thread-local code). "
                   "Modelled not verified: the breaker's window statistic is abstracted to (bad, total) — all traffic of a case is pinned into one bucket, its "
                   "own atomic accesses are not interleaved (that is C09); trip predicates of the ratio strategies are float expressions evaluated by the "
                   "driver and a parameter of the theorems; listeners are called synchronously by the transitioning goroutine (as in the code)."),
    "design_ref": "DESIGN.md 6.C12",
}
