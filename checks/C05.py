"""C05 — hot-parameter QPS rules shape each parameter value independently (hotspot.LoadRules + api.Entry)."""
import collections
import struct

from vlib.core import Case

PROP = "C05"
SPEC_MODE = "oracle"
KEEP_PREFIX = 2          # `clock` + first `load` lines are never removed by the shrinker
SIZES = {"quick": 1500, "thorough": 30000}
BATCH = 1500
EXTRA_MODULES = ("Sentinel.Lemmas.Hot", "Sentinel.Lemmas.HotSV", "Sentinel.Lemmas.HotSim")
RULE = ("5% `inflight` cases (a throttling rule that queues + 1-3 reject rules, `onsleep`: the reload is performed from inside the "
        "clock's Sleep of a queued request, i.e. while Slot.Check is in flight); 20% of the entries carry several WithArgs options; "
        "30% of the plain cases reload the rules 1-3 times mid-case (identical / changed limits / one rule split into several "
        "stat-reusable ones / merge / reorder / changed duration-capacity-behaviour / added rule); 3 per 1500 cases are capacity "
        "cases (`sweep`: 1-10k live values around the effective capacity, explicit ParamsMaxCapacity above / below the derived "
        "default, then early and late values visited again); otherwise: "
        "cases = one LoadRules (1-3 hotspot QPS rules over 1-2 resources: reject / throttling / a slice of invalid or unsupported ones; "
        "thresholds, bursts, durations, queueing limits, specific-item tables, param index incl. negative and out of range, param key, "
        "ParamsMaxCapacity 0 (default) or 1..6) followed by 20-160 api.Entry calls whose arguments/attachments are drawn from a pool of 1-9 "
        "values of kinds int,int64,string,bool,float64,struct{int,string},struct{string,string},[2]string,[2]int,nil (12% of the pools start with a pair of composite values that are != but print identically) (pool size both below and above the capacity), batch counts around "
        "threshold/threshold+burst, time steps around the pacing interval and the duration (0, 1, iv-1, iv, iv+1, D-1, D, D+1, 2D, random); "
        "fixed slices: known-finding region (threshold not dividing batch*D*1000, threshold > batch*D*1000), clock going backwards, int64 overflow; "
        "non-trivial = at least one admitted and one blocked/queued request and at least two distinct metered values; "
        "distinct by (rules, sequence of (value, batch, result kind))")

START = 1_900_000_000_000
DIST = collections.Counter()


def fbits(x):
    return "%016x" % struct.unpack(">Q", struct.pack(">d", x))[0]


def value_pool(rng, n):
    cands = []
    for _ in range(n * 3):
        k = rng.choice("iissbftlpaA")
        if k == "i":
            cands.append("v:i:%d" % rng.choice([0, 1, 2, 3, -1, 7, 42, rng.randint(-1000, 1000)]))
        elif k == "l":
            cands.append("v:l:%d" % rng.choice([0, 1, 2, 9000000000]))
        elif k == "s":
            cands.append("v:s:" + rng.choice(["", "a", "b", "c", "1", "true", "user%d" % rng.randint(0, 20)]))
        elif k == "b":
            cands.append("v:b:%d" % rng.randint(0, 1))
        elif k == "p":
            # struct{A,B string}; '.' = space: distinct values that print identically with %v
            cands.append("v:p:" + rng.choice(["acme.corp~bob", "acme~corp.bob", "a~b", "a.b~", "~a.b", "x~y", "~"]))
        elif k == "a":
            cands.append("v:a:" + rng.choice(["a.b~c", "a~b.c", "x~y", "~", "a~b"]))
        elif k == "A":
            cands.append("v:A:" + rng.choice(["1~2", "2~1", "0~0", "12~0"]))
        elif k == "f":
            cands.append("v:f:" + fbits(rng.choice([0.0, 1.0, 1.5, 2.0, -3.25, 1e300, float(rng.randint(0, 5))])))
        else:
            cands.append("v:t:%d_%s" % (rng.randint(0, 2), rng.choice(["", "a", "b"])))
    out = []
    if n >= 2 and rng.random() < 0.12:
        # a look-alike pair of composite values: != in Go, same printed form
        out = list(rng.choice([("v:p:acme.corp~bob", "v:p:acme~corp.bob"), ("v:p:a.b~", "v:p:~a.b"), ("v:a:a.b~c", "v:a:a~b.c"),
                               ("v:p:a~b", "v:a:a~b"), ("v:p:a.b~", "v:p:a~b")]))
        DIST["pool-with-lookalike-composites"] += 1
    for c in cands:
        if c not in out:
            out.append(c)
        if len(out) == n:
            break
    return out


def gen_rule(rng, res, pool, mode, finding):
    r = {"res": res, "cb": 0, "idx": 0, "key": "-", "T": 1, "burst": 0, "D": 1, "mq": 0, "cap": 0, "items": "-"}
    r["cb"] = 0 if mode == "reject" else 1
    r["D"] = rng.choice([1, 1, 1, 2, 3, 10])
    if mode == "reject":
        r["T"] = rng.choice([0, 1, 1, 2, 3, 5, 7, 10, 100])
        r["burst"] = rng.choice([0, 0, 0, 1, 3, 10])
    else:
        if finding:
            r["T"] = rng.choice([3, 7, 300, 999, 1001, 1500, 2000, 5000, 3001 * r["D"]])
        else:
            dm = r["D"] * 1000
            r["T"] = rng.choice([t for t in (1, 2, 4, 5, 8, 10, 20, 25, 50, 100, 125, 200, 250, 500, 1000) if dm % t == 0] + [0])
        r["mq"] = rng.choice([0, 0, 1, 5, 50, 100, 500, 1000, 2000, 5000])
    r["idx"] = rng.choice([0, 0, 0, 1, -1, -1, -2, 2, 5, -5])
    if rng.random() < 0.25:
        r["key"] = rng.choice(["k", "u"])
        if r["idx"] > 0:
            r["idx"] = rng.choice([0, -1])
    r["cap"] = rng.choice([0, 0, 1, 2, 2, 3, 3, 4, 6, 20000])
    if rng.random() < 0.4 and pool:
        items = []
        for v in rng.sample(pool, min(len(pool), rng.randint(1, 3))):
            items.append("%s@%d" % (v, rng.choice([0, 1, 2, r["T"] + 1, 3, 50, 3000])))
        r["items"] = ";".join(items)
    return r


def show_rule(r):
    return ",".join("%s=%s" % (k, r[k]) for k in ("res", "cb", "idx", "key", "T", "burst", "D", "mq", "cap", "items"))


def reload_rules(rng, rules, pool):
    """the rule set of the next generation: identical / modified limits / split / merge / reorder / changed statistic
    geometry (duration, capacity, behaviour => fresh) / added rule; returns (new rules, kind)"""
    rs = [dict(r) for r in rules]
    kind = rng.choice(["identical", "identical", "limits", "limits", "split", "split", "split", "merge", "reorder", "geometry", "add", "add", "add", "param"])
    r = rng.choice(rs)
    if kind == "limits":
        r["T"] = rng.choice([0, 1, 2, 3, 5, 10, r["T"] + 1])
        if r["cb"] == 0:
            r["burst"] = rng.choice([0, 1, 3, r["burst"]])
        else:
            r["mq"] = rng.choice([0, 5, 500, r["mq"]])
    elif kind == "split":
        # one old rule becomes two (or three) stat-reusable ones on other parameters / thresholds
        for _ in range(rng.choice([1, 1, 2])):
            c = dict(r)
            c["idx"] = rng.choice([0, 1, -1, 2])
            if rng.random() < 0.5:
                c["T"] = rng.choice([1, 2, 3, r["T"]])
            if rng.random() < 0.3:
                r["T"] = rng.choice([1, 2, r["T"] + 1])
            rs.insert(rng.randrange(len(rs) + 1), c)
    elif kind == "merge" and len(rs) > 1:
        rs.remove(r)
    elif kind == "reorder":
        rng.shuffle(rs)
    elif kind == "geometry":
        f = rng.choice(["D", "cap", "cb"])
        if f == "D":
            r["D"] = rng.choice([1, 2, 3])
        elif f == "cap":
            r["cap"] = rng.choice([0, 1, 2, 3, 6])
        else:
            r["cb"] = 1 - r["cb"] if r["cb"] in (0, 1) else 0
    elif kind == "add":
        rs.insert(rng.randrange(len(rs) + 1), gen_rule(rng, r["res"], pool, "reject", False))
    elif kind == "param":
        r["idx"] = rng.choice([0, 1, -1])
    if rng.random() < 0.3:
        x = rng.choice(rs)
        x["items"] = "-" if x["items"] != "-" else "%s@%d" % (rng.choice(pool), rng.choice([1, 2, 3]))
    return rs[:6], kind


def capacity_case(rng, cid):
    """thousands of live values around the cache capacity: explicit ParamsMaxCapacity above / below the derived default
    min(20000, 4000*D), or none; one request per value, then early and late values are visited again"""
    D = rng.choice([1, 1, 2])
    default = min(20000, 4000 * D)
    above = default + rng.choice([1, 100, 500, 1900])
    cap = rng.choice([0, above, above, above, default - rng.choice([1, 100, 1000, 3000]), default - rng.choice([1, 100, 1000, 3000]), default])
    eff = cap if cap > 0 else default
    lo, hi = min(eff, default), max(eff, default)
    n = rng.choice([eff - 1, eff, eff, eff + 1, eff + rng.randint(2, 300), (lo + hi) // 2, rng.randint(lo, hi), rng.randint(lo, hi), max(1, lo - rng.randint(1, 50))])
    n = max(2, n)
    cb = rng.choice([0, 0, 1])
    pre = rng.choice(["v:i:", "v:s:k", "v:l:", "v:t:1_"])
    now = START + rng.randint(0, 10 ** 6)
    ops = ["clock %d" % now,
           "load 1 res=r,cb=%d,idx=0,key=-,T=1,burst=0,D=%d,mq=0,cap=%d,items=-" % (cb, D, cap),
           "sweep r 1 %s 0 %d" % (pre, n)]
    for _ in range(rng.randint(2, 5)):
        a = rng.choice([0, 0, max(0, n - eff - 3), max(0, n - eff), n - 5, rng.randint(0, n - 1)])
        ops.append("sweep r 1 %s %d %d" % (pre, a, min(n + 2, a + rng.randint(1, 40))))
        if rng.random() < 0.3:
            ops.append("tick %d" % rng.choice([1, 1000 * D, 1000 * D + 1]))
    DIST["slice:capacity"] += 1
    DIST["capacity:" + ("explicit>default" if cap > default else "explicit<default" if 0 < cap < default else "default")] += 1
    DIST["capacity:live" + (">cap" if n > eff else "<=cap")] += 1
    return Case(cid, ops, tags=("capacity", "cap=%d" % cap, "n=%d" % n))


def gen_case(rng, cid):
    u = rng.random()
    slice_ = ("finding" if u < 0.12 else "backwards" if u < 0.14 else "overflow" if u < 0.17 else "invalid" if u < 0.22
              else "inflight" if u < 0.27 else "plain")
    npool = rng.choice([1, 2, 2, 3, 3, 4, 5, 6, 9])
    pool = value_pool(rng, npool)
    resources = ["r"] if rng.random() < 0.8 else ["r", "q"]
    rules = []
    for res in resources:
        nr = rng.choice([1, 1, 1, 2, 2, 3])
        thr_used = False
        for _ in range(nr):
            mode = "reject" if rng.random() < 0.55 else "throttle"
            if mode == "throttle" and thr_used and rng.random() < 0.9:
                mode = "reject"
            thr_used = thr_used or mode == "throttle"
            rules.append(gen_rule(rng, res, pool, mode, slice_ == "finding"))
    if slice_ == "inflight":
        # a throttling rule that really queues, followed by 1-3 reject rules on other parameters; requests close together
        resources = ["r"]
        t = gen_rule(rng, "r", pool, "throttle", False)
        t.update(T=rng.choice([2, 4, 5, 10]), D=1, mq=rng.choice([300, 1000, 2000]), idx=0, key="-", items="-", cap=0)
        rules = [t]
        for k in range(rng.choice([1, 2, 2, 3])):
            a = gen_rule(rng, "r", pool, "reject", False)
            a.update(idx=rng.choice([k + 1, k + 1, -1, -2]), key="-", T=rng.choice([1, 1, 2, 3, 100]), D=1, cap=rng.choice([0, 0, 3]))
            rules.append(a)
    if slice_ == "invalid":
        r = rng.choice(rules)
        k = rng.randrange(7)
        if k == 0:
            r["T"] = -1
        elif k == 1:
            r["D"] = rng.choice([0, -1])
        elif k == 2:
            r["idx"], r["key"] = 1, "k"
        elif k == 3:
            r["burst"] = -1 if r["cb"] == 0 else r["burst"]
            r["mq"] = -1 if r["cb"] == 1 else r["mq"]
        elif k == 4:
            r["cb"] = rng.choice([2, 7, -1])
        elif k == 5:
            r["res"] = "-"
        else:
            r["cap"] = -3
    if slice_ == "overflow":
        r = rng.choice(rules)
        k = rng.randrange(4)
        if k == 0:
            r["T"] = rng.choice([2 ** 62, 2 ** 63 - 1, 2 ** 53 + 1])
        elif k == 1:
            r["burst"] = 2 ** 63 - 1 if r["cb"] == 0 else r["burst"]
            r["mq"] = 2 ** 62 if r["cb"] == 1 else r["mq"]
        elif k == 2:
            r["D"] = rng.choice([2 ** 31, 10 ** 9, 9007199254741])
        else:
            r["T"], r["D"] = 1, rng.choice([4000000, 2 ** 33])
    now = START + rng.choice([0, 1, 999, rng.randint(0, 10 ** 7)])
    ops = ["clock %d" % now, "load %d %s" % (len(rules), " ".join(show_rule(r) for r in rules))]
    main = rng.choice(rules)
    dms = min(max(1, main["D"]) * 1000, 10 ** 7)
    focus = rng.sample(pool, min(len(pool), rng.choice([1, 1, 2, 3, 9])))
    if len(pool) >= 2 and pool[0] in ("v:p:acme.corp~bob", "v:p:a.b~", "v:a:a.b~c", "v:p:a~b") and pool[1][2] in "pa":
        focus = list(dict.fromkeys(pool[:2] + focus))      # the look-alike pair gets the traffic
    nent = rng.randint(20, 160)
    maps = []
    if rng.random() < (0.6 if any(r["key"] != "-" for r in rules) else 0.15):
        for m in rng.sample(["m", "n"], rng.choice([1, 1, 2])):
            kv = ["%s=%s" % (k, rng.choice(pool + ["v:n:"])) for k in rng.sample(["k", "u", "z"], rng.choice([0, 1, 1, 2]))]
            ops.append(("attmap %s %d %s" % (m, len(kv), " ".join(kv))).rstrip())
            maps.append(m)
        DIST["cases-with-caller-owned-attachment-map"] += 1
    reload_at = set()
    if slice_ == "inflight" or (slice_ in ("plain", "finding") and rng.random() < 0.3):
        reload_at = set(rng.sample(range(1, nent), min(nent - 1, rng.choice([1, 1, 2, 3, 4] if slice_ == "inflight" else [1, 1, 2, 3]))))
    for step in range(nent):
        if step in reload_at:
            rules2, kind = reload_rules(rng, rules, pool)
            if slice_ == "inflight" or (rng.random() < 0.25 and any(r["cb"] == 1 for r in rules)):
                # the reload is done by another goroutine while the next queued request sleeps; it stays armed until a
                # request is queued, so the generator does not know when it takes effect: keep using the old rules for
                # shaping the traffic
                if rng.random() < 0.1:
                    rules2 = rules2 + ["-"]
                ops.append("onsleep %d %s" % (len(rules2), " ".join(r if r == "-" else show_rule(r) for r in rules2)))
                DIST["reload-while-queued:" + kind] += 1
            else:
                rules = rules2
                if rng.random() < 0.05:
                    ops.append("load %d %s -" % (len(rules) + 1, " ".join(show_rule(r) for r in rules)))
                    DIST["load-with-nil-rule"] += 1
                else:
                    ops.append("load %d %s" % (len(rules), " ".join(show_rule(r) for r in rules)))
                DIST["reload:" + kind] += 1
        # time
        if rng.random() < (0.6 if slice_ != "inflight" else 0.3):
            T = main["T"] if main["T"] > 0 else 1
            iv = dms // T if T < 2 ** 40 else 0
            d = rng.choice([0, 0, 0, 1, 1, 2, max(0, iv - 1), iv, iv + 1, iv // 2, dms - 1, dms, dms + 1, 2 * dms, 2 * dms + 1, rng.randint(0, dms), rng.randint(0, 3 * dms)])
            if slice_ == "backwards" and rng.random() < 0.15:
                now -= rng.choice([1, 5, dms])
                ops.append("clock %d" % now)
            else:
                now += d
                ops.append("tick %d" % d)
        res = rng.choice(resources) if rng.random() < 0.95 else "other"
        T, B = main["T"], main["burst"]
        batch = rng.choice([1, 1, 1, 1, 1, 2, 3, 0, max(0, T), T + 1, max(0, T + B), T + B + 1, max(0, T - 1)])
        if slice_ == "overflow" and rng.random() < 0.1:
            batch = rng.choice([2 ** 32 - 1, 2 ** 31])
        batch = min(batch, 2 ** 32 - 1)
        pick = lambda: rng.choice(focus) if rng.random() < 0.8 else rng.choice(pool + ["v:n:"])
        na = rng.choice([0, 1, 1, 1, 1, 2, 2, 3]) if slice_ != "inflight" else rng.choice([2, 3, 3, 4])
        args = [pick() for _ in range(na)]
        if rng.random() < 0.2:
            # several WithArgs options on one Entry (their arguments are appended): `+` separates the options
            for _ in range(rng.choice([1, 1, 2])):
                args.insert(rng.randrange(len(args) + 1), "+")
            na = len(args)
            DIST["entry-multi-WithArgs"] += 1
        atts = []
        if maps and rng.random() < 0.1:
            # the caller changes its own map between calls
            m = rng.choice(maps)
            kv = ["%s=%s" % (k, pick()) for k in rng.sample(["k", "u", "z"], rng.choice([0, 1, 1, 2]))]
            ops.append(("attmap %s %d %s" % (m, len(kv), " ".join(kv))).rstrip())
        if maps and rng.random() < 0.5:
            # a caller-owned map passed as it is, with single WithAttachment options before / after it in the same call
            atts.append("@" + rng.choice(maps))
            for _ in range(rng.choice([0, 0, 1, 1, 2])):
                a = "!%s=%s" % (rng.choice(["k", "u", "z"]), pick())
                atts.insert(rng.choice([len(atts), len(atts), 0]), a)
            if rng.random() < 0.15:
                atts.insert(rng.randrange(len(atts) + 1), "%s=%s" % (rng.choice(["k", "u", "z"]), pick()))
            DIST["entry-caller-owned-attachments"] += 1
            if len(atts) > 1:
                DIST["entry-caller-map+WithAttachment"] += 1
        elif rng.random() < 0.3:
            for k in rng.sample(["k", "u", "z"], rng.choice([1, 1, 2])):
                atts.append("%s=%s" % (k, pick()))
        ops.append("entry %s %d %d %s%d %s" % (res, batch, na, "".join(a + " " for a in args), len(atts), " ".join(atts)))
        ops[-1] = ops[-1].rstrip()
    DIST["slice:" + slice_] += 1
    if reload_at:
        DIST["cases-with-reload"] += 1
    caps = [20000 if r["cap"] <= 0 else r["cap"] for r in rules]
    DIST["pool>cap" if any(npool > c for c in caps) else "pool<=cap"] += 1
    for r in rules:
        DIST["rule:" + ("reject" if r["cb"] == 0 else "throttle" if r["cb"] == 1 else "unsupported")] += 1
        if r["items"] != "-":
            DIST["rule-with-specific-items"] += 1
        if r["idx"] < 0:
            DIST["rule-negative-index"] += 1
        if r["key"] != "-":
            DIST["rule-param-key"] += 1
    return Case(cid, ops, tags=(slice_, "pool=%d" % npool))


def gen(ctx, n):
    cases = [gen_case(ctx.rng, f"g{ctx.seed}-{i}-{ctx.rng.randrange(10**6)}") for i in range(n)]
    # a small fixed slice of capacity cases (thousands of live values): 3 per 1500 generated cases
    for j in range(max(1, (3 * n) // 1500)):
        cases.append(capacity_case(ctx.rng, f"cap{ctx.seed}-{j}-{ctx.rng.randrange(10**6)}"))
    return cases


def corpus():
    import glob
    import os
    from vlib.core import ROOT
    res = []
    for p in sorted(glob.glob(os.path.join(ROOT, "corpus", PROP, "*.ops"))):
        ops = [l.rstrip("\n") for l in open(p) if l.strip() and not l.startswith("#") and not l.startswith("case ")]
        res.append(Case(os.path.basename(p), ops, tags=("corpus",)))
    return res


def densify(ops, rng):
    """repeat entries (same instant and 1 ms later) after random entries: more pressure on buckets and pacing"""
    out = []
    for o in ops:
        out.append(o)
        if o.startswith("entry ") and rng.random() < 0.4:
            out.append(o)
            if rng.random() < 0.5:
                out.append("tick %d" % rng.choice([1, 333, 1000, 1001]))
                out.append(o)
    return out


def nontrivial(case, impl):
    seq = []
    vals = set()
    kinds = set()
    for l in impl:
        op, _, r = l.partition(" => ")
        t = op.split()
        if t[0] == "sweep":
            for g in r.split(";"):
                n_, _, rr = g.partition("x")
                k = "wait" if "w:" in rr else rr.split("_")[0]
                DIST["result:" + k] += int(n_)
                kinds.add(k)
            vals.update((t[3] + "0", t[3] + "1"))
            seq.append((tuple(t[1:]), r))
            continue
        if t[0] != "entry":
            continue
        k = "wait" if " w:" in r else r.split()[0] if r else "none"
        DIST["result:" + k] += 1
        if " reload:" in r:
            DIST["result:reload-while-queued"] += 1
        kinds.add(k)
        na = int(t[3])
        a = tuple(t[4:4 + na])
        for v in a:
            if v == "+":
                continue
            vals.add(v)
            DIST["kind:" + v.split(":")[1]] += 1
        seq.append((a, t[2], k))
    if "pass" in kinds and len(kinds) >= 2 and len(vals) >= 2:
        return hash((case.ops[1], tuple(seq)))
    return None


def run(ctx):
    import sys
    from vlib import std
    DIST.clear()

    def extra(ctx, eng):
        ctx.cov["generator_distribution"] = dict(DIST)

    return std.run(ctx, sys.modules[__name__], extra=extra)


META = {
    "technique": "Lean 4 proof (LRU + token-bucket / leaky-bucket invariants, projection of the multi-value controller onto one value) "
                 "+ differential correspondence model/impl through api.Entry + trace oracle for the literal claims",
    "level_text": ("Theorems in lean/Sentinel/Props/C05.lean, kernel-checked for all rule parameters, all monotone multi-value histories and all cache "
                   "capacities, about the very definitions the compiled driver runs against the code (Sentinel.Hot.rejectCheck / throttleCheck / LRU / "
                   "extract / slotCheck). The model is tied to core/hotspot by running the same op files through hotspot.LoadRules + api.Entry under a "
                   "virtual clock and through the Lean driver, comparing every decision, triggering rule and requested sleep; the oracle re-checks the "
                   "property's literal claims on the implementation trace."),
    "level_note": ("Trusted: Lean kernel; axioms propext/Classical.choice/Quot.sound; Go harness, virtual util.Clock, canonical value encoding (no NaN, "
                   "no -0). Modelled not verified: sequential use only (the CAS retry loops run once); int64 overflow is modelled (wrap) but the theorems "
                   "carry a no-wrap guard; metric type QPS only (concurrency is C06); rule reload/reuse is C14. Known finding hot-throttle-floor: "
                   "pacing holds for the code's floor interval, the real-valued batch*D/T only when T divides batch*D*1000."),
    "design_ref": "DESIGN.md 6.C05",
}
