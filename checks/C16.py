"""C16 — slot chain runs in order, short-circuits on first block, and fails open."""
from vlib.core import Case

PROP = "C16"
# the integrated default-chain model (all built-in rule-check slots at once) is an extra phase of this property:
# `bin/check C16 …` runs `checks/INT.py` afterwards and reports it under C16 (see notes/INT.md)
ALSO = ["INT"]
SPEC_MODE = "spec"
KEEP_PREFIX = 0
SIZES = {"quick": 6000, "thorough": 100000}
BATCH = 4000
EXTRA_MODULES = ("Sentinel.Lemmas.Chain", "Sentinel.Lemmas.ChainSim", "Sentinel.Lemmas.ChainExtra")
RULE = ("1-4 real base.SlotChain objects per case assembled by Add*Slot from 0-9 (6 % of chains: 13-48) recording slots per kind, order values drawn from a "
        "small colliding pool incl. 0 and 2^32-1 (35 % of chains additionally get order 0 / MaxUint32 / MaxUint32-1 slots added to non-empty buckets, 35 % a ShouldWait(0 or >0) rule slot placed before or on the order of a blocking one); rule slots pass / return nil / ShouldWait / panic / block (fresh result, pooled "
        "ctx.RuleCheckResult, slot-owned reused result) with block types 0-255; prepare and rule slots may register exit handlers "
        "(ok / error / panic); rule results are produced by every public constructor / in-place reset family (see BLOCK_STYLES, PASSING in the module); "
        "any slot may record ctx.SetError / ctx.SetPair without panicking (+e/+k/+ek, read back with `ctx <e> err|pair`); stat slots may panic in OnEntryPassed / OnEntryBlocked / OnCompleted; then 3-25 api.Entry calls "
        "(15 % of them without WithSlotChain, i.e. on api's global chain `*` carrying one recording slot of each kind) with overlapping lifetimes, caller-registered exit handlers, exits in shuffled order incl. double exits and `exit2` (two Exit calls "
        "overlapping deterministically), the virtual clock moved to 0 / 1 / huge / backwards in 40 % of cases, slots added to "
        "live chains, every kept *BlockError re-read after later traffic; slices: panic-free, block-heavy, panic-heavy, "
        "own-result aliasing hazard. non-trivial = a block error was re-read after at least one later entry reused a pooled context; "
        "distinct by (sorted chain shapes, outcome sequence)")

ORDER_POOLS = [
    [0, 1, 2],
    [0, 0, 1, 4294967295],
    [1000, 2000, 2000, 3000, 4000, 5000],
    [7],
    [4294967295, 4294967294, 0],
    [3, 1, 2, 2, 1, 3, 5, 8],
]


# every public way to produce a rule-check result:
#   blocking: bf NewTokenResultBlockedWithCause | bc ctx.RuleCheckResult.ResetToBlockedWithCause (the built-in slots) |
#             bo slot-owned result re-armed with ResetToBlockedWithCause | bn NewTokenResult(ResultStatusBlocked) (no option) |
#             bt NewTokenResult(ResultStatusBlocked, WithBlockType, WithRule) | bb NewTokenResultBlocked(type) |
#             bm NewTokenResultBlockedWithMessage(type, msg) |
#             br / bs ctx.RuleCheckResult.ResetToPass() then .ResetToBlocked(type) / .ResetToBlockedWithMessage(type, msg) |
#             bd ctx.RuleCheckResult.DeepCopyFrom(NewTokenResultBlockedWithCause(...))
#   passing:  pass NewTokenResultPass() | pass1 NewTokenResult(ResultStatusPass) | nil | wait/wait0 NewTokenResultShouldWait(>0/0) |
#             wait1 NewTokenResult(ResultStatusShouldWait)
BLOCK_STYLES = ["bf", "bc", "bo", "bn", "bt", "bb", "bm", "br", "bs", "bd"]
PASSING = ["pass", "pass", "pass1", "nil", "nil", "wait", "wait0", "wait1"]


def gen_note(rng, prof):
    """+e ctx.SetError(err), +k ctx.SetPair(key, id), +ek both — recorded without panicking, before the slot behaves"""
    return rng.choice(["+e", "+e", "+k", "+ek"]) if rng.random() < prof.get("note", 0.12) else ""


def gen_slot(rng, kind, sid, pool, prof):
    order = rng.choice(pool) if rng.random() < 0.9 else rng.randint(0, 4294967295)
    hook = ""
    if kind in "pr" and rng.random() < prof["hook"]:
        hook = ":" + rng.choices(["hok", "herr", "hpanic"], [5, 2, prof["hpanic"]])[0]
    nt = gen_note(rng, prof)
    if kind == "p":
        beh = "panic" if rng.random() < prof["ppanic"] else "ok"
        return f"p:{sid}:{order}:{beh}{nt}{hook}"
    if kind == "r":
        r = rng.random()
        if r < prof["block"]:
            st = rng.choices(BLOCK_STYLES, [3, 4, prof["own"], 2, 2, 2, 2, 1.5, 1.5, 1.5])[0]
            typ = 0 if st == "bn" else rng.choice([0, 1, 2, 3, 4, 5, 5, 1, 2, 255, rng.randint(0, 255)])
            beh = f"{st}{typ}"
        elif r < prof["block"] + prof["rpanic"]:
            beh = "panic"
        else:
            beh = rng.choice(PASSING)
        return f"r:{sid}:{order}:{beh}{nt}{hook}"
    r = rng.random()
    if r < prof["spanic"]:
        beh = rng.choice(["pp", "pb", "pc"])
    else:
        beh = "ok"
    return f"s:{sid}:{order}:{beh}{nt}"


PROFILES = {
    # name: probabilities
    "clean":  dict(hook=0.15, hpanic=0, ppanic=0, block=0.25, rpanic=0, spanic=0, own=2),
    "blocky": dict(hook=0.2, hpanic=1, ppanic=0.02, block=0.5, rpanic=0.03, spanic=0.03, own=3),
    "panicky": dict(hook=0.25, hpanic=3, ppanic=0.12, block=0.3, rpanic=0.15, spanic=0.25, own=2),
    "hazard": dict(hook=0.1, hpanic=1, ppanic=0, block=0.6, rpanic=0, spanic=0.3, own=12),
    "mixed":  dict(hook=0.2, hpanic=1, ppanic=0.05, block=0.3, rpanic=0.07, spanic=0.1, own=3),
    # slots that record errors / pairs in the context without panicking, around blockers (seeded C16-r3-3)
    "notes":  dict(hook=0.1, hpanic=0, ppanic=0.01, block=0.4, rpanic=0.02, spanic=0.03, own=2, note=0.55),
}


def gen_case(rng, cid):
    pname = rng.choices(list(PROFILES), [3, 3, 2, 2, 4, 3])[0]
    prof = PROFILES[pname]
    ops = []
    nid = [0]

    def fresh():
        nid[0] += 1
        return nid[0]

    chains = []
    if rng.random() < 0.15:
        ops.append("globalorder")
    for ci in range(rng.randint(1, 4)):
        name = "ABCD"[ci]
        pool = rng.choice(ORDER_POOLS)
        slots = []
        big = rng.random() < 0.06      # > 12 / > 20 slots of one kind: beyond the insertion-sort ranges of package sort
        for kind, hi in (("p", 4), ("r", 9), ("s", 5)):
            n = rng.choice([0, 1, 2, 3, rng.randint(0, hi)])
            if big and rng.random() < 0.6:
                n = rng.choice([13, 21, 22, rng.randint(13, 48)])
            slots += [gen_slot(rng, kind, fresh(), pool, prof) for _ in range(n)]
        if rng.random() < 0.6:
            rng.shuffle(slots)
        k = len(slots)
        if big or rng.random() < 0.25:       # build (part of) the chain by single adds: same code path, shrinkable per slot
            k = rng.randint(0, min(len(slots), 3))
        ops.append(("chain " + name + " " + " ".join(slots[:k])).strip())
        ops += [f"add {name} {x}" for x in slots[k:]]
        # regular boundary slices (never left to luck):
        MAXO = 4294967295
        if rng.random() < 0.35:
            # Order() 0 and math.MaxUint32 added to buckets that already hold slots, also colliding with themselves;
            # a MaxUint32 rule slot that blocks must still lose against any earlier blocker (order+1 wraps to 0)
            for kind in rng.sample("prs", rng.randint(1, 3)):
                if not any(x.startswith(kind + ":") for x in slots):
                    ops.append(f"add {name} {gen_slot(rng, kind, fresh(), [rng.choice([1, 7, MAXO - 1])], prof)}")
                for o in rng.sample([MAXO, MAXO, 0, 0, MAXO - 1, 1], rng.randint(1, 4)):
                    x = gen_slot(rng, kind, fresh(), [o], dict(prof, block=0.7) if kind == "r" else prof)
                    f = x.split(":"); f[2] = str(o)
                    ops.append(f"add {name} " + ":".join(f))
        if rng.random() < 0.35:
            # a rule slot returning ShouldWait (0 / >0) ordered before (or colliding with) a blocking one: the wait result
            # must not end the rule phase
            lo = rng.choice([0, 0, 1, MAXO])
            hi = rng.choice([lo, lo, MAXO, rng.randint(lo, MAXO)])
            w = [f"r:{fresh()}:{lo}:{rng.choice(['wait', 'wait0', 'wait1'])}" for _ in range(rng.randint(1, 2))]
            b = f"r:{fresh()}:{hi}:{rng.choice(BLOCK_STYLES)}{rng.choice([1, 2, 3, 4, 5])}"
            seq = w + [b] if rng.random() < 0.7 or lo != hi else [b] + w
            ops += [f"add {name} {x}" for x in seq]
        if rng.random() < 0.3:
            # a first blocker built by every constructor family, among them the option-less NewTokenResult(ResultStatusBlocked),
            # with slots that merely record an error / a pair before it, on it and after it (stat slot)
            st = rng.choice(["bn", "bn", "bt", "bb", "bm", "bf", "bc"])
            seq = [f"r:{fresh()}:0:{rng.choice(PASSING)}{rng.choice(['+e', '+ek', '', '+k'])}",
                   f"r:{fresh()}:0:{st}{0 if st == 'bn' else rng.choice([0, 1, 5, 255])}{rng.choice(['', '', '+e', '+ek'])}",
                   f"s:{fresh()}:{rng.choice([0, MAXO])}:ok{rng.choice(['+e', '+k', '', '+ek'])}"]
            if rng.random() < 0.4:
                seq.insert(0, f"p:{fresh()}:0:ok{rng.choice(['+e', '+ek', '+k'])}")
            ops += [f"add {name} {x}" for x in seq]
        chains.append((name, pool))
    live, blocked, eid = [], [], 0
    # the clock is a free parameter of the harness: 40 % of cases move it (0, 1, small, huge, backwards between entry and exit)
    clocky = rng.random() < 0.4
    CLOCKS = [0, 0, 0, 1, 1, 2, 999, 1000, 1_900_000_000_000, 2**63, 2**64 - 1]
    if clocky and rng.random() < 0.6:
        ops.append(f"clock {rng.choice(CLOCKS)}")
    for _ in range(rng.randint(3, 25)):
        if clocky and rng.random() < 0.3:
            ops.append(f"clock {rng.choice(CLOCKS)}")
        r = rng.random()
        if r < 0.50 or not live and r < 0.8:
            eid += 1
            e = f"e{eid}"
            # 15 %: api.Entry WITHOUT WithSlotChain (chain `*` = api's global chain with the harness's recording slots, id 0),
            # interleaved with entries on the custom chains: a chain must not leak through the pooled EntryOptions
            ops.append(f"entry {e} {'*' if rng.random() < 0.15 else rng.choice(chains)[0]}")
            ops.append("log")
            if rng.random() < 0.7:
                ops.append(f"ident {e}")
            if rng.random() < (0.8 if pname == "notes" else 0.25):
                ops.append(f"ctx {e} {rng.choice(['err', 'err', 'pair'])}")
            live.append(e)       # may be blocked: then whenexit/exit are out of sequence and are never generated (see below)
        elif r < 0.58 and live:
            ops.append(f"whenexit {rng.choice(live)} {fresh()} {rng.choices(['hok', 'herr', 'hpanic'], [5, 2, prof['hpanic']])[0]}")
        elif r < 0.80 and live:
            e = rng.choice(live)
            if rng.random() < 0.85:
                live.remove(e)
            # exit2 = two overlapping Exit calls on the entry (deterministic overlap, see the interpreter)
            ops.append(f"{'exit2' if rng.random() < 0.3 else 'exit'} {e}")
            ops.append("log")
        elif r < 0.88:
            name, pool = rng.choice(chains)
            ops.append(f"add {name} {gen_slot(rng, rng.choice('prs'), fresh(), pool, prof)}")
        elif eid:
            if rng.random() < 0.3:
                ops.append(f"ctx e{rng.randint(1, eid)} {rng.choice(['err', 'pair'])}")
            else:
                ops.append(f"blockerr e{rng.randint(1, eid)}")
    rng.shuffle(live)
    for e in live:
        if rng.random() < 0.8:
            if clocky and rng.random() < 0.3:
                ops.append(f"clock {rng.choice(CLOCKS)}")
            ops.append(f"{'exit2' if rng.random() < 0.3 else 'exit'} {e}")
            ops.append("log")
    for i in range(1, eid + 1):
        ops.append(f"blockerr e{i}")
    return Case(cid, ops, tags=(pname,))


def fix_sequence(ops, results):
    """drop ops that address a blocked entry as if it were admitted (the generator does not know the outcomes):
    `results` maps entry id -> 'pass'|'block' as computed by a cheap python mirror of the property's verdict."""
    out = []
    skip_log = False
    for o in ops:
        t = o.split()
        if t[0] in ("exit", "exit2", "whenexit") and results.get(t[1]) == "block":
            skip_log = t[0] in ("exit", "exit2")
            continue
        if t[0] == "blockerr" and results.get(t[1]) != "block":
            continue
        if t[0] == "ctx" and t[1] not in results:
            continue
        if t[0] == "log" and skip_log:
            skip_log = False
            continue
        skip_log = False
        out.append(o)
    return out


def verdicts(ops):
    """python mirror of the property's verdict (stable sort, first non-passing rule slot, panic => admitted); only used to
    keep generated op sequences well-formed, never to judge."""
    chains, res = {"*": [("p", 0, "ok"), ("r", 0, "nil"), ("s", 0, "ok")]}, {}

    def parse(tok):
        f = tok.split(":")
        return f[0], int(f[2]), f[3].split("+")[0]

    for o in ops:
        t = o.split()
        if t[0] == "chain":
            chains[t[1]] = [parse(x) for x in t[2:]]
        elif t[0] == "add":
            chains[t[1]].append(parse(t[2]))
        elif t[0] == "entry":
            sl = chains[t[2]]
            ps = sorted([x for x in sl if x[0] == "p"], key=lambda x: x[1])
            rs = sorted([x for x in sl if x[0] == "r"], key=lambda x: x[1])
            ss = sorted([x for x in sl if x[0] == "s"], key=lambda x: x[1])
            v = "pass"
            if not any(b == "panic" for _, _, b in ps):
                stop = next((b for _, _, b in rs if b not in ("pass", "pass1", "nil", "wait", "wait0", "wait1")), None)
                if stop is not None and stop != "panic" and not any(b == "pb" for _, _, b in ss):
                    v = "block"
            res[t[1]] = v
    return res


PASSING_SET = ("pass", "pass1", "nil", "wait", "wait0", "wait1")


def keep_global_out_of_hazard(ops):
    """`entry <e> *` runs api's real global chain, whose built-in rule slots hand back `ctx.RuleCheckResult` untouched. While a
    slot-owned shared result object is still marked blocked (some own-style slot exists and an entry admitted by a panic after a
    block has not exited yet — the own-result hazard, notes/C16.md observations 1 and 5) a recycled context can carry that
    object and the built-in flow slot then *blocks* the unrelated global request with the stale error. The model does not
    contain the built-in slots, so such global entries are redirected to a custom chain (the hazard itself stays covered
    through the custom chains)."""
    chains, has_own, bp_live, out = {}, False, set(), []

    def parse(tok):
        f = tok.split(":")
        return f[0], int(f[2]), f[3].split("+")[0]

    first = None
    for o in ops:
        t = o.split()
        if t[0] == "chain":
            chains[t[1]] = [parse(x) for x in t[2:]]
            first = first or t[1]
            has_own |= any(k == "r" and b.startswith("bo") for k, _, b in chains[t[1]])
        elif t[0] == "add":
            x = parse(t[2])
            chains[t[1]].append(x)
            has_own |= x[0] == "r" and x[2].startswith("bo")
        elif t[0] == "entry":
            if t[2] == "*" and has_own and bp_live:
                t[2] = first
                o = " ".join(t)
            if t[2] != "*":
                sl = chains[t[2]]
                rs = sorted([x for x in sl if x[0] == "r"], key=lambda x: x[1])
                stop = next((b for _, _, b in rs if b not in PASSING_SET), None)
                if (not any(k == "p" and b == "panic" for k, _, b in sl) and stop is not None and stop != "panic"
                        and any(k == "s" and b == "pb" for k, _, b in sl)):
                    bp_live.add(t[1])
        elif t[0] in ("exit", "exit2"):
            bp_live.discard(t[1])
        out.append(o)
    return out


def gen(ctx, n):
    out = []
    for i in range(n):
        c = gen_case(ctx.rng, f"g{ctx.seed}-{i}")
        c.ops = keep_global_out_of_hazard(c.ops)
        c.ops = fix_sequence(c.ops, verdicts(c.ops))
        out.append(c)
    return out


def corpus():
    import glob, os
    from vlib.core import ROOT
    res = []
    for p in sorted(glob.glob(os.path.join(ROOT, "corpus", PROP, "*.ops"))):
        ops = [l.rstrip("\n") for l in open(p) if l.strip() and not l.startswith("#") and not l.startswith("case ")]
        res.append(Case(os.path.basename(p), ops, tags=("corpus",)))
    return res


def densify(ops, rng):
    """observe more: a log after every entry/exit, idents and block-error re-reads of everything so far after random ops"""
    out, seen = [], []
    for o in ops:
        out.append(o)
        t = o.split()
        if t[0] == "entry":
            seen.append(t[1])
            out.append("log")
        elif t[0] in ("exit", "exit2"):
            out.append("log")
        if seen and rng.random() < 0.4:
            for e in rng.sample(seen, min(len(seen), 3)):
                out.append(f"blockerr {e}")
                out.append(f"ident {e}")
    return [o for i, o in enumerate(out) if not (o == "log" and i and out[i - 1] == "log")]


def nontrivial(case, impl):
    blocked_at, reuse_after, reread = {}, set(), False
    ctx_seen, n_entry, shape, outcomes = set(), 0, [], []
    for l in impl:
        op, _, r = l.partition(" => ")
        t = op.split()
        if t[0] in ("chain", "add"):
            shape.append(r)
        elif t[0] == "entry":
            n_entry += 1
            outcomes.append(r.split()[0] if r else "")
            if r.startswith("block"):
                blocked_at[t[1]] = n_entry
        elif t[0] == "ident" and r.startswith("ctx "):
            c = r.split()[1]
            if c in ctx_seen:
                reuse_after.add(n_entry)
            ctx_seen.add(c)
        elif t[0] == "blockerr" and t[1] in blocked_at:
            if any(k > blocked_at[t[1]] for k in reuse_after):
                reread = True
    if reread:
        return hash((tuple(shape), tuple(outcomes)))
    return None


META = {
    "technique": ("Lean 4 proof (structural induction over slot lists, heap invariants over op histories) + differential correspondence "
                  "model/impl with recording slots on real base.SlotChain objects through api.Entry"),
    "level_text": ("Theorems in lean/Sentinel/Props/C16.lean, kernel-checked for every insertion sequence, every chain, every behaviour table "
                   "and every op history: Add*Slot yields the stable sort of the insertion sequence; SlotChain.Entry runs a prefix of "
                   "prepare/rule/stat calls in list order; absent panics the verdict and block error are those of the first non-passing rule "
                   "slot and nothing after it runs, every stat slot is told once and told of completion iff passed; any raised panic gives "
                   "an admitted entry and nothing escapes api.Entry/Exit; the deep-copied block error is never written by any later op. "
                   "The model (incl. sync.Pool reuse and TokenResult aliasing) is tied to core/base + api by running the same op files "
                   "through the real packages and the compiled Lean driver and comparing every observation; the abstract reference is "
                   "evaluated against the implementation directly."),
    "level_note": ("Trusted: Lean kernel; axioms propext/Classical.choice/Quot.sound; Go harness (recording slots, unsafe read of the "
                   "unexported sorted slices, pointer numbering), sync.Pool determinism under GOMAXPROCS(1)+LockOSThread+GC off. Modelled not "
                   "verified: sequential use only; sort.SliceStable is modelled by its effect on a sorted slice plus one element and tied by "
                   "correspondence; the built-in slots' own logic is out of scope (only their Order constants are tied)."),
    "design_ref": "DESIGN.md 6.C16",
}
