"""C04 — isolation rule caps in-flight requests at the threshold (isolation.checkPass + the concurrency gauge)."""
from vlib.core import Case

PROP = "C04"
SPEC_MODE = "spec"
KEEP_PREFIX = 0
SIZES = {"quick": 500, "thorough": 16000}
BATCH = 2000
RULE = ("histories over 1-4 resources with 0-3 isolation rules each (thresholds from {0,1,2,3,5,small,2^31-1,2^31,2^32-2,2^32-1}), "
        "entries with batches aimed at the admission boundary (N-inflight, N-inflight+1), 0, 1, 2^31, 2^32-1 and the uint32 wrap region "
        "(2^32-inflight .. 2^32-1), a quarter of the entries without any batch option (default 1), resource types varied per entry, exits in "
        "random order incl. Exit(WithError), TraceError before/after exit, double exits, two goroutines exiting one entry at once (dexit), "
        "exits of blocked/unknown ids, gauge reads, rule reloads mid-history with live entries (append a stricter/looser rule, remove, "
        "reorder, change, same, fresh), half of all loads through one reused caller-owned slice that is overwritten after the call "
        "(sload/sloadres), resource names with '|', '_', '%', '~' (a space) and unicode incl. pairs like a|b / a_b (half of the cases), Rule.ID modes (shared non-empty id, empty, mixed; 40 % of the cases), rule lists of 9-40 rules on one resource with the binding rule late in the list (12 % of the loads), exit handlers returning nil / an error before exits, in-place edits of loaded rule objects (poke), GetRulesOfResource/GetRules reads, LoadRulesOfResource / ClearRulesOfResource on resources with and without rules (repeated, followed by "
        "traffic on the others), virtual clock steps (mostly backwards), and schedule ops (par/sched: 1-6 goroutines parked at chain.between-check-and-stat, random interleavings of "
        "check/record/exit steps); non-trivial = at least one pass, one isolation block and one exit that is not of the newest live entry; "
        "distinct by (rules, op-kind/boundary-class sequence); plus every short schedule over 2-4 threads, and soak cases (2-16 real "
        "goroutines x 500-10000 Entry/Exit rounds, GOMAXPROCS=NumCPU, no hooks) judged by gauge-returns / N+(G-1) / no-rejection-with-"
        "free-capacity / totals")

U32 = 2 ** 32
RES = ["a", "b", "c", "d"]       # the four resource names of the current case (re-drawn per case from NAMES)
NAMES = ["a", "b", "c", "d", "a|b", "a_b", "a~b", "a%b", "|", "_", "x|y|z", "x_y_z", "x_y|z", "p%q", "ü1", "日本", "A", "a|", "a_"]
NAME_SETS = [["a|b", "a_b", "a~b", "a%b"], ["x|y|z", "x_y_z", "x_y|z", "|"], ["a|", "a_", "a", "_"], ["ü1", "日本", "p%q", "A"]]
TYPES = ["common", "web", "rpc", "rpc", "gateway", "dbsql", "cache", "mq"]
THR_SMALL = [1, 1, 2, 2, 3, 3, 5]
THR_EDGE = [0, 2 ** 31 - 1, 2 ** 31, U32 - 2, U32 - 1]


class Sim:
    """the generator's own bookkeeping (only used to aim batches at boundaries; never used as an oracle)"""

    def __init__(self):
        self.rules = {}
        self.live = {}          # id -> res
        self.blocked = []
        self.exited = []
        self.next_id = 1
        self.clock = 10000
        self.rng = None
        self.toks, self.idx = [], []
        self.ghosts = []            # entries exited with a panicking exit handler: in flight for ever (as the code has it)

    def infl(self, res):
        return sum(1 for r in self.live.values() if r == res) + self.ghosts.count(res)

    def admit(self, res, b):
        n = self.infl(res)
        return all(n + b <= t for t in self.rules.get(res, []))


def gen_rules(rng, sim, ops):
    nres = rng.choice([1, 1, 2, 2, 3, 4])
    rs = rng.sample(RES, nres)
    toks = []
    for r in rs:
        k = rng.choice([0, 1, 1, 1, 2, 2, 3]) if nres > 1 else rng.choice([1, 1, 2, 3])
        for _ in range(k):
            x = rng.random()
            t = rng.choice(THR_SMALL) if x < 0.72 else (rng.randint(1, 12) if x < 0.82 else rng.choice(THR_EDGE))
            toks.append((r, t))
    rng.shuffle(toks)           # rules of different resources interleaved in the load list
    if rng.random() < 0.12:
        toks = long_list(rng, toks)
    set_rules(sim, ops, toks)


def long_list(rng, toks):
    """one resource gets 9..40 rules, all loose but one: the binding rule sits late in the list (position >= 8, often the last)"""
    r = rng.choice(RES)
    n = rng.choice([9, 9, 10, 12, 16, 17, 24, 33, 40])
    strict = rng.choice([1, 2, 3])
    pos = rng.choice([8, n - 1, n - 1, rng.randint(8, n - 1)])
    own = [(r, strict if i == pos else strict + rng.choice([1, 2, 5, 100, U32 - 1 - strict])) for i in range(n)]
    others = [(a, t) for a, t in toks if a != r]
    k = rng.randint(0, len(others))
    return others[:k] + own + others[k:] if rng.random() < 0.5 else own + others


def rebuild(sim):
    sim.rules = {}
    for r, t in sim.toks:
        if t != 0:
            sim.rules.setdefault(r, []).append(t)


def set_rules(sim, ops, toks):
    toks = [(r, min(max(t, 0), U32 - 1)) for r, t in toks]
    sim.toks = list(toks)
    sim.idx = list(range(len(toks)))            # rule ids: positions in the load list
    rebuild(sim)
    # half of the loads go through the one caller-owned scratch slice that is overwritten after the call
    ops.append(("sload" if sim.rng.random() < 0.5 else "load") + "".join(f" {r}:{t}" for r, t in toks))


def reload_rules(rng, sim, ops, cls):
    """reload shapes while entries are live: the latest list is the one the cap is judged against"""
    toks = list(getattr(sim, "toks", []))
    shape = rng.choice(["append-stricter", "append-stricter", "append-looser", "append-other", "remove", "remove-last", "reorder",
                        "change", "fresh", "same"]) if toks else "fresh"
    withrules = sorted(sim.rules) or RES[:1]
    if shape == "append-stricter":          # the old list stays a proper prefix of the new one
        r = rng.choice(withrules)
        lo = min(sim.rules.get(r, [3]))
        toks.append((r, max(1, min(lo - rng.choice([1, 1, 2]), max(sim.infl(r), 1)))))
    elif shape == "append-looser":
        r = rng.choice(withrules)
        toks.append((r, min(sim.rules.get(r, [3])) + rng.choice([1, 2, 5])))
    elif shape == "append-other":
        toks.append((rng.choice(RES), rng.choice(THR_SMALL)))
    elif shape == "remove":
        del toks[rng.randrange(len(toks))]
    elif shape == "remove-last":
        toks.pop()
    elif shape == "reorder":
        rng.shuffle(toks)
    elif shape == "change":
        i = rng.randrange(len(toks))
        toks[i] = (toks[i][0], max(1, toks[i][1] + rng.choice([-1, 1, -2])) if toks[i][1] < 100 else rng.choice(THR_SMALL))
    elif shape == "fresh":
        cls.append("reload-fresh")
        return gen_rules(rng, sim, ops)
    cls.append("reload-" + shape)
    set_rules(sim, ops, toks)


def pick_batch(rng, sim, res, cls):
    n = sim.infl(res)
    ths = sim.rules.get(res, [])
    N = min(ths) if ths else rng.choice([1, 3, U32 - 1])
    room = max(N - n, 0)
    x = rng.random()
    if x < 0.34:
        b, c = 1, "1"
    elif x < 0.44:
        b, c = 0, "0"
    elif x < 0.56:
        b, c = room, "room"
    elif x < 0.68:
        b, c = room + 1, "room+1"
    elif x < 0.73:
        b, c = max(room - 1, 0), "room-1"
    elif x < 0.83:
        # wrap region: n + b >= 2^32 (admitted by the pinned uint32 arithmetic when (n+b) mod 2^32 <= N)
        b, c = (U32 - n + rng.choice([0, 0, 1, N, rng.randint(0, 3)])) if n > 0 else U32 - 1, "wrap"
    elif x < 0.90:
        b, c = rng.choice([2 ** 31 - 1, 2 ** 31, 2 ** 31 + 1, U32 - 2, U32 - 1]), "huge"
    elif x < 0.95:
        b, c = rng.choice(ths) if ths else 2, "N"
    else:
        b, c = rng.randint(0, U32 - 1), "rand"
    b = min(max(b, 0), U32 - 1)
    cls.append(c)
    return b


def gen_case(rng, cid):
    # resource names: plain letters half of the time, else names with '|', '_', '%', '~' (= a space), unicode — among them pairs like
    # a|b / a_b that must stay distinct resources
    x = rng.random()
    RES[:] = ["a", "b", "c", "d"] if x < 0.5 else (list(rng.choice(NAME_SETS)) if x < 0.8 else rng.sample(NAMES, 4))
    sim = Sim()
    sim.rng = rng
    ops, cls = [], []
    if rng.random() < 0.4:
        # how Rule.ID is filled from now on: shared non-empty id, empty ids, a mix (rules are identified by object, never by id)
        ops.append(f"idmode {rng.choice(['same', 'same', 'empty', 'mixed'])}")
        cls.append("idmode")
    gen_rules(rng, sim, ops)
    pool = sorted(set(list(sim.rules) + [rng.choice(RES)]))
    nops = rng.randint(12, 90)
    for _ in range(nops):
        x = rng.random()
        res = rng.choice(pool)
        if x < 0.46:
            i = sim.next_id
            sim.next_id += 1
            if rng.random() < 0.03 and sim.live:
                i = rng.choice(list(sim.live))          # duplicate handle: refused by the harness
                ops.append(f"entry {i} {res} 1")
                cls.append("dup")
                continue
            b = pick_batch(rng, sim, res, cls)
            ty = f" type={rng.choice(TYPES)}" if rng.random() < 0.3 else ""
            if rng.random() < 0.1:
                ty += " in"                 # WithTrafficType(Inbound): the inbound node is updated as well, the resource gauge as always
            if rng.random() < 0.25:
                b = 1                       # no WithBatchCount option at all: the default batch is 1
                cls[-1] = "default"
                ops.append(f"entry {i} {res} -{ty}")
            else:
                ops.append(f"entry {i} {res} {b}{ty}")
            if sim.admit(res, b):
                sim.live[i] = res
            else:
                sim.blocked.append(i)
        elif x < 0.70:
            y = rng.random()
            if sim.live and y < 0.85:
                ids = list(sim.live)
                z = rng.random()
                i = ids[0] if z < 0.3 else (ids[-1] if z < 0.45 else rng.choice(ids))
                gone_res = sim.live[i]
                del sim.live[i]
                sim.exited.append(i)
                cls.append("exit")
            elif sim.exited and y < 0.92:
                i = rng.choice(sim.exited)
                cls.append("exit2")
            elif sim.blocked and y < 0.97:
                i = rng.choice(sim.blocked)
                cls.append("exitb")
            else:
                i = 10 ** 6 + rng.randint(0, 9)
                cls.append("exit?")
            if i in sim.live:
                continue
            z = rng.random()
            if z < 0.03 and cls and cls[-1] == "exit":
                # Exit with a panicking exit handler: as the code has it the unit never comes back (the bookkeeping keeps it in flight
                # under an id nobody names)
                ops.append(f"pexit {i}")
                sim.ghosts.append(gone_res)
                cls.append("pexit")
            elif z < 0.08:
                if rng.random() < 0.3:
                    ops.append(f"when {i} err")
                ops.append(f"dexit {i}")        # two goroutines call Exit on this entry at once
                cls.append("dexit")
            else:
                if rng.random() < 0.25:
                    ops.append(f"trace {i}")
                if rng.random() < 0.3:          # exit handlers returning nil / an error (sometimes several)
                    for _ in range(rng.choice([1, 1, 2, 3])):
                        ops.append(f"when {i} {rng.choice(['ok', 'err', 'err'])}")
                ops.append(f"exit {i} err" if z < 0.45 else f"exit {i}")
        elif x < 0.765:
            ops.append(f"conc {res}")
        elif x < 0.785:
            # the virtual clock moves, mostly backwards (offset from the case start; the accounting must not depend on time)
            sim.clock = rng.choice([0, 1, max(sim.clock - rng.choice([1, 500, 5000]), 0), max(sim.clock - 1, 0), rng.randint(0, 20000), 20000])
            ops.append(f"clock {sim.clock}")
            cls.append("clock")
        elif x < 0.81:
            # per-resource rule updates, also on resources that have no rules, repeated, followed by traffic on the others
            r = rng.choice(RES)
            y = rng.random()
            if y < 0.5:
                ops.append(f"clearres {r}")
                if rng.random() < 0.3:
                    ops.append(f"clearres {rng.choice(RES)}")
                ths = []
                cls.append("clearres" + ("" if r in sim.rules else "-ruleless"))
            else:
                ths = [rng.choice(THR_SMALL + [0]) if rng.random() < 0.85 else rng.choice(THR_EDGE) for _ in range(rng.choice([0, 1, 1, 2, 3]))]
                if rng.random() < 0.15:         # a long per-resource list with the binding rule late
                    ths = [t for _, t in long_list(rng, [])]
                kind = "sloadres " if rng.random() < 0.6 else "loadres "
                last = getattr(sim, "last_s", None)
                if last and rng.random() < 0.4:
                    # regression slice for the fixed finding loadres-raw-slice-alias: the same resource reloaded through the reused
                    # slice with the same number of rules
                    r, kind = last[0], "sloadres "
                    ths = [rng.choice(THR_SMALL) for _ in range(last[1])]
                    cls.append("slice-reuse-same-length")
                if kind == "sloadres " and ths:
                    sim.last_s = (r, len(ths))
                ops.append(kind + r + "".join(f" {t}" for t in ths))
                cls.append("loadres")
            keep = [(a, t, i) for (a, t), i in zip(sim.toks, sim.idx) if a != r]
            sim.toks = [(a, t) for a, t, _ in keep] + [(r, t) for t in ths]
            sim.idx = [i for _, _, i in keep] + list(range(len(ths)))      # loadres numbers within its own list
            rebuild(sim)
        elif x < 0.822:
            ids = list(sim.live) + sim.exited[-3:] + sim.blocked[-2:]
            ops.append(f"trace {rng.choice(ids) if ids else 7}")
        elif x < 0.83:
            # the caller edits a rule object it loaded (position = index in the last load list of that resource)
            r = rng.choice(RES)
            own = [i for (a, t), i in zip(sim.toks, sim.idx) if a == r and t != 0]
            idx = rng.choice(own + own + [0, 1, 7]) if own else rng.choice([0, 1])      # a miss (or an invalid rule) is a no-op
            t = rng.choice([1, 1, 2, 3, max(sim.infl(r), 1), sim.infl(r) + 1, U32 - 1])
            ops.append(f"poke {r} {idx} {t}")
            cls.append("poke")
            sim.toks = [(a, t if (a == r and i == idx and v != 0) else v) for (a, v), i in zip(sim.toks, sim.idx)]
            rebuild(sim)
        elif x < 0.84:
            if rng.random() < 0.25:
                ops.append(f"idmode {rng.choice(['pos', 'same', 'empty', 'mixed'])}")
            else:
                ops.append(rng.choice([f"rules {res}", f"rules {rng.choice(RES)}", "rules"]))
        elif x < 0.90:
            k = rng.choice([1, 2, 2, 3, 3, 4, 6])
            b = pick_batch(rng, sim, res, cls)
            id0 = sim.next_id
            sim.next_id += k
            ops.append(f"par {id0} {k} {res} {b}")
            if sim.admit(res, b):
                for j in range(k):
                    sim.live[id0 + j] = res
            cls.append(f"par{k}")
        elif x < 0.945:
            m = rng.choice([1, 2, 2, 3, 3, 4, 5])
            bs = [pick_batch(rng, sim, res, cls) for _ in range(m)]
            if rng.random() < 0.6:
                bs = [b if rng.random() < 0.3 else 1 for b in bs]
            ln = rng.choice([0, m, 2 * m, 3 * m, rng.randint(0, 4 * m)])
            sch = [rng.randrange(m) if rng.random() < 0.97 else m + rng.randint(0, 2) for _ in range(ln)]
            id0 = sim.next_id
            sim.next_id += m
            ops.append(f"sched {id0} {res} {','.join(map(str, bs))} {','.join(map(str, sch)) or '-'}")
            ops.append(f"conc {res}")
            cls.append(f"sched{m}")
            # the generator cannot follow a schedule: resynchronise its bookkeeping lazily (entries created by a
            # schedule are exited through `exit` with ids id0..id0+m-1; some of them do not exist: harmless)
            for j in range(m):
                if rng.random() < 0.5:
                    sim.live[id0 + j] = res
        else:
            reload_rules(rng, sim, ops, cls)
    for r in pool:
        ops.append(f"conc {r}")
    return Case(cid, ops, tags=tuple(cls[:12]))


def gen(ctx, n):
    return [gen_case(ctx.rng, f"g{ctx.seed}-{i}") for i in range(n)]


def corpus():
    import glob, os
    from vlib.core import ROOT
    res = []
    for p in sorted(glob.glob(os.path.join(ROOT, "corpus", PROP, "*.ops"))):
        ops = [l.rstrip("\n") for l in open(p) if l.strip() and not l.startswith("#") and not l.startswith("case ")]
        res.append(Case(os.path.basename(p), ops, tags=("corpus",)))
    return res


def densify(ops, rng):
    """read the gauge of every resource after random ops, and probe the boundary with small batches"""
    names = set()
    for o in ops:
        t = o.split()
        if t[0] == "load":
            names.update(a.split(":")[0] for a in t[1:])
        elif t[0] == "sload":
            names.update(a.split(":")[0] for a in t[1:])
        elif t[0] in ("loadres", "clearres", "sloadres"):
            names.add(t[1])
        elif t[0] in ("entry", "sched"):
            names.add(t[2])
        elif t[0] == "soak":
            names.add(t[1])
        elif t[0] == "par":
            names.add(t[3])
    names = sorted(names) or ["a"]
    out, nid = [], 5 * 10 ** 6 + rng.randint(0, 10 ** 5)
    for o in ops:
        out.append(o)
        if rng.random() < 0.5:
            for r in names:
                out.append(f"conc {r}")
        if rng.random() < 0.2:
            out.append(f"entry {nid} {rng.choice(names)} {rng.choice([0, 1, 1, 2, U32 - 1])}")
            nid += 1
    return out


def nontrivial(case, impl):
    npass = nblock = 0
    live, ooo = [], False
    kinds = []
    for l in impl:
        op, _, r = l.partition(" => ")
        t = op.split()
        if t[0] == "entry":
            if r == "pass":
                npass += 1
                live.append(t[1])
                kinds.append("P")
            elif r.startswith("block iso"):
                nblock += 1
                kinds.append("B")
            else:
                kinds.append("D")
        elif t[0] in ("exit", "dexit", "pexit"):
            if t[1] in live:
                if live[-1] != t[1]:
                    ooo = True
                live.remove(t[1])
                kinds.append("X" + t[0][0] + (t[2][0] if len(t) > 2 else ""))
            else:
                kinds.append("x")
        elif t[0] in ("par", "sched"):
            body = r[1:r.index("]")].split(",") if r.startswith("[") else []
            npass += sum(1 for b in body if b in ("p", "x"))
            nblock += sum(1 for b in body if b.startswith("b"))
            kinds.append("S" + "".join(b[0] for b in body))
        elif t[0] in ("load", "sload", "loadres", "sloadres", "clearres", "clock", "poke", "idmode"):
            kinds.append(t[0][0] + t[0][-1])
    if npass and nblock and ooo:
        return hash((tuple(o for o in case.ops if o.startswith("load") or o.startswith("sload")), "".join(kinds), case.tags))
    return None


def schedule_cases(tier):
    """every schedule of the given length over m threads (one entry = one step: check, record or exit), parameters cycled"""
    import itertools
    shapes = ((2, 6), (3, 7)) if tier == "quick" else ((2, 9), (3, 9), (4, 8))
    params = [(N, base, pat) for N in (1, 2, 3) for base in (0, 1) for pat in ("ones", "zero", "two")]
    cases, k = [], 0
    for m, L in shapes:
        for sch in itertools.product(range(m), repeat=L):
            N, base, pat = params[k % len(params)]
            k += 1
            bs = [1] * m
            if pat == "zero":
                bs[k % m] = 0
            elif pat == "two":
                bs[k % m] = 2
            ops = [f"load a:{N}"]
            if base:
                ops.append("entry 1 a 1")
            ops += [f"sched 10 a {','.join(map(str, bs))} {','.join(map(str, sch))}", "conc a", "exit 10", "conc a", "entry 99 a 1", "conc a"]
            cases.append(Case(f"s{m}-{k}", ops, tags=("schedule", f"m={m}", pat)))
    return cases


def soak_cases(rng, tier, tag):
    """real-parallel Entry/Exit loops: goroutines <= / > free capacity, entries in flight before, batch 0/1/N, then sequential
    probes that the whole capacity is admissible again"""
    n = 4 if tier == "quick" else 240
    cases = []
    for k in range(n):
        N = rng.choice([1, 2, 3, 4, 8, 8, 16])
        # (on a tree that loses gauge updates, G=8 x 3000 rounds or G=16 x 1000 show it in > 95% of the runs; G=2 in about half)
        G = rng.choice([8, 8, 12, 16]) if tier == "quick" else rng.choice([2, 3, 4, 8, 8, 12, 16])
        rounds = 3000 if tier == "quick" else rng.choice([1000, 3000, 10000])
        base = rng.choice([0, 0, 1, min(2, N)])
        b = rng.choice([1, 1, 1, 1, 0, 2, N])
        ops = [f"load a:{N} a:{N + rng.choice([0, 1, 5])} b:{rng.choice([1, 4])}"]
        for j in range(base):
            ops.append(f"entry {j + 1} a 1")
        x2 = " x2" if k % 2 == 1 else ""        # every admitted entry exited by two goroutines at once
        ops += [f"soak a {G} {rounds} {b}{x2}", "conc a"]
        if rng.random() < 0.5:
            ops += [f"soak b {rng.choice([4, 8])} {rounds // 2} 1", "conc b"]
        for j in range(base):
            if rng.random() < 0.7:
                ops.append(f"exit {j + 1}")
        ops.append("conc a")
        ops += [f"entry {100 + j} a 1" for j in range(N + 1)]      # fill up: exactly the free capacity is admitted
        ops += ["conc a", f"soak a {G} {max(rounds // 4, 100)} 1{' x2' if k % 2 == 0 else ''}", "conc a"]
        cases.append(Case(f"{tag}-{k}", ops, tags=("soak", f"N={N}", f"G={G}", f"b={b}")))
    return cases


def manyres_cases(rng, tier, tag):
    """resources first entered around / beyond base.DefaultMaxResourceAmount (10000) are still tracked and capped"""
    cases = []
    for k in range(0 if tier == "quick" else 8):        # quick: corpus/C04/manyres.ops only
        n = 10000 + rng.choice([-3, -2, -1, 0, 1, 2, 50])
        N = rng.choice([1, 2, 3])
        ops = [f"load p:{N} q:{N} r:{N + 1}", f"manyres {n}"]
        i = 1
        for r in ("p", "q", "r"):
            for _ in range(N + 2):
                ops.append(f"entry {i} {r} {rng.choice(['1', '-', '1', '0'])}")
                i += 1
            ops.append(f"conc {r}")
            if r == "p":
                ops.append("manyres 2")
        ops += ["exit 1", "exit 2", f"entry {i} p 1", "conc p"]
        cases.append(Case(f"{tag}-{k}", ops, tags=("manyres", f"n={n}")))
    return cases


def run(ctx):
    from vlib import std
    import sys

    def extra(ctx, eng):
        cs = schedule_cases(ctx.tier)
        for i in range(0, len(cs), 4000):
            if ctx.violations:
                break
            eng.check(cs[i:i + 4000], "schedules")
        ctx.cov["schedules_enumerated"] = len(cs)
        ctx.log(f"{len(cs)} exhaustive schedules compared")
        if not ctx.violations:
            sk = soak_cases(ctx.rng, ctx.tier, f"k{ctx.seed}")
            eng.check(sk, "soak")
            ctx.cov["soak_cases"] = len(sk)
            ctx.log(f"{len(sk)} soak cases (real goroutines) judged against the bounds")
        if not ctx.violations:
            mr = manyres_cases(ctx.rng, ctx.tier, f"m{ctx.seed}")
            if mr:
                eng.check(mr, "manyres")
            ctx.cov["manyres_cases"] = len(mr) + 1     # + corpus/C04/manyres.ops

    ctx.assumptions.append("fewer than 2^31 entries in flight per resource: the gauge is an int32 in core/stat/base_node.go and an integer in the model "
                           "(hypothesis histSize h < 2^31 of the history theorems)")
    ctx.assumptions.append("soak ops: the bound N+(G-1) is the overshoot theorem with k=G under the reading that atomic gauge operations of "
                           "really parallel goroutines are linearizable (sync/atomic contract)")
    ctx.assumptions.append("isolation.checkPass is one atomic step of the small-step model: the only yield point of the admission path is "
                           "chain.between-check-and-stat, after the whole rule loop")
    return std.run(ctx, sys.modules[__name__], extra=extra)


META = {
    "technique": "Lean 4 proof (refinement gauge machine = history-recomputing reference, invariants by induction over histories and schedules) "
                 "+ differential correspondence model/impl through api.Entry incl. deterministic schedules at the chain yield hook",
    "level_text": ("Theorems in lean/Sentinel/Props/C04.lean, kernel-checked: for every rule list, gauge value and every uint32 batch and threshold the "
                   "repaired checkPass (uint64 comparison, clamp, first violated rule) passes iff inflight+b<=N over the naturals for every rule; the "
                   "gauge machine (one unit per passed entry, released by Exit of a passed entry) produces the same outputs as the reference that "
                   "recomputes in-flight from the history, for every history over any number of resources, rules, reloads and exit orders; hence the cap "
                   "on every prefix (<=N for batches>=1, <=N+1 when batch 0 is used), freed capacity is reusable at once, rejected requests hold "
                   "nothing; the small-step admission path (check | yield point | record | exit) is within N+(k-1) for any number of threads and any "
                   "schedule in which at most k are between check and record. The model is tied to the code by running the same op files (sequential "
                   "ops and schedules driven through util/verifhook.Sched) through api.Entry and through the compiled Lean definitions."),
    "level_note": ("Trusted: Lean kernel; axioms propext/Classical.choice/Quot.sound; Go harness, yield-hook placement, canonical printing. Modelled not verified: the "
                   "int32 gauge as an integer (theorems assume fewer than 2^31 entries in flight), the check is one atomic step (the hook is after the whole rule "
                   "loop), other slots of the default chain have no rules loaded."),
    "design_ref": "DESIGN.md 6.C04",
}
