module verifharness

go 1.22

require github.com/alibaba/sentinel-golang v0.0.0

require (
	github.com/beorn7/perks v1.0.1 // indirect
	github.com/cespare/xxhash/v2 v2.2.0 // indirect
	github.com/davecgh/go-spew v1.1.1 // indirect
	github.com/fsnotify/fsnotify v1.4.7 // indirect
	github.com/golang/protobuf v1.5.3 // indirect
	github.com/google/uuid v1.1.1 // indirect
	github.com/matttproud/golang_protobuf_extensions v1.0.4 // indirect
	github.com/pkg/errors v0.9.1 // indirect
	github.com/pmezard/go-difflib v1.0.0 // indirect
	github.com/prometheus/client_golang v1.16.0 // indirect
	github.com/prometheus/client_model v0.3.0 // indirect
	github.com/prometheus/common v0.42.0 // indirect
	github.com/prometheus/procfs v0.10.1 // indirect
	github.com/shirou/gopsutil/v3 v3.21.6 // indirect
	github.com/stretchr/objx v0.4.0 // indirect
	github.com/stretchr/testify v1.8.0 // indirect
	github.com/tklauser/go-sysconf v0.3.6 // indirect
	github.com/tklauser/numcpus v0.2.2 // indirect
	go.uber.org/atomic v1.6.0 // indirect
	go.uber.org/multierr v1.5.0 // indirect
	golang.org/x/sys v0.21.0 // indirect
	google.golang.org/protobuf v1.30.0 // indirect
	gopkg.in/yaml.v2 v2.4.0 // indirect
	gopkg.in/yaml.v3 v3.0.1 // indirect
)

replace github.com/alibaba/sentinel-golang => /repo
