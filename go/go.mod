module verifharness

go 1.22

require github.com/alibaba/sentinel-golang v0.0.0

require (
	github.com/google/uuid v1.1.1 // indirect
	github.com/pkg/errors v0.9.1 // indirect
)

replace github.com/alibaba/sentinel-golang => /repo
