// Package c09 interprets the C09 op language against the real core/stat/base package: rounds of
// threads run under the deterministic yield-hook scheduler (internal/sched), plus a randomized
// parallel stress with the real Go scheduler (no hooks).
//
//	la.new <n> <I> <t0>                      fresh BucketLeapArray(n, I) created at clock t0 (ms)
//	view <sc> <Iv>                           the SlidingWindowMetric used by `viewsum` (default 1 x I)
//	thread <tid> <clock-ms> <op> [; <op>]…   thread of the next round, started at that clock reading
//	                                         ops: add <ev> <amt> | conc <c> | count <ev> | values <ev> | viewsum <ev>
//	sched <tid | tick:<ms>>…                 run the round => [round] res=[…|…] pts=[…|…] final=[…] clock=<ms>
//	stress <writers> <readers> <adds> <n> <I> <seed>   => ok | bad …
package c09

import (
	"fmt"
	"math/rand"
	"runtime"
	"strings"
	"sync"
	"sync/atomic"
	"time"

	"github.com/alibaba/sentinel-golang/core/base"
	sbase "github.com/alibaba/sentinel-golang/core/stat/base"
	"github.com/alibaba/sentinel-golang/util"
	"verifharness/internal/sched"
	"verifharness/internal/vh"
)

type opSpec struct {
	kind string // add conc count viewsum
	ev   base.MetricEvent
	amt  int64
}

type thread struct {
	clock uint64
	prog  []opSpec
}

type Interp struct {
	clk     *vh.Clock
	la      *sbase.BucketLeapArray
	view    *sbase.SlidingWindowMetric
	threads []thread
	// poisoned: a round of this process ended with a worker blocked for ever; see round()
	poisoned bool
}

func New() vh.Interp {
	vh.Silence()
	c := &vh.Clock{}
	vh.Install(c)
	return &Interp{clk: c}
}

func (it *Interp) Reset() {
	vh.Install(it.clk)
	it.la, it.view, it.threads = nil, nil, nil
}

func ev(s string) base.MetricEvent {
	switch s {
	case "pass":
		return base.MetricEventPass
	case "block":
		return base.MetricEventBlock
	case "complete":
		return base.MetricEventComplete
	case "error":
		return base.MetricEventError
	case "rt":
		return base.MetricEventRt
	}
	panic("bad event " + s)
}

func parseProg(t []string) []opSpec {
	var prog []opSpec
	for i := 0; i < len(t); {
		j := i
		for j < len(t) && t[j] != ";" {
			j++
		}
		o := t[i:j]
		switch {
		case len(o) == 3 && o[0] == "add":
			a := vh.I(o[2]) // signed: the API takes int64 (decrements, roll-backs)
			if a < 0 && ev(o[1]) == base.MetricEventRt {
				panic("negative rt")
			}
			prog = append(prog, opSpec{"add", ev(o[1]), a})
		case len(o) == 2 && o[0] == "conc":
			prog = append(prog, opSpec{"conc", 0, int64(vh.U(o[1]))})
		case len(o) == 2 && o[0] == "count":
			prog = append(prog, opSpec{"count", ev(o[1]), 0})
		case len(o) == 2 && o[0] == "values":
			prog = append(prog, opSpec{"values", ev(o[1]), 0})
		case len(o) == 2 && o[0] == "viewsum":
			prog = append(prog, opSpec{"viewsum", ev(o[1]), 0})
		default:
			panic("bad op " + strings.Join(o, " "))
		}
		i = j + 1
	}
	return prog
}

func (it *Interp) Step(t []string, op string) string {
	switch t[0] {
	case "la.new":
		n, I, t0 := vh.U(t[1]), vh.U(t[2]), vh.U(t[3])
		if n == 0 || I%n != 0 || I/n == 0 || t0 == 0 {
			return "bad-op"
		}
		it.clk.SetMs(t0)
		it.la = sbase.NewBucketLeapArray(uint32(n), uint32(I))
		m, err := sbase.NewSlidingWindowMetric(1, uint32(I), it.la)
		if err != nil {
			panic(err)
		}
		it.view, it.threads = m, nil
		return ""
	case "view":
		m, err := sbase.NewSlidingWindowMetric(uint32(vh.U(t[1])), uint32(vh.U(t[2])), it.la)
		if err != nil {
			switch err {
			case base.IllegalStatisticParamsError:
				return "err 1"
			case base.IllegalGlobalStatisticParamsError:
				return "err 2"
			case base.GlobalStatisticNonReusableError:
				return "err 3"
			}
			return "err ?"
		}
		it.view = m
		return "ok"
	case "thread":
		tid, ck := int(vh.U(t[1])), vh.U(t[2])
		last := it.clk.CurrentTimeMillis()
		if len(it.threads) > 0 {
			last = it.threads[len(it.threads)-1].clock
		}
		if it.la == nil || tid != len(it.threads) || ck < last {
			return "bad-op"
		}
		it.threads = append(it.threads, thread{ck, parseProg(t[3:])})
		return ""
	case "sched":
		if it.la == nil || len(it.threads) == 0 {
			return "bad-op"
		}
		es, err := sched.ParseSchedule(t[1:])
		if err != nil {
			return "bad-op"
		}
		return it.round(es)
	case "stress":
		return stress(int(vh.U(t[1])), int(vh.U(t[2])), int(vh.U(t[3])), uint32(vh.U(t[4])), uint32(vh.U(t[5])), int64(vh.U(t[6])), it.clk)
	}
	return "bad-op"
}

// blockedWorker inspects all goroutines: returns the wait state of a worker of the current round that is blocked in a
// synchronisation primitive ("" if none), and the number of workers still alive.
func blockedWorker() (string, int) {
	buf := make([]byte, 1<<20)
	n := runtime.Stack(buf, true)
	state, alive := "", 0
	for _, g := range strings.Split(string(buf[:n]), "\n\n") {
		if !strings.Contains(g, "c09.(*Interp).round.func") || strings.Contains(g, "sched.Run(") {
			continue
		}
		alive++
		hdr := g
		if i := strings.Index(g, "\n"); i >= 0 {
			hdr = g[:i]
		}
		a, b := strings.Index(hdr, "["), strings.Index(hdr, "]")
		if a < 0 || b < a {
			continue
		}
		st := strings.Split(hdr[a+1:b], ",")[0]
		if strings.HasPrefix(st, "sync.") || strings.HasPrefix(st, "semacquire") {
			state = st
		}
	}
	return state, alive
}

func (it *Interp) round(es []sched.Entry) string {
	ths := it.threads
	it.threads = nil
	res := make([][]string, len(ths))
	workers := make([]func(), len(ths))
	for i := range ths {
		i := i
		workers[i] = func() {
			for _, o := range ths[i].prog {
				// exactly one worker runs at any time: this is the clock reading the operation itself takes
				now := it.clk.CurrentTimeMillis()
				val := "-"
				switch o.kind {
				case "add":
					it.la.AddCount(o.ev, o.amt)
				case "conc":
					it.la.UpdateConcurrency(int32(o.amt))
				case "count":
					val = fmt.Sprint(it.la.Count(o.ev))
				case "values":
					// BucketLeapArray.Values(now) + the caller's own summation: the same refresh, scan and per-bucket loads
					// (and the same yield points) as Count, through the other exported entry point
					sum := int64(0)
					for _, w := range it.la.Values(now) {
						sum += w.Value.Load().(*sbase.MetricBucket).Get(o.ev)
					}
					val = fmt.Sprint(sum)
				case "viewsum":
					val = fmt.Sprint(it.view.GetSum(o.ev))
				}
				res[i] = append(res[i], fmt.Sprintf("%d:%s", now, val))
			}
		}
	}
	if it.poisoned {
		// an earlier round of this process left a worker blocked for ever (and the scheduler's goroutine waiting for it):
		// no further round can be scheduled in this process
		return "sched-skipped (an earlier round of this run blocked)"
	}
	done := make(chan *sched.Report, 1)
	go func() {
		done <- sched.Run(workers, es, sched.Options{
			Prefixes:    []string{"la.", "bla.", "mb."},
			BeforeStart: func(tid int) { it.clk.SetMs(ths[tid].clock) },
			OnTick:      func(ms uint64) { it.clk.Ns += ms * 1e6 },
			StepTimeout: 5 * time.Minute,
			MaxSteps:    20000, // a legitimate round takes a few hundred steps; a livelock must end quickly
		})
	}()
	// Watchdog by goroutine *state*, not by time (a loaded or paused sandbox never looks blocked): exactly one worker runs at
	// any moment, the others are parked inside a yield hook; if the running one sits in a blocking synchronisation primitive
	// (sync.Mutex / RWMutex / semaphore) over several polls, whoever could release it is parked — it will never return.
	var rep *sched.Report
	tick := time.NewTicker(100 * time.Millisecond)
	defer tick.Stop()
	blockedPolls := 0
wait:
	for {
		select {
		case rep = <-done:
			break wait
		case <-tick.C:
			state, alive := blockedWorker()
			if state == "" {
				blockedPolls = 0
				continue
			}
			blockedPolls++
			if blockedPolls >= 5 {
				it.poisoned = true
				if alive <= 1 {
					return "sched-error deadlock: the only live thread is blocked for ever in " + state
				}
				return "sched-blocked: a thread blocks in " + state + " while the lock's holder is parked at a yield point inside the critical section (the schedule cannot be replayed at this granularity)"
			}
		}
	}
	if rep.Err != nil {
		return "sched-error " + strings.ReplaceAll(rep.Err.Error(), "\n", " ")
	}
	rs := make([]string, len(ths))
	ps := make([]string, len(ths))
	for i := range ths {
		if rep.Threads[i].Panic != nil {
			res[i] = append(res[i], fmt.Sprintf("PANIC(%v)", rep.Threads[i].Panic))
		}
		rs[i] = strings.Join(res[i], ",")
		ps[i] = strings.Join(rep.Threads[i].Points, ",")
	}
	now := it.clk.CurrentTimeMillis()
	return fmt.Sprintf("[round] res=[%s] pts=[%s] final=%s clock=%d", strings.Join(rs, "|"), strings.Join(ps, "|"), it.final(now), now)
}

// final prints the valid buckets at `now`, read without refresh (no state change).
func (it *Interp) final(now uint64) string {
	var xs []string
	for _, w := range it.la.ValuesConditional(now, func(uint64) bool { return true }) {
		mb := w.Value.Load().(*sbase.MetricBucket)
		xs = append(xs, fmt.Sprintf("%d:%d:%d:%d:%d:%d:%d:%d", atomic.LoadUint64(&w.BucketStart),
			mb.Get(base.MetricEventPass), mb.Get(base.MetricEventBlock), mb.Get(base.MetricEventComplete),
			mb.Get(base.MetricEventError), mb.Get(base.MetricEventRt), mb.MinRt(), mb.MaxConcurrency()))
	}
	return "[" + strings.Join(xs, ",") + "]"
}

// ---------------------------------------------------------------------------------------------
// randomized parallel stress, real scheduler, no hooks: reported <= started at every read
// ---------------------------------------------------------------------------------------------

type atomicClock struct{ ms uint64 }

func (c *atomicClock) Now() time.Time            { return time.Unix(0, int64(atomic.LoadUint64(&c.ms))*1e6) }
func (c *atomicClock) Sleep(d time.Duration)     { time.Sleep(d) }
func (c *atomicClock) CurrentTimeMillis() uint64 { return atomic.LoadUint64(&c.ms) }
func (c *atomicClock) CurrentTimeNano() uint64   { return atomic.LoadUint64(&c.ms) * 1e6 }

func stress(writers, readers, adds int, n, I uint32, seed int64, restore *vh.Clock) string {
	if n == 0 || I%n != 0 || I/n == 0 || writers <= 0 || readers <= 0 {
		return "bad-op"
	}
	clk := &atomicClock{ms: 1000000}
	util.SetClock(clk)
	defer vh.Install(restore)
	la := sbase.NewBucketLeapArray(n, I)
	view, err := sbase.NewSlidingWindowMetric(1, I, la)
	if err != nil {
		return "bad-op"
	}
	var started [5]int64 // per event: Σ amounts whose AddCount has been entered
	var bad atomic.Value
	var stop int32
	var wg, rg sync.WaitGroup
	L := uint64(I / n)
	// the clock runs fast: many rollovers during the run
	rg.Add(1)
	go func() {
		defer rg.Done()
		r := rand.New(rand.NewSource(seed))
		for atomic.LoadInt32(&stop) == 0 {
			atomic.AddUint64(&clk.ms, uint64(r.Intn(int(L)))+1)
			time.Sleep(20 * time.Microsecond)
		}
	}()
	for w := 0; w < writers; w++ {
		wg.Add(1)
		go func(w int) {
			defer wg.Done()
			r := rand.New(rand.NewSource(seed*1000 + int64(w)))
			for k := 0; k < adds; k++ {
				e := base.MetricEvent(r.Intn(4)) // pass, block, complete, error
				amt := int64(r.Intn(5) + 1)
				atomic.AddInt64(&started[e], amt)
				la.AddCount(e, amt)
			}
		}(w)
	}
	for rd := 0; rd < readers; rd++ {
		rg.Add(1)
		go func(rd int) {
			defer rg.Done()
			r := rand.New(rand.NewSource(seed*7777 + int64(rd)))
			for atomic.LoadInt32(&stop) == 0 {
				e := base.MetricEvent(r.Intn(4))
				var v int64
				if r.Intn(2) == 0 {
					v = la.Count(e)
				} else {
					v = view.GetSum(e)
				}
				s := atomic.LoadInt64(&started[e])
				if v > s || v < 0 {
					bad.Store(fmt.Sprintf("bad invented: read %d of event %d, only %d started", v, e, s))
					return
				}
			}
		}(rd)
	}
	wg.Wait()
	atomic.StoreInt32(&stop, 1)
	rg.Wait()
	if b := bad.Load(); b != nil {
		return b.(string)
	}
	return "ok"
}
