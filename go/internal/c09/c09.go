// Package c09 interprets the C09 op language against the real packages (stub).
package c09

import "verifharness/internal/vh"

// New returns the interpreter for C09.
func New() vh.Interp { return nil }
