// Package c16 interprets the C16 op language against the real packages (stub).
package c16

import "verifharness/internal/vh"

// New returns the interpreter for C16.
func New() vh.Interp { return nil }
