// Package c16 interprets the C16 op language against the real slot chain: recording slots whose behaviour
// table is given in the op lines are added with the public Add…Slot functions to real base.SlotChain
// objects, traffic goes through api.Entry(WithSlotChain) / SentinelEntry.Exit, and the *BlockError handed
// to the caller is kept and re-read after further traffic.
package c16

import (
	"errors"
	"fmt"
	"reflect"
	"runtime"
	"runtime/debug"
	"strconv"
	"strings"
	"unsafe"

	sentinel "github.com/alibaba/sentinel-golang/api"
	"github.com/alibaba/sentinel-golang/core/base"
	"verifharness/internal/vh"
)

type chainRec struct {
	sc *base.SlotChain
}

type entryRec struct {
	e   *base.SentinelEntry
	be  *base.BlockError
	ctx *base.EntryContext
	tr  *base.TokenResult
}

type Interp struct {
	chains  map[string]*chainRec
	entries map[string]*entryRec
	log     []string
	curCtx  *base.EntryContext
	cids    map[*base.EntryContext]int
	tids    map[*base.TokenResult]int
	clk     *vh.Clock
	// park, when set, is run by the first exit-handler / OnCompleted call that follows (op exit2): it parks the
	// first Exit inside its body until the overlapping second Exit call has started
	park func()
}

const startMs = 1_900_000_000_000

func New() vh.Interp {
	// one P, one thread, no background GC: sync.Pool reuse is deterministic (private slot, then LIFO shared)
	runtime.GOMAXPROCS(1)
	runtime.LockOSThread()
	debug.SetGCPercent(-1)
	vh.Silence()
	it := &Interp{clk: vh.NewClock(startMs)}
	it.Reset()
	// one recording slot of each kind (id 0) on api's real global chain: `entry <e> *` (api.Entry without WithSlotChain)
	// must run exactly these (the built-in slots are silent and pass: no rules are ever loaded here)
	g := sentinel.GlobalSlotChain()
	g.AddStatPrepareSlot(&pSlot{it: it, id: 0, order: 0, beh: "ok"})
	g.AddRuleCheckSlot(&rSlot{it: it, id: 0, order: 0, beh: "nil", rule: &rule{0}})
	g.AddStatSlot(&sSlot{it: it, id: 0, order: 0, beh: "ok"})
	return it
}

func (it *Interp) Reset() {
	it.chains = map[string]*chainRec{}
	it.entries = map[string]*entryRec{}
	it.log = nil
	it.curCtx = nil
	it.cids = map[*base.EntryContext]int{}
	it.tids = map[*base.TokenResult]int{}
	it.park = nil
	it.clk.SetMs(startMs)
	// two collections empty every sync.Pool (primary → victim → gone): each case starts with an empty context pool
	runtime.GC()
	runtime.GC()
}

func (it *Interp) call(ctx *base.EntryContext, what string) {
	it.curCtx = ctx
	it.log = append(it.log, what)
	if it.park != nil && (strings.HasPrefix(what, "H") || strings.HasSuffix(what, "c")) {
		p := it.park
		it.park = nil
		p()
	}
}

// exit2 runs two Exit calls on one entry so that they overlap deterministically: the first is parked inside its
// first exit handler / OnCompleted call, the second is started and runs until it returns or blocks (one P, cooperative
// hand-over), then the first is released.
func (it *Interp) exit2(e *base.SentinelEntry) string {
	entered, release := make(chan struct{}), make(chan struct{})
	doneA, doneB := make(chan struct{}), make(chan struct{})
	var panA, panB interface{}
	it.park = func() { close(entered); <-release }
	go func() {
		defer close(doneA)
		defer func() { panA = recover() }()
		e.Exit()
	}()
	select {
	case <-entered:
	case <-doneA:
	}
	go func() {
		defer close(doneB)
		defer func() { panB = recover() }()
		e.Exit()
	}()
	for i := 0; i < 64; i++ {
		runtime.Gosched()
	}
	it.park = nil
	close(release)
	<-doneA
	<-doneB
	if panA != nil || panB != nil {
		return fmt.Sprintf("PANIC %v %v", panA, panB)
	}
	return "ok"
}

func (it *Interp) handler(id int, beh string) base.ExitHandler {
	return func(e *base.SentinelEntry, ctx *base.EntryContext) error {
		it.call(ctx, fmt.Sprintf("H%d", id))
		switch beh {
		case "herr":
			return errors.New("exit handler error")
		case "hpanic":
			panic("exit handler panic")
		}
		return nil
	}
}

// ---- recording slots -------------------------------------------------------------------------

// slotErr is what a recording slot passes to ctx.SetError (no panic involved).
type slotErr struct{ id int }

func (e *slotErr) Error() string { return fmt.Sprintf("slot %d recorded an error", e.id) }

type pairKeyT struct{}

var pairKey = pairKeyT{}

// note writes into the entry context what the slot's behaviour table says: "e" SetError, "k" SetPair, "ek" both.
func note(ctx *base.EntryContext, id int, n string) {
	if strings.Contains(n, "e") {
		ctx.SetError(&slotErr{id})
	}
	if strings.Contains(n, "k") {
		ctx.SetPair(pairKey, id)
	}
}

type pSlot struct {
	it    *Interp
	id    int
	order uint32
	beh   string
	hook  string
	note  string
}

func (s *pSlot) Order() uint32 { return s.order }
func (s *pSlot) Prepare(ctx *base.EntryContext) {
	s.it.call(ctx, fmt.Sprintf("P%d", s.id))
	note(ctx, s.id, s.note)
	if s.hook != "" {
		ctx.Entry().WhenExit(s.it.handler(s.id, s.hook))
	}
	if s.beh == "panic" {
		panic("prepare slot panic")
	}
}

type rule struct{ id int }

func (r *rule) String() string       { return fmt.Sprintf("rule%d", r.id) }
func (r *rule) ResourceName() string { return "c16" }

type rSlot struct {
	it    *Interp
	id    int
	order uint32
	beh   string // pass pass1 nil wait wait0 wait1 panic | bf bc bo bn bt bb bm br bs
	typ   base.BlockType
	hook  string
	note  string
	rule  *rule
	own   *base.TokenResult
}

func (s *rSlot) Order() uint32 { return s.order }
func (s *rSlot) Check(ctx *base.EntryContext) *base.TokenResult {
	s.it.call(ctx, fmt.Sprintf("R%d", s.id))
	note(ctx, s.id, s.note)
	if s.hook != "" {
		ctx.Entry().WhenExit(s.it.handler(s.id, s.hook))
	}
	msg := strconv.Itoa(s.id)
	snap := int(s.order)
	switch s.beh {
	case "pass":
		return base.NewTokenResultPass()
	case "pass1":
		return base.NewTokenResult(base.ResultStatusPass)
	case "wait1":
		return base.NewTokenResult(base.ResultStatusShouldWait)
	case "bn":
		return base.NewTokenResult(base.ResultStatusBlocked) // no option at all: BlockTypeUnknown, no detail
	case "bt":
		return base.NewTokenResult(base.ResultStatusBlocked, base.WithBlockType(s.typ), base.WithRule(s.rule))
	case "bb":
		return base.NewTokenResultBlocked(s.typ)
	case "bm":
		return base.NewTokenResultBlockedWithMessage(s.typ, msg)
	case "bd":
		ctx.RuleCheckResult.DeepCopyFrom(base.NewTokenResultBlockedWithCause(s.typ, msg, s.rule, snap))
		return ctx.RuleCheckResult
	case "br":
		ctx.RuleCheckResult.ResetToPass()
		ctx.RuleCheckResult.ResetToBlocked(s.typ)
		return ctx.RuleCheckResult
	case "bs":
		ctx.RuleCheckResult.ResetToPass()
		ctx.RuleCheckResult.ResetToBlockedWithMessage(s.typ, msg)
		return ctx.RuleCheckResult
	case "nil":
		return nil
	case "wait":
		return base.NewTokenResultShouldWait(1000)
	case "wait0":
		return base.NewTokenResultShouldWait(0)
	case "panic":
		panic("rule slot panic")
	case "bf":
		return base.NewTokenResultBlockedWithCause(s.typ, msg, s.rule, snap)
	case "bc":
		ctx.RuleCheckResult.ResetToBlockedWithCause(s.typ, msg, s.rule, snap)
		return ctx.RuleCheckResult
	case "bo":
		s.own.ResetToBlockedWithCause(s.typ, msg, s.rule, snap)
		return s.own
	}
	panic("bad rule behaviour")
}

type sSlot struct {
	it    *Interp
	id    int
	order uint32
	beh   string // ok pp pb pc
	note  string
}

func beFields(b *base.BlockError) [4]string {
	if b == nil {
		return [4]string{"nil", "", "", ""}
	}
	m := b.BlockMsg()
	if m == "" {
		m = "-"
	}
	r := "?"
	if b.TriggeredRule() == nil {
		r = "-"
	} else if x, ok := b.TriggeredRule().(*rule); ok && x != nil {
		r = strconv.Itoa(x.id)
	}
	sn := "?"
	if b.TriggeredValue() == nil {
		sn = "-"
	} else if x, ok := b.TriggeredValue().(int); ok {
		sn = strconv.Itoa(x)
	}
	return [4]string{strconv.Itoa(int(b.BlockType())), m, r, sn}
}

func (s *sSlot) Order() uint32 { return s.order }
func (s *sSlot) OnEntryPassed(ctx *base.EntryContext) {
	s.it.call(ctx, fmt.Sprintf("S%d+", s.id))
	note(ctx, s.id, s.note)
	if s.beh == "pp" {
		panic("stat slot panic in OnEntryPassed")
	}
}
func (s *sSlot) OnEntryBlocked(ctx *base.EntryContext, b *base.BlockError) {
	f := beFields(b)
	if b == nil {
		s.it.call(ctx, fmt.Sprintf("S%d-nil", s.id))
	} else {
		s.it.call(ctx, fmt.Sprintf("S%d-%s", s.id, strings.Join(f[:], ".")))
	}
	note(ctx, s.id, s.note)
	if s.beh == "pb" {
		panic("stat slot panic in OnEntryBlocked")
	}
}
func (s *sSlot) OnCompleted(ctx *base.EntryContext) {
	s.it.call(ctx, fmt.Sprintf("S%dc", s.id))
	if s.beh == "pc" {
		panic("stat slot panic in OnCompleted")
	}
}

// ---- parsing ---------------------------------------------------------------------------------

func (it *Interp) addSlot(sc *base.SlotChain, tok string) bool {
	f := strings.Split(tok, ":")
	if len(f) < 4 || len(f) > 5 {
		return false
	}
	id, err1 := strconv.Atoi(f[1])
	ord, err2 := strconv.ParseUint(f[2], 10, 32)
	if err1 != nil || err2 != nil || id < 0 {
		return false
	}
	hook := ""
	if len(f) == 5 {
		hook = f[4]
		if hook != "hok" && hook != "herr" && hook != "hpanic" {
			return false
		}
	}
	nt := ""
	if bn := strings.Split(f[3], "+"); len(bn) == 2 && (bn[1] == "e" || bn[1] == "k" || bn[1] == "ek") {
		f[3], nt = bn[0], bn[1]
	} else if len(bn) != 1 {
		return false
	}
	switch f[0] {
	case "p":
		if f[3] != "ok" && f[3] != "panic" {
			return false
		}
		sc.AddStatPrepareSlot(&pSlot{it: it, id: id, order: uint32(ord), beh: f[3], hook: hook, note: nt})
	case "r":
		s := &rSlot{it: it, id: id, order: uint32(ord), beh: f[3], hook: hook, note: nt, rule: &rule{id}}
		switch f[3] {
		case "pass", "pass1", "nil", "wait", "wait0", "wait1", "panic":
		default:
			if len(f[3]) < 3 || !strings.Contains(" bf bc bo bn bt bb bm br bs bd ", " "+f[3][:2]+" ") {
				return false
			}
			t, err := strconv.ParseUint(f[3][2:], 10, 8)
			if err != nil {
				return false
			}
			s.beh, s.typ = f[3][:2], base.BlockType(t)
			if s.beh == "bo" {
				s.own = base.NewTokenResultPass()
			}
		}
		sc.AddRuleCheckSlot(s)
	case "s":
		if hook != "" || (f[3] != "ok" && f[3] != "pp" && f[3] != "pb" && f[3] != "pc") {
			return false
		}
		sc.AddStatSlot(&sSlot{it: it, id: id, order: uint32(ord), beh: f[3], note: nt})
	default:
		return false
	}
	return true
}

func validSlots(toks []string) bool {
	// validate before touching anything, so that a malformed op has no effect (like the model's parser)
	probe := &Interp{}
	sc := base.NewSlotChain()
	for _, t := range toks {
		if !probe.addSlot(sc, t) {
			return false
		}
	}
	return true
}

// field reads the unexported slice field of a SlotChain (the sorted slot list itself).
func field(sc *base.SlotChain, name string) reflect.Value {
	f := reflect.ValueOf(sc).Elem().FieldByName(name)
	return reflect.NewAt(f.Type(), unsafe.Pointer(f.UnsafeAddr())).Elem()
}

func sortedIDs(sc *base.SlotChain) string {
	var p, r, s []string
	for _, x := range field(sc, "statPres").Interface().([]base.StatPrepareSlot) {
		p = append(p, "P"+strconv.Itoa(x.(*pSlot).id))
	}
	for _, x := range field(sc, "ruleChecks").Interface().([]base.RuleCheckSlot) {
		r = append(r, "R"+strconv.Itoa(x.(*rSlot).id))
	}
	for _, x := range field(sc, "stats").Interface().([]base.StatSlot) {
		s = append(s, "S"+strconv.Itoa(x.(*sSlot).id))
	}
	return vh.List(p) + " " + vh.List(r) + " " + vh.List(s)
}

// ours reports the harness's own recording slots (not part of the built-in chain).
func ours(x interface{}) bool {
	switch x.(type) {
	case *pSlot, *rSlot, *sSlot:
		return true
	}
	return false
}

func named(x interface{ Order() uint32 }) string {
	return fmt.Sprintf("%s:%d", strings.TrimPrefix(fmt.Sprintf("%T", x), "*"), x.Order())
}

func globalOrder() string {
	sc := sentinel.GlobalSlotChain()
	var p, r, s []string
	for _, x := range field(sc, "statPres").Interface().([]base.StatPrepareSlot) {
		if !ours(x) {
			p = append(p, named(x))
		}
	}
	for _, x := range field(sc, "ruleChecks").Interface().([]base.RuleCheckSlot) {
		if !ours(x) {
			r = append(r, named(x))
		}
	}
	for _, x := range field(sc, "stats").Interface().([]base.StatSlot) {
		if !ours(x) {
			s = append(s, named(x))
		}
	}
	return vh.List(p) + " " + vh.List(r) + " " + vh.List(s)
}

// ---- ops -------------------------------------------------------------------------------------

func (it *Interp) Step(t []string, op string) string {
	switch {
	case t[0] == "chain" && len(t) >= 2:
		if _, ok := it.chains[t[1]]; ok || t[1] == "*" || !validSlots(t[2:]) {
			return "bad-op"
		}
		sc := base.NewSlotChain()
		for _, tok := range t[2:] {
			it.addSlot(sc, tok)
		}
		it.chains[t[1]] = &chainRec{sc: sc}
		return sortedIDs(sc)
	case t[0] == "add" && len(t) == 3:
		c, ok := it.chains[t[1]]
		if !ok || !validSlots(t[2:]) {
			return "bad-op"
		}
		it.addSlot(c.sc, t[2])
		return sortedIDs(c.sc)
	case t[0] == "entry" && len(t) == 3:
		c, ok := it.chains[t[2]]
		global := t[2] == "*"
		if _, dup := it.entries[t[1]]; (!ok && !global) || dup {
			return "bad-op"
		}
		it.log, it.curCtx = nil, nil
		var e *base.SentinelEntry
		var be *base.BlockError
		if global {
			// no WithSlotChain: api.Entry must resolve the global chain, whatever chain earlier entries selected
			e, be = sentinel.Entry("c16-global")
		} else {
			e, be = sentinel.Entry("c16-"+t[2], sentinel.WithSlotChain(c.sc))
		}
		rec := &entryRec{e: e, be: be}
		if be != nil {
			rec.ctx = it.curCtx // a rule slot ran, so the context has been seen
			f := beFields(be)
			it.entries[t[1]] = rec
			if rec.ctx != nil {
				rec.tr = rec.ctx.RuleCheckResult
			}
			return "block " + strings.Join(f[:], " ")
		}
		if e == nil {
			return "neither-entry-nor-error"
		}
		rec.ctx = e.Context()
		rec.tr = rec.ctx.RuleCheckResult
		it.entries[t[1]] = rec
		return "pass"
	case t[0] == "whenexit" && len(t) == 4:
		r, ok := it.entries[t[1]]
		id, err := strconv.Atoi(t[2])
		if !ok || r.e == nil || err != nil || id < 0 || (t[3] != "hok" && t[3] != "herr" && t[3] != "hpanic") {
			return "bad-op"
		}
		r.e.WhenExit(it.handler(id, t[3]))
		return ""
	case t[0] == "exit" && len(t) == 2:
		r, ok := it.entries[t[1]]
		if !ok || r.e == nil {
			return "bad-op"
		}
		it.log = nil
		r.e.Exit()
		return "ok"
	case t[0] == "exit2" && len(t) == 2:
		r, ok := it.entries[t[1]]
		if !ok || r.e == nil {
			return "bad-op"
		}
		it.log = nil
		return it.exit2(r.e)
	case t[0] == "clock" && len(t) == 2:
		ms, err := strconv.ParseUint(t[1], 10, 64)
		if err != nil {
			return "bad-op"
		}
		it.clk.SetMs(ms)
		return ""
	case t[0] == "log" && len(t) == 1:
		return vh.List(it.log)
	case t[0] == "ident" && len(t) == 2:
		r, ok := it.entries[t[1]]
		if !ok {
			return "bad-op"
		}
		if _, ok := it.cids[r.ctx]; !ok {
			it.cids[r.ctx] = len(it.cids)
		}
		if _, ok := it.tids[r.tr]; !ok {
			it.tids[r.tr] = len(it.tids)
		}
		return fmt.Sprintf("ctx %d tr %d", it.cids[r.ctx], it.tids[r.tr])
	case t[0] == "blockerr" && len(t) == 2:
		r, ok := it.entries[t[1]]
		if !ok || r.be == nil {
			return "bad-op"
		}
		f := beFields(r.be)
		return strings.Join(f[:], " ")
	case t[0] == "globalorder" && len(t) == 1:
		return globalOrder()
	case t[0] == "ctx" && len(t) == 3 && (t[2] == "err" || t[2] == "pair"):
		r, ok := it.entries[t[1]]
		if !ok {
			return "bad-op"
		}
		if r.ctx == nil {
			return "no-context"
		}
		if t[2] == "pair" {
			if v, ok := r.ctx.GetPair(pairKey).(int); ok {
				return fmt.Sprintf("K%d", v)
			}
			return "-"
		}
		switch e := r.ctx.Err().(type) {
		case nil:
			return "-"
		case *slotErr:
			return fmt.Sprintf("E%d", e.id)
		default:
			return "panic" // the only other writer is the deferred recover of SlotChain.Entry
		}
	}
	return "bad-op"
}
