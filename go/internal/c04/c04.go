// Package c04 interprets the C04 op language against the real packages: isolation.LoadRules,
// api.Entry(WithBatchCount), SentinelEntry.Exit and the resource node's concurrency gauge.
//
//	load <res:threshold>*
//	entry <id> <res> <batch> [type=<t>]      => pass | block iso <rule-index> <triggered-value> | dup   (WithResourceType)
//	exit <id> [err]                          (err: Exit(WithError(..)))
//	entry <id> <res> - [type=<t>]            (no WithBatchCount option: default batch 1)
//	manyres <n>                              (enter+exit n fresh rule-less resources "#<k>")
//	sload … / sloadres …                     (= load / loadres through one reused caller-owned slice whose elements are overwritten after the call)
//	poke <res> <idx> <thr>                   (edit Threshold of a loaded, valid rule object in place; thr != 0)
//	rules <res> => [idx:thr,…]   rules => [res:idx:thr,…]   (GetRulesOfResource / GetRules, the latter sorted)
//	entry … [type=<t>] [in]                  (in: WithTrafficType(Inbound))
//	loadres <res> <thr>* / clearres <res>    (isolation.LoadRulesOfResource / ClearRulesOfResource, also on rule-less resources)
//	clock <ms>                               (virtual clock := case start - 10000 + ms, 0 <= ms <= 20000; may step backwards)
//	when <id> ok|err                         (entry.WhenExit: a handler returning nil / an error; the gauge comes back all the same)
//	pexit <id>                               (WhenExit handler that panics, then Exit)
//	idmode pos|same|empty|mixed              (how Rule.ID is filled by the following loads; rules are identified by object, never by ID)
//	resource names: any token; "~" stands for a space
//	trace <id>                               (api.TraceError on the entry, live or exited)
//	dexit <id>                               (Exit called by TWO goroutines that meet inside the completion path, see rdv)
//	conc <res>                               => gauge
//	sched <id0> <res> <b0,b1,…> <i0,i1,…|->  => [r0,…] max=<g>
//	par <id0> <k> <res> <batch>              = sched id0 res b,…,b 0,…,k-1,0,…,k-1
//	soak <res> <goroutines> <rounds> <batch> [x2] => gauge0=ok max<=<bound> min=ok rej=ok cold=ok total=ok
//	                                         (x2: every admitted entry is exited by two goroutines at once)
//
// soak: real goroutines (GOMAXPROCS = NumCPU for the op, no hooks) loop Entry/Exit on the resource.  Only verdicts
// are printed, never the racy values: gauge0 = the gauge is back to its value before the op once all have exited;
// min = no worker read less than g0+1 right after its own admission (its own entry is in flight);
// max = the largest gauge a worker read right after its own admission is within max(g0, N+z)+(goroutines-1)
// (N = tightest threshold; g0+goroutines without rule) - the bound is printed and compared with the model's;
// cold = 100 never-seen resources entered by all goroutines at once: each gauge reads exactly `goroutines` while all hold, 0 after;
// rej = nobody was rejected when g0+(goroutines-1)+batch <= N; total = admitted+blocked = attempted.
//
// sched: thread i is a goroutine calling api.Entry(res, WithBatchCount(b_i)); the yield hook
// chain.between-check-and-stat (util/verifhook.Sched) parks it between the rule check and the statistic
// slots.  One schedule entry = one step of the thread it names: idle -> run up to the hook; parked -> finish
// api.Entry; in flight -> Exit.  Entries naming a finished (blocked/exited) or unknown thread are skipped.  After the schedule
// every thread still parked inside api.Entry is let through in index order.  The gauge is sampled after
// every step; its maximum is printed.
package c04

import (
	"fmt"
	"runtime"
	"runtime/debug"
	"sort"
	"strconv"
	"strings"
	"sync"
	"sync/atomic"
	"time"

	"github.com/pkg/errors"

	sentinel "github.com/alibaba/sentinel-golang/api"
	"github.com/alibaba/sentinel-golang/core/base"
	"github.com/alibaba/sentinel-golang/core/flow"
	"github.com/alibaba/sentinel-golang/core/isolation"
	"github.com/alibaba/sentinel-golang/core/stat"
	"github.com/alibaba/sentinel-golang/util/verifhook"
	"verifharness/internal/vh"
)

const hookPoint = "chain.between-check-and-stat"

type handle struct {
	e      *base.SentinelEntry
	exited bool
}

type thread struct {
	grant chan struct{}
	yield chan struct{}
	state int // 0 idle, 1 parked in the hook, 2 returned from api.Entry, 3 exited
	e     *base.SentinelEntry
	b     *base.BlockError
}

// rdv makes two Exit calls on one entry meet inside the completion path: two user StatSlots, one ordered just before and one
// just after the statistic slot, in which (while armed) a caller waits for a second caller or for a short real-time timeout.
// With a correct Exit (sync.Once) only one caller ever arrives: it times out once at the first slot and skips the second.
type rdv struct {
	armed atomic.Bool
	mu    sync.Mutex
	n     [2]int
	ch    [2]chan struct{}
	solo  bool
}

type rdvSlot struct {
	r     *rdv
	idx   int
	order uint32
}

func (s *rdvSlot) Order() uint32                                        { return s.order }
func (s *rdvSlot) OnEntryPassed(*base.EntryContext)                     {}
func (s *rdvSlot) OnEntryBlocked(*base.EntryContext, *base.BlockError) {}
func (s *rdvSlot) OnCompleted(*base.EntryContext) {
	r := s.r
	if !r.armed.Load() {
		return
	}
	r.mu.Lock()
	if s.idx == 1 && r.solo {
		r.mu.Unlock()
		return
	}
	r.n[s.idx]++
	if r.n[s.idx] == 2 {
		close(r.ch[s.idx])
	}
	c := r.ch[s.idx]
	r.mu.Unlock()
	select {
	case <-c:
	case <-time.After(3 * time.Millisecond):
		r.mu.Lock()
		r.solo = true
		r.mu.Unlock()
	}
}

func (r *rdv) arm() {
	r.mu.Lock()
	r.n = [2]int{}
	r.ch = [2]chan struct{}{make(chan struct{}), make(chan struct{})}
	r.solo = false
	r.mu.Unlock()
	r.armed.Store(true)
}

var errTraced = errors.New("c04: traced error")

var resTypes = map[string]base.ResourceType{
	"common": base.ResTypeCommon, "web": base.ResTypeWeb, "rpc": base.ResTypeRPC, "gateway": base.ResTypeAPIGateway,
	"dbsql": base.ResTypeDBSQL, "cache": base.ResTypeCache, "mq": base.ResTypeMQ,
}

type Interp struct {
	rdv   *rdv
	clk   *vh.Clock
	now   uint64
	ents  map[uint64]*handle
	idmode  string
	pos     map[*isolation.Rule]int       // position of every rule object in the load call that created it
	held    map[string][]*isolation.Rule // the valid rule objects the module holds, per resource (for poke)
	scratch [2][]*isolation.Rule         // the caller-owned slices reused by sload [0] / sloadres [1]
	fresh int
	cur   *thread // the scheduled worker currently running (nil: the interpreter itself)
}

func New() vh.Interp {
	vh.Silence()
	runtime.GOMAXPROCS(1)
	runtime.LockOSThread() // with GC off and one P the sync.Pools hand back the object just put: pooled-state leaks are deterministic
	debug.SetGCPercent(-1)
	it := &Interp{now: 1_900_000_000_000}
	it.clk = vh.NewClock(it.now)
	verifhook.Sched = it.hook
	it.rdv = &rdv{}
	sentinel.GlobalSlotChain().AddStatSlot(&rdvSlot{r: it.rdv, idx: 0, order: stat.StatSlotOrder - 1})
	sentinel.GlobalSlotChain().AddStatSlot(&rdvSlot{r: it.rdv, idx: 1, order: stat.StatSlotOrder + 1})
	return it
}

func (it *Interp) hook(point string) {
	t := it.cur
	if t == nil || point != hookPoint {
		return
	}
	t.state = 1
	t.yield <- struct{}{}
	<-t.grant
}

func (it *Interp) Reset() {
	// finish whatever the previous case left in flight, then clear every module this property touches
	for _, h := range it.ents {
		if !h.exited {
			h.e.Exit()
		}
	}
	it.ents = map[uint64]*handle{}
	it.fresh = 0
	it.held = map[string][]*isolation.Rule{}
	it.pos = map[*isolation.Rule]int{}
	it.idmode = "pos"
	_ = isolation.ClearRules()
	_ = flow.ClearRules()
	stat.ResetResourceNodeMap()
	it.now += 50_000 // cases are more than the whole default array interval (10 s) apart; `clock` moves within it.now-10000 .. it.now+10000
	it.clk.SetMs(it.now)
}

// buf returns an empty slice for the rules of one load call: a fresh one, or (scratch) the one caller-owned slice that every
// s-load reuses.
// The slice of sloadres is a fixed array of 64 (never re-allocated, so it is the same backing array for the whole run; lists are
// shorter); sload has a slice of its own (LoadRules regroups its argument into fresh slices and keeps nothing of it).
func (it *Interp) buf(scratch bool, which, n int) []*isolation.Rule {
	if !scratch {
		return make([]*isolation.Rule, 0, n)
	}
	if it.scratch[which] == nil || cap(it.scratch[which]) < n {
		it.scratch[which] = make([]*isolation.Rule, 0, 64+n)
	}
	return it.scratch[which][:0]
}

// scribble overwrites every element of the caller-owned slice after the load call: the enforced rules must be those of the load.
func (it *Interp) scribble(scratch bool, rules []*isolation.Rule) {
	if !scratch {
		return
	}
	all := rules[:cap(rules)]
	for i := range all {
		all[i] = &isolation.Rule{ID: "junk", Resource: "#junk", MetricType: isolation.Concurrency, Threshold: 1}
	}
}

func u32(s string) uint32 {
	v, err := strconv.ParseUint(s, 10, 32)
	if err != nil {
		panic("bad uint32 " + s)
	}
	return uint32(v)
}

func list(s string) []string {
	if s == "-" {
		return nil
	}
	return strings.Split(s, ",")
}

func (it *Interp) gauge(res string) int32 {
	n := stat.GetResourceNode(res)
	if n == nil {
		return 0
	}
	return n.CurrentConcurrency()
}

func (it *Interp) live(id uint64) bool {
	h, ok := it.ents[id]
	return ok && !h.exited
}

// blockParts returns (rule-index, triggered-value) of an isolation block ("other:<type>", "?" for anything else).
func (it *Interp) blockParts(b *base.BlockError) (string, string) {
	if b.BlockType() != base.BlockTypeIsolation {
		return "other:" + b.BlockType().String(), "?"
	}
	idx := "?"
	if r, ok := b.TriggeredRule().(*isolation.Rule); ok && r != nil {
		// the rule is identified by the object (its position in the load that created it), not by Rule.ID: ids may be shared or empty
		if p, ok := it.pos[r]; ok {
			idx = strconv.Itoa(p)
		} else {
			idx = "id=" + r.ID
		}
	}
	return idx, fmt.Sprint(b.TriggeredValue())
}

// renumber: a load reported "unchanged" keeps the module's old, content-equal rule objects; they now stand for the rules of this
// load, so they take over the positions of the new list (with ids that do not encode the position the two lists can differ in it).
func (it *Interp) renumber(rules []*isolation.Rule) {
	k := map[string]int{}
	for _, r := range rules {
		if r.Threshold == 0 {
			continue
		}
		if hs := it.held[r.Resource]; k[r.Resource] < len(hs) {
			it.pos[hs[k[r.Resource]]] = it.pos[r]
		}
		k[r.Resource]++
	}
}

// mkRule builds the i-th rule of a load call; Rule.ID follows the id mode (the harness identifies rules by object, not by ID).
func (it *Interp) mkRule(i int, res string, thr uint32) *isolation.Rule {
	id := strconv.Itoa(i)
	switch it.idmode {
	case "same":
		id = "pool-limit"
	case "empty":
		id = ""
	case "mixed":
		switch i % 3 {
		case 0:
			id = "pool-limit"
		case 1:
			id = ""
		}
	}
	r := &isolation.Rule{ID: id, Resource: res, MetricType: isolation.Concurrency, Threshold: thr}
	it.pos[r] = i
	return r
}

func (it *Interp) Step(t []string, op string) string {
	// "~" in a token stands for a space (resource names with spaces; tokens themselves cannot contain one)
	for i := 1; i < len(t); i++ {
		if strings.Contains(t[i], "~") {
			t[i] = strings.ReplaceAll(t[i], "~", " ")
		}
	}
	switch t[0] {
	case "load", "sload":
		// sload: the same call through ONE caller-owned slice reused by every s-load, whose elements are overwritten afterwards
		rules := it.buf(t[0] == "sload", 0, len(t)-1)
		for i, a := range t[1:] {
			k := strings.IndexByte(a, ':')
			if k <= 0 {
				panic("bad rule " + a)
			}
			rules = append(rules, it.mkRule(i, a[:k], u32(a[k+1:])))
		}
		changed, err := isolation.LoadRules(rules)
		if err != nil {
			return "err"
		}
		if changed { // otherwise the module keeps the objects it already has
			it.held = map[string][]*isolation.Rule{}
			for _, r := range rules {
				if r.Threshold != 0 {
					it.held[r.Resource] = append(it.held[r.Resource], r)
				}
			}
		} else {
			it.renumber(rules)
		}
		it.scribble(t[0] == "sload", rules)
		return ""
	case "loadres", "clearres", "sloadres":
		res := t[1]
		if t[0] == "clearres" {
			if err := isolation.ClearRulesOfResource(res); err != nil {
				return "err"
			}
			delete(it.held, res)
			return ""
		}
		rules := it.buf(t[0] == "sloadres", 1, len(t)-2)
		for i, a := range t[2:] {
			rules = append(rules, it.mkRule(i, res, u32(a)))
		}
		changed, err := isolation.LoadRulesOfResource(res, rules)
		if err != nil {
			return "err"
		}
		if changed {
			delete(it.held, res)
			for _, r := range rules {
				if r.Threshold != 0 {
					it.held[res] = append(it.held[res], r)
				}
			}
		} else {
			it.renumber(rules)
		}
		it.scribble(t[0] == "sloadres", rules)
		return ""
	case "poke":
		// the caller edits the threshold of a rule object it loaded earlier (only valid rules, only to non-zero values)
		for _, r := range it.held[t[1]] {
			if p, ok := it.pos[r]; ok && strconv.Itoa(p) == t[2] {
				r.Threshold = u32(t[3])
			}
		}
		return ""
	case "rules":
		// GetRules* return copies: the k-th rule reported for a resource is matched with the k-th valid rule object loaded for it
		name := func(res string, k int, thr uint32) string {
			if hs := it.held[res]; k < len(hs) && hs[k].Threshold == thr {
				return strconv.Itoa(it.pos[hs[k]])
			}
			return "?"
		}
		if len(t) > 1 {
			rs := isolation.GetRulesOfResource(t[1])
			out := make([]string, len(rs))
			for i, r := range rs {
				out[i] = fmt.Sprintf("%s:%d", name(t[1], i, r.Threshold), r.Threshold)
			}
			return vh.List(out)
		}
		rs := isolation.GetRules()
		enc := func(n string) string { return strings.ReplaceAll(n, " ", "~") }
		sort.SliceStable(rs, func(i, j int) bool { return enc(rs[i].Resource) < enc(rs[j].Resource) })
		out := make([]string, len(rs))
		k := 0
		for i, r := range rs {
			if i > 0 && rs[i-1].Resource != r.Resource {
				k = 0
			}
			out[i] = fmt.Sprintf("%s:%s:%d", strings.ReplaceAll(r.Resource, " ", "~"), name(r.Resource, k, r.Threshold), r.Threshold)
			k++
		}
		return vh.List(out)
	case "idmode":
		// how Rule.ID is filled by the following loads: pos (the position), same (one shared non-empty id), empty, mixed
		it.idmode = t[1]
		return ""
	case "clock":
		// offset from the case start (the case starts at offset 10000); may step backwards
		it.clk.SetMs(it.now - 10_000 + vh.U(t[1]))
		return ""
	case "entry":
		id := vh.U(t[1])
		if it.live(id) {
			return "dup"
		}
		var opts []sentinel.EntryOption
		if t[3] != "-" { // "-": no batch option at all (EntryOptions default: 1)
			opts = append(opts, sentinel.WithBatchCount(u32(t[3])))
		}
		for _, o := range t[4:] {
			if o == "in" {
				opts = append(opts, sentinel.WithTrafficType(base.Inbound))
				continue
			}
			rt, ok := resTypes[strings.TrimPrefix(o, "type=")]
			if !ok || !strings.HasPrefix(o, "type=") {
				panic("bad entry option " + o)
			}
			opts = append(opts, sentinel.WithResourceType(rt))
		}
		e, b := sentinel.Entry(t[2], opts...)
		if b != nil {
			idx, tv := it.blockParts(b)
			return "block iso " + idx + " " + tv
		}
		it.ents[id] = &handle{e: e}
		return "pass"
	case "exit":
		if h, ok := it.ents[vh.U(t[1])]; ok {
			// a second Exit of the same entry must be a no-op (sync.Once)
			if len(t) > 2 && t[2] == "err" {
				h.e.Exit(base.WithError(errTraced))
			} else {
				h.e.Exit()
			}
			h.exited = true
		}
		return ""
	case "when":
		// register an exit handler on a live entry: returns nil ("ok") or an error ("err"); the completion must run all the same
		if h, ok := it.ents[vh.U(t[1])]; ok && !h.exited {
			fail := t[2] == "err"
			if t[2] != "ok" && !fail {
				panic("bad handler kind " + t[2])
			}
			h.e.WhenExit(func(*base.SentinelEntry, *base.EntryContext) error {
				if fail {
					return errTraced
				}
				return nil
			})
		}
		return ""
	case "pexit":
		// Exit of an entry with a panicking exit handler (Exit recovers the panic)
		if h, ok := it.ents[vh.U(t[1])]; ok && !h.exited {
			h.e.WhenExit(func(*base.SentinelEntry, *base.EntryContext) error { panic("c04: exit handler panics") })
			h.e.Exit()
			h.exited = true
		}
		return ""
	case "trace":
		if h, ok := it.ents[vh.U(t[1])]; ok {
			sentinel.TraceError(h.e, errTraced)
		}
		return ""
	case "manyres":
		// enter and exit n fresh resources (no rule): the node map grows past base.DefaultMaxResourceAmount
		n := int(vh.U(t[1]))
		for i := 0; i < n; i++ {
			it.fresh++
			e, b := sentinel.Entry("#" + strconv.Itoa(it.fresh))
			if b != nil {
				return "blocked " + b.BlockType().String()
			}
			e.Exit()
		}
		return ""
	case "dexit":
		if h, ok := it.ents[vh.U(t[1])]; ok {
			it.rdv.arm()
			var wg sync.WaitGroup
			for i := 0; i < 2; i++ {
				wg.Add(1)
				go func() {
					defer wg.Done()
					h.e.Exit()
				}()
			}
			wg.Wait()
			it.rdv.armed.Store(false)
			h.exited = true
		}
		return ""
	case "conc":
		return fmt.Sprint(it.gauge(t[1]))
	case "par":
		k := int(vh.U(t[2]))
		bs := make([]string, k)
		sch := make([]string, 0, 2*k)
		for i := 0; i < k; i++ {
			bs[i] = t[4]
			sch = append(sch, strconv.Itoa(i))
		}
		sch = append(sch, sch...)
		return it.sched(vh.U(t[1]), t[3], bs, sch)
	case "sched":
		return it.sched(vh.U(t[1]), t[2], list(t[3]), list(t[4]))
	case "soak":
		return it.soak(t[1], int(vh.U(t[2])), int(vh.U(t[3])), u32(t[4]), len(t) > 5 && t[5] == "x2")
	}
	panic("unknown op " + t[0])
}

func (it *Interp) sched(id0 uint64, res string, bs, sch []string) string {
	m := len(bs)
	for i := 0; i < m; i++ {
		if it.live(id0 + uint64(i)) {
			return "dup"
		}
	}
	ths := make([]*thread, m)
	for i := range ths {
		t := &thread{grant: make(chan struct{}), yield: make(chan struct{})}
		b := u32(bs[i])
		ths[i] = t
		go func() {
			if _, ok := <-t.grant; !ok {
				return // never scheduled
			}
			t.e, t.b = sentinel.Entry(res, sentinel.WithBatchCount(b))
			t.state = 2
			t.yield <- struct{}{}
			if t.b != nil {
				return
			}
			if _, ok := <-t.grant; !ok {
				return // stays in flight
			}
			t.e.Exit()
			t.state = 3
			t.yield <- struct{}{}
		}()
	}
	mx := it.gauge(res)
	step := func(i int) {
		t := ths[i]
		if t.state == 3 || (t.state == 2 && t.b != nil) {
			return
		}
		it.cur = t
		t.grant <- struct{}{}
		<-t.yield
		it.cur = nil
		if g := it.gauge(res); g > mx {
			mx = g
		}
	}
	for _, s := range sch {
		i := int(vh.U(s))
		if i < m {
			step(i)
		}
	}
	for i, t := range ths {
		if t.state == 1 {
			step(i)
		}
	}
	out := make([]string, m)
	for i, t := range ths {
		switch {
		case t.state == 0:
			out[i] = "-"
			close(t.grant)
		case t.state == 2 && t.b != nil:
			idx, tv := it.blockParts(t.b)
			out[i] = "b" + idx + ":" + tv
		case t.state == 2:
			out[i] = "p"
			close(t.grant)
			it.ents[id0+uint64(i)] = &handle{e: t.e}
		case t.state == 3:
			out[i] = "x"
		default:
			out[i] = "?"
		}
	}
	return vh.List(out) + " max=" + fmt.Sprint(mx)
}

func (it *Interp) soak(res string, gor, rounds int, batch uint32, x2 bool) string {
	g0 := int64(it.gauge(res))
	minN, has := int64(0), false
	for _, r := range isolation.GetRulesOfResource(res) {
		if !has || int64(r.Threshold) < minN {
			minN, has = int64(r.Threshold), true
		}
	}
	bound := g0 + int64(gor)
	if has {
		nz := minN
		if batch == 0 {
			nz++
		}
		if g0 > nz {
			nz = g0
		}
		bound = nz + int64(gor) - 1
	}
	saved := verifhook.Sched
	verifhook.Sched = nil
	prev := runtime.GOMAXPROCS(runtime.NumCPU())
	var wg sync.WaitGroup
	var admitted, blocked, maxSeen, minSeen int64
	maxSeen, minSeen = g0, g0+1
	start := make(chan struct{})
	for w := 0; w < gor; w++ {
		wg.Add(1)
		go func() {
			defer wg.Done()
			<-start
			var a, b, mx int64
			mn := g0 + 1
			var hand chan *base.SentinelEntry
			var done chan struct{}
			if x2 {
				hand, done = make(chan *base.SentinelEntry), make(chan struct{})
				go func() {
					for e := range hand {
						e.Exit()
						done <- struct{}{}
					}
				}()
				defer close(hand)
			}
			for i := 0; i < rounds; i++ {
				e, be := sentinel.Entry(res, sentinel.WithBatchCount(batch))
				if be != nil {
					b++
					continue
				}
				g := int64(it.gauge(res))
				if g > mx {
					mx = g
				}
				if g < mn {
					mn = g
				}
				if x2 {
					hand <- e // the partner and this worker now call Exit on the same entry at once
					e.Exit()
					<-done
				} else {
					e.Exit()
				}
				a++
			}
			atomic.AddInt64(&admitted, a)
			atomic.AddInt64(&blocked, b)
			for {
				cur := atomic.LoadInt64(&maxSeen)
				if mx <= cur || atomic.CompareAndSwapInt64(&maxSeen, cur, mx) {
					break
				}
			}
			for {
				cur := atomic.LoadInt64(&minSeen)
				if mn >= cur || atomic.CompareAndSwapInt64(&minSeen, cur, mn) {
					break
				}
			}
		}()
	}
	close(start)
	wg.Wait()
	cold := it.coldStart(gor, 100)
	runtime.GOMAXPROCS(prev)
	verifhook.Sched = saved
	out := make([]string, 0, 4)
	if g := int64(it.gauge(res)); g == g0 {
		out = append(out, "gauge0=ok")
	} else {
		out = append(out, fmt.Sprintf("gauge0=%d!=%d", g, g0))
	}
	if maxSeen <= bound {
		out = append(out, fmt.Sprintf("max<=%d", bound))
	} else {
		out = append(out, fmt.Sprintf("max=%d>%d", maxSeen, bound))
	}
	if minSeen >= g0+1 {
		out = append(out, "min=ok")
	} else {
		out = append(out, fmt.Sprintf("min=%d<%d", minSeen, g0+1))
	}
	if has && g0+int64(gor)-1+int64(batch) <= minN && blocked != 0 {
		out = append(out, fmt.Sprintf("rej=%d", blocked))
	} else {
		out = append(out, "rej=ok")
	}
	out = append(out, cold)
	if admitted+blocked == int64(gor)*int64(rounds) {
		out = append(out, "total=ok")
	} else {
		out = append(out, fmt.Sprintf("total=%d+%d!=%d", admitted, blocked, int64(gor)*int64(rounds)))
	}
	return strings.Join(out, " ")
}

// coldStart: `rounds` times, `gor` goroutines released together enter one never-seen rule-less resource, all hold their entry until
// everybody is in, then all exit.  While all are held the gauge of that resource must be exactly gor (every first entry is counted on
// the node the others see), afterwards 0.
func (it *Interp) coldStart(gor, rounds int) string {
	for j := 0; j < rounds; j++ {
		it.fresh++
		name := "#c" + strconv.Itoa(it.fresh)
		start, release := make(chan struct{}), make(chan struct{})
		var entered, done sync.WaitGroup
		var blocked int64
		for w := 0; w < gor; w++ {
			entered.Add(1)
			done.Add(1)
			go func() {
				defer done.Done()
				<-start
				e, b := sentinel.Entry(name)
				entered.Done()
				if b != nil {
					atomic.AddInt64(&blocked, 1)
					return
				}
				<-release
				e.Exit()
			}()
		}
		close(start)
		entered.Wait()
		held := int64(it.gauge(name))
		close(release)
		done.Wait()
		if after := int64(it.gauge(name)); held != int64(gor) || after != 0 || blocked != 0 {
			return fmt.Sprintf("cold=%d/%d,then%d,blocked%d", held, gor, after, blocked)
		}
	}
	return "cold=ok"
}
