// Package c04 interprets the C04 op language against the real packages (stub).
package c04

import "verifharness/internal/vh"

// New returns the interpreter for C04.
func New() vh.Interp { return nil }
