// Package cint interprets the integrated default-chain op language (check INT) against the real packages:
// every rule manager loaded at once (system, flow, isolation, hotspot, circuitbreaker), traffic through api.Entry on
// the GLOBAL slot chain (no WithSlotChain), api.TraceError / Exit, a registered breaker listener, statistics read
// from stat.GetResourceNode / stat.InboundNode, system load / cpu through the system_metric injection.
//
// Time: cases carry absolute virtual times (>= 1.9e12 ms, i.e. after the wall clock: the package-level inbound node
// was created at init with the real clock).  When several cases run in one process the interpreter shifts the
// times of a case by a multiple of 720 720 000 ms so that the case starts more than one array interval (10 s) after
// everything recorded before; 720 720 000 = 1000·lcm(1..16) is a multiple of every leap-array interval the generator
// uses (node 10 000, flow statistic intervals, breaker statistic intervals), so bucket starts and slot indices of
// every array keep their alignment.  A single-case run (every replay) is not shifted at all.
package cint

import (
	"errors"
	"fmt"
	"reflect"
	"runtime"
	"runtime/debug"
	"sort"
	"strconv"
	"strings"
	"unsafe"

	sentinel "github.com/alibaba/sentinel-golang/api"
	"github.com/alibaba/sentinel-golang/core/base"
	"github.com/alibaba/sentinel-golang/core/circuitbreaker"
	"github.com/alibaba/sentinel-golang/core/flow"
	"github.com/alibaba/sentinel-golang/core/hotspot"
	"github.com/alibaba/sentinel-golang/core/isolation"
	"github.com/alibaba/sentinel-golang/core/stat"
	"github.com/alibaba/sentinel-golang/core/system"
	"github.com/alibaba/sentinel-golang/core/system_metric"
	"verifharness/internal/vh"
)

const (
	shiftUnit = 720_720_000
	gapMs     = 20_000
)

var errBiz = errors.New("biz")

type Interp struct {
	clk       *vh.Clock
	live      map[uint64]*base.SentinelEntry
	all       map[uint64]*base.SentinelEntry // every admitted entry of the case, exited or not (late TraceError)
	used      map[uint64]bool
	flowRules []*flow.Rule
	cbRules   []*circuitbreaker.Rule
	pending   []string
	state     map[string]string
	started   bool
	flowDone  bool
	cbDone    bool
	caseNow   uint64
	shift     uint64
	last      uint64
}

func New() vh.Interp {
	// deterministic sync.Pool reuse (EntryOptions, EntryContext, TokenResult are pooled): one P, one OS thread, no GC
	runtime.GOMAXPROCS(1)
	runtime.LockOSThread()
	debug.SetGCPercent(-1)
	vh.Silence()
	return &Interp{clk: vh.NewClock(1_900_000_000_000), live: map[uint64]*base.SentinelEntry{}}
}

func (it *Interp) Reset() {
	// leftovers: the inbound gauge is not time based
	ids := make([]uint64, 0, len(it.live))
	for id := range it.live {
		ids = append(ids, id)
	}
	sort.Slice(ids, func(i, j int) bool { return ids[i] < ids[j] })
	for _, id := range ids {
		it.live[id].Exit()
	}
	it.live = map[uint64]*base.SentinelEntry{}
	it.used = map[uint64]bool{}
	it.all = map[uint64]*base.SentinelEntry{}
	_, _ = circuitbreaker.LoadRules(nil)
	circuitbreaker.ClearStateChangeListeners()
	_, _ = flow.LoadRules(nil)
	_, _ = isolation.LoadRules(nil)
	_ = hotspot.ClearRules()
	_ = system.ClearRules()
	system_metric.SetSystemLoad(system_metric.NotRetrievedLoadValue)
	system_metric.SetSystemCpuUsage(system_metric.NotRetrievedCpuUsageValue)
	stat.ResetResourceNodeMap()
	it.flowRules, it.cbRules, it.pending = nil, nil, nil
	it.state = map[string]string{}
	it.started, it.flowDone, it.cbDone = false, false, false
	it.caseNow, it.shift = 0, 0
	circuitbreaker.RegisterStateChangeListeners(&listener{it})
}

func stCh(s circuitbreaker.State) string {
	switch s {
	case circuitbreaker.Closed:
		return "C"
	case circuitbreaker.HalfOpen:
		return "H"
	case circuitbreaker.Open:
		return "O"
	}
	return "?"
}

type listener struct{ it *Interp }

func (l *listener) OnTransformToClosed(prev circuitbreaker.State, rule circuitbreaker.Rule) {
	l.it.pending = append(l.it.pending, fmt.Sprintf("%s:%sC", rule.Id, stCh(prev)))
	l.it.state[rule.Id] = "C"
}

func (l *listener) OnTransformToOpen(prev circuitbreaker.State, rule circuitbreaker.Rule, snapshot interface{}) {
	var sn string
	switch v := snapshot.(type) {
	case float64:
		sn = vh.FBits(v)
	case uint64:
		sn = "u" + strconv.FormatUint(v, 10)
	case int:
		sn = "i" + strconv.Itoa(v)
	default:
		sn = fmt.Sprintf("?%T", snapshot)
	}
	l.it.pending = append(l.it.pending, fmt.Sprintf("%s:%sO:%s", rule.Id, stCh(prev), sn))
	l.it.state[rule.Id] = "O"
}

func (l *listener) OnTransformToHalfOpen(prev circuitbreaker.State, rule circuitbreaker.Rule) {
	l.it.pending = append(l.it.pending, fmt.Sprintf("%s:%sH", rule.Id, stCh(prev)))
	l.it.state[rule.Id] = "H"
}

func rn(k string) string { return "r" + k }

func fbits(s string) float64 {
	f, ok := vh.ParseFBits(s)
	if !ok {
		panic("bad float " + s)
	}
	return f
}

func parseVal(s string) interface{} {
	switch {
	case s == "nil":
		return nil
	case strings.HasPrefix(s, "i:"):
		return int(vh.I(s[2:]))
	case strings.HasPrefix(s, "l:"):
		return int64(vh.I(s[2:]))
	case strings.HasPrefix(s, "s:"):
		return s[2:]
	case s == "b:1":
		return true
	case s == "b:0":
		return false
	}
	panic("bad value " + s)
}

func (it *Interp) load(kind string, toks []string) string {
	switch kind {
	case "sys":
		rules := make([]*system.Rule, 0, len(toks))
		for _, t := range toks {
			p := strings.Split(t, "/")
			if len(p) != 3 {
				return "bad-op"
			}
			rules = append(rules, &system.Rule{MetricType: system.MetricType(vh.U(p[0])), Strategy: system.AdaptiveStrategy(vh.I(p[1])), TriggerCount: fbits(p[2])})
		}
		_, _ = system.LoadRules(rules)
		return ""
	case "flow":
		if it.flowDone {
			return "bad-op"
		}
		it.flowDone = true
		rules := make([]*flow.Rule, 0, len(toks))
		for _, t := range toks {
			f := strings.Split(t, ",")
			if len(f) != 4 {
				return "bad-op"
			}
			r := &flow.Rule{Resource: rn(f[0]), TokenCalculateStrategy: flow.Direct, ControlBehavior: flow.Reject,
				Threshold: fbits(f[1]), StatIntervalInMs: uint32(vh.U(f[2]))}
			if f[3] != "-" {
				r.RelationStrategy = flow.AssociatedResource
				r.RefResource = rn(f[3])
			}
			rules = append(rules, r)
		}
		it.flowRules = rules
		_, _ = flow.LoadRules(rules)
		return ""
	case "iso":
		rules := make([]*isolation.Rule, 0, len(toks))
		for i, a := range toks {
			k := strings.IndexByte(a, ':')
			if k <= 0 {
				return "bad-op"
			}
			rules = append(rules, &isolation.Rule{ID: strconv.Itoa(i), Resource: rn(a[:k]), MetricType: isolation.Concurrency, Threshold: uint32(vh.U(a[k+1:]))})
		}
		_, _ = isolation.LoadRules(rules)
		return ""
	case "hot":
		rules := make([]*hotspot.Rule, 0, len(toks))
		for _, s := range toks {
			p := strings.Split(s, ";")
			if len(p) != 7 || p[1] != "c" {
				return "bad-op"
			}
			r := &hotspot.Rule{Resource: p[0], MetricType: hotspot.Concurrency, ParamIndex: int(vh.I(p[2])), ParamKey: p[3],
				Threshold: vh.I(p[4]), ParamsMaxCapacity: vh.I(p[5]), SpecificItems: map[interface{}]int64{}}
			if p[6] != "" {
				for _, kvs := range strings.Split(p[6], ",") {
					kv := strings.Split(kvs, "=")
					if len(kv) != 2 {
						return "bad-op"
					}
					r.SpecificItems[parseVal(kv[0])] = vh.I(kv[1])
				}
			}
			rules = append(rules, r)
		}
		_ = hotspot.ClearRules()
		_, _ = hotspot.LoadRules(rules)
		return ""
	case "cb":
		if it.cbDone {
			return "bad-op"
		}
		it.cbDone = true
		for i, s := range toks {
			f := strings.Split(s, ",")
			if len(f) != 9 {
				return "bad-op"
			}
			it.cbRules = append(it.cbRules, &circuitbreaker.Rule{
				Id: strconv.Itoa(i), Resource: f[0], Strategy: circuitbreaker.Strategy(vh.U(f[1])),
				RetryTimeoutMs: uint32(vh.U(f[2])), MinRequestAmount: vh.U(f[3]), StatIntervalMs: uint32(vh.U(f[4])),
				StatSlidingWindowBucketCount: uint32(vh.U(f[5])), MaxAllowedRtMs: vh.U(f[6]), Threshold: fbits(f[7]), ProbeNum: vh.U(f[8]),
			})
		}
		_, _ = circuitbreaker.LoadRules(it.cbRules)
		for _, r := range circuitbreaker.GetRules() {
			it.state[r.Id] = "C"
		}
		return strconv.Itoa(len(circuitbreaker.GetRules()))
	}
	return "bad-op"
}

func (it *Interp) decision(b *base.BlockError) string {
	switch b.BlockType() {
	case base.BlockTypeSystemFlow:
		return "block sys"
	case base.BlockTypeFlow:
		idx := -1
		for i, r := range it.flowRules {
			if base.SentinelRule(r) == b.TriggeredRule() {
				idx = i
			}
		}
		return fmt.Sprintf("block flow %d", idx)
	case base.BlockTypeIsolation:
		idx := "?"
		if r, ok := b.TriggeredRule().(*isolation.Rule); ok && r != nil {
			idx = r.ID
		}
		return fmt.Sprintf("block iso %s %v", idx, b.TriggeredValue())
	case base.BlockTypeHotSpotParamFlow:
		return "block hot"
	case base.BlockTypeCircuitBreaking:
		if r, ok := b.TriggeredRule().(*circuitbreaker.Rule); ok && r != nil {
			return "block cb " + r.Id
		}
		return "block cb ?"
	}
	return "block other:" + b.BlockType().String()
}

func slotField(sc *base.SlotChain, name string) reflect.Value {
	f := reflect.ValueOf(sc).Elem().FieldByName(name)
	return reflect.NewAt(f.Type(), unsafe.Pointer(f.UnsafeAddr())).Elem()
}

// ruleOrder prints the package of every rule-check slot of the real global chain, in slice order.
func ruleOrder() string {
	var xs []string
	for _, x := range slotField(sentinel.GlobalSlotChain(), "ruleChecks").Interface().([]base.RuleCheckSlot) {
		n := strings.TrimPrefix(fmt.Sprintf("%T", x), "*")
		if i := strings.IndexByte(n, '.'); i >= 0 {
			n = n[:i]
		}
		xs = append(xs, n)
	}
	return vh.List(xs)
}

func node(key string) base.StatNode {
	if key == "inb" {
		return stat.InboundNode()
	}
	n := stat.GetResourceNode(rn(key))
	if n == nil {
		return nil
	}
	return n
}

func (it *Interp) Step(t []string, op string) string {
	switch t[0] {
	case "order":
		if len(t) != 1 {
			return "bad-op"
		}
		return ruleOrder()
	case "clock":
		if len(t) != 2 {
			return "bad-op"
		}
		ms, err := strconv.ParseUint(t[1], 10, 64)
		if err != nil || ms == 0 {
			return "bad-op"
		}
		if !it.started {
			it.shift = 0
			if it.last != 0 && ms < it.last+gapMs {
				d := it.last + gapMs - ms
				it.shift = (d + shiftUnit - 1) / shiftUnit * shiftUnit
			}
			it.started = true
		} else if ms < it.caseNow {
			return "bad-op"
		}
		it.caseNow = ms
		it.last = ms + it.shift
		it.clk.SetMs(it.last)
		return ""
	case "load":
		if len(t) < 2 || !it.started {
			return "bad-op"
		}
		return it.load(t[1], t[2:])
	case "sysmetric":
		if len(t) != 3 {
			return "bad-op"
		}
		switch t[1] {
		case "load":
			system_metric.SetSystemLoad(fbits(t[2]))
		case "cpu":
			system_metric.SetSystemCpuUsage(fbits(t[2]))
		default:
			return "bad-op"
		}
		return ""
	case "entry":
		if len(t) < 5 || !it.started {
			return "bad-op"
		}
		id := vh.U(t[1])
		if it.used[id] {
			return "bad-op"
		}
		opts := make([]sentinel.EntryOption, 0, 4)
		switch t[3] {
		case "in":
			opts = append(opts, sentinel.WithTrafficType(base.Inbound))
		case "out":
			opts = append(opts, sentinel.WithTrafficType(base.Outbound))
		default:
			return "bad-op"
		}
		opts = append(opts, sentinel.WithBatchCount(uint32(vh.U(t[4]))))
		var args []interface{}
		var atts map[interface{}]interface{}
		for _, s := range t[5:] {
			if strings.HasPrefix(s, "@") {
				kv := strings.SplitN(s[1:], "=", 2)
				if len(kv) != 2 {
					return "bad-op"
				}
				if atts == nil {
					atts = map[interface{}]interface{}{}
				}
				atts[kv[0]] = parseVal(kv[1])
			} else {
				args = append(args, parseVal(s))
			}
		}
		if len(args) > 0 {
			opts = append(opts, sentinel.WithArgs(args...))
		}
		if atts != nil {
			opts = append(opts, sentinel.WithAttachments(atts))
		}
		it.used[id] = true
		e, b := sentinel.Entry(rn(t[2]), opts...)
		if b != nil {
			return it.decision(b)
		}
		it.live[id] = e
		it.all[id] = e
		return "pass"
	case "trace":
		if len(t) != 2 || !it.started {
			return "bad-op"
		}
		// also on an exited entry: SetError must be ignored there (its pooled context may already serve another entry)
		if e := it.all[vh.U(t[1])]; e != nil {
			sentinel.TraceError(e, errBiz)
		}
		return ""
	case "exit":
		if len(t) < 2 || len(t) > 3 || (len(t) == 3 && t[2] != "err") || !it.started {
			return "bad-op"
		}
		id := vh.U(t[1])
		e := it.live[id]
		if e == nil {
			return ""
		}
		delete(it.live, id)
		if len(t) == 3 {
			e.Exit(base.WithError(errBiz))
		} else {
			e.Exit()
		}
		return ""
	case "stat":
		if len(t) != 2 || !it.started {
			return "bad-op"
		}
		n := node(t[1])
		if n == nil {
			return "nil"
		}
		m, err := n.GenerateReadStat(20, 10000)
		if err != nil {
			panic(err)
		}
		return fmt.Sprintf("[p=%d b=%d c=%d e=%d rt=%d conc=%d p10=%d b10=%d c10=%d]",
			n.GetSum(base.MetricEventPass), n.GetSum(base.MetricEventBlock), n.GetSum(base.MetricEventComplete),
			n.GetSum(base.MetricEventError), n.GetSum(base.MetricEventRt), n.CurrentConcurrency(),
			m.GetSum(base.MetricEventPass), m.GetSum(base.MetricEventBlock), m.GetSum(base.MetricEventComplete))
	case "cbstate":
		if len(t) != 2 {
			return "bad-op"
		}
		var xs []string
		for _, r := range it.cbRules {
			if r.Resource != rn(t[1]) {
				continue
			}
			if s, ok := it.state[r.Id]; ok {
				xs = append(xs, s)
			}
		}
		return vh.List(xs)
	case "log":
		if len(t) != 1 {
			return "bad-op"
		}
		xs := it.pending
		it.pending = nil
		return vh.List(xs)
	}
	return "bad-op"
}
