// Package cint interprets the integrated default-chain op language against the real packages (stub).
package cint

import "verifharness/internal/vh"

// New returns the interpreter for the integrated pipeline check.
func New() vh.Interp { return nil }
