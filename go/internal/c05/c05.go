// Package c05 interprets the C05 op language against the real packages (stub).
package c05

import "verifharness/internal/vh"

// New returns the interpreter for C05.
func New() vh.Interp { return nil }
