// Package c05 interprets the C05 op language (hot-parameter QPS rules) against the real packages:
// hotspot.LoadRules + api.Entry(WithArgs / WithAttachments / WithBatchCount) under a virtual clock.
//
//	clock <ms>
//	tick <ms>
//	load <n> <rule>*n      hotspot.LoadRules on the module as it is (the first load of a case finds it empty); rule = res=..,cb=..,idx=..,key=..,T=..,burst=..,D=..,mq=..,cap=..,items=<-|val@int;…>
//	onsleep <n> <rule>*n   arm: LoadRules(these) runs from inside the clock's Sleep of the next queued request
//	attmap <name> <n> <key=val>*n   a caller-owned attachments map, passed (the same object) by every later `@name`
//	entry <res> <batch> <nargs> <val|+>* <natt> <att>*   (`+` starts another WithArgs option; att = key=val | @name | !key=val)
//	sweep <res> <batch> <prefix> <lo> <hi>   one entry per k in [lo,hi) with the single argument <prefix>k; run-length encoded results
//
// A value is `v:<kind>:<text>`: i int, l int64, s string, b bool, f float64 bits, t struct{A int;B string}, n nil,
// p struct{A,B string} as a~b, a [2]string as a~b, A [2]int as i~j ('.' in a string field stands for a space).
package c05

import (
	"fmt"
	"math"
	"runtime"
	"strconv"
	"strings"
	"time"

	sentinel "github.com/alibaba/sentinel-golang/api"
	"github.com/alibaba/sentinel-golang/core/base"
	"github.com/alibaba/sentinel-golang/core/hotspot"
	"github.com/alibaba/sentinel-golang/core/stat"
	"github.com/alibaba/sentinel-golang/util"
	"verifharness/internal/vh"
)

const startMs = 1_900_000_000_000

type pair struct {
	A int
	B string
}

// spinClock is the virtual clock plus a watchdog: PerformChecking reads the clock once per iteration of its
// retry loop, so an Entry that reads it more than spinLimit times is spinning (sequentially the loops must
// finish in their first iteration). The panic is recovered by SlotChain.Entry; the interpreter reports `spin`.
type spinClock struct {
	*vh.Clock
	reads   int
	spun    bool
	onSleep func() // what another goroutine does while the request is parked in util.Sleep (armed by `onsleep`)
}

// Sleep records the request, advances the virtual time and then runs the armed action, as a goroutine scheduled
// during the sleep would.
func (c *spinClock) Sleep(d time.Duration) {
	c.Clock.Sleep(d)
	if f := c.onSleep; f != nil {
		c.onSleep = nil
		f()
	}
}

const spinLimit = 1000

func (c *spinClock) CurrentTimeMillis() uint64 {
	c.reads++
	if c.reads > spinLimit {
		c.spun = true
		c.reads = 0
		panic("verif: PerformChecking does not terminate")
	}
	return c.Clock.CurrentTimeMillis()
}

type Interp struct {
	clk    *spinClock
	labels map[*hotspot.Rule]int // every rule object loaded in this case -> generation*1000 + position
	gen    int
	maps   map[string]map[interface{}]interface{} // caller-owned attachment maps (`attmap`), passed as they are
	fired  int // rules in force after the armed reload ran during the current entry, -1 if it did not run
}

func New() vh.Interp {
	runtime.GOMAXPROCS(1)
	runtime.LockOSThread()
	vh.Silence()
	c := &spinClock{Clock: vh.NewClock(startMs)}
	util.SetClock(c)
	return &Interp{clk: c}
}

func (it *Interp) Reset() {
	_ = hotspot.ClearRules()
	stat.ResetResourceNodeMap()
	it.labels = map[*hotspot.Rule]int{}
	it.gen = 0
	it.maps = map[string]map[interface{}]interface{}{}
	it.clk.onSleep = nil
	it.clk.Sleeps = nil
}

func val(s string) interface{} {
	p := strings.SplitN(s, ":", 3)
	if len(p) != 3 || p[0] != "v" {
		panic("bad value " + s)
	}
	switch p[1] {
	case "i":
		return int(vh.I(p[2]))
	case "l":
		return vh.I(p[2])
	case "s":
		return p[2]
	case "b":
		return p[2] == "1"
	case "f":
		u, err := strconv.ParseUint(p[2], 16, 64)
		if err != nil {
			panic("bad float " + s)
		}
		return math.Float64frombits(u)
	case "t":
		q := strings.SplitN(p[2], "_", 2)
		if len(q) != 2 {
			panic("bad struct " + s)
		}
		return pair{A: int(vh.I(q[0])), B: q[1]}
	case "p":
		// struct of two strings; '.' in the text stands for a space, so that distinct values can print identically
		// with %v ({acme corp bob}): v:p:acme.corp~bob vs v:p:acme~corp.bob
		a, b := two(p[2])
		return pair2{A: a, B: b}
	case "a":
		a, b := two(p[2])
		return [2]string{a, b}
	case "A":
		q := strings.SplitN(p[2], "~", 2)
		if len(q) != 2 {
			panic("bad array " + s)
		}
		return [2]int{int(vh.I(q[0])), int(vh.I(q[1]))}
	case "n":
		return nil
	}
	panic("bad value kind " + s)
}

type pair2 struct {
	A string
	B string
}

func two(s string) (string, string) {
	q := strings.SplitN(s, "~", 2)
	if len(q) != 2 {
		panic("bad composite " + s)
	}
	return strings.ReplaceAll(q[0], ".", " "), strings.ReplaceAll(q[1], ".", " ")
}

func dash(s string) string {
	if s == "-" {
		return ""
	}
	return s
}

func rule(s string) *hotspot.Rule {
	r := &hotspot.Rule{MetricType: hotspot.QPS}
	for _, kv := range strings.Split(s, ",") {
		i := strings.Index(kv, "=")
		if i < 0 {
			panic("bad rule field " + kv)
		}
		k, v := kv[:i], kv[i+1:]
		switch k {
		case "res":
			r.Resource = dash(v)
		case "key":
			r.ParamKey = dash(v)
		case "cb":
			r.ControlBehavior = hotspot.ControlBehavior(vh.I(v))
		case "idx":
			r.ParamIndex = int(vh.I(v))
		case "T":
			r.Threshold = vh.I(v)
		case "burst":
			r.BurstCount = vh.I(v)
		case "D":
			r.DurationInSec = vh.I(v)
		case "mq":
			r.MaxQueueingTimeMs = vh.I(v)
		case "cap":
			r.ParamsMaxCapacity = vh.I(v)
		case "items":
			if v != "-" && v != "" {
				r.SpecificItems = map[interface{}]int64{}
				for _, it := range strings.Split(v, ";") {
					j := strings.LastIndex(it, "@")
					if j < 0 {
						panic("bad item " + it)
					}
					r.SpecificItems[val(it[:j])] = vh.I(it[j+1:])
				}
			}
		default:
			panic("bad rule field " + kv)
		}
	}
	return r
}

// load performs hotspot.LoadRules with fresh rule objects ("-" = nil rule) and returns the number of rules in force.
func (it *Interp) load(specs []string) int {
	var rules []*hotspot.Rule
	for i, s := range specs {
		if s == "-" {
			rules = append(rules, nil)
			continue
		}
		r := rule(s)
		it.labels[r] = it.gen*1000 + i
		rules = append(rules, r)
	}
	it.gen++
	if _, err := hotspot.LoadRules(rules); err != nil {
		return -1
	}
	return len(hotspot.GetRules())
}

// entry performs one api.Entry and renders the decision, the triggering rule and the requested sleeps.
func (it *Interp) entry(res string, batch uint32, args [][]interface{}, atts []sentinel.EntryOption) string {
	opts := []sentinel.EntryOption{sentinel.WithBatchCount(batch)}
	for _, g := range args {
		opts = append(opts, sentinel.WithArgs(g...))
	}
	opts = append(opts, atts...)
	it.clk.Sleeps = it.clk.Sleeps[:0]
	it.clk.reads, it.clk.spun = 0, false
	it.fired = -1
	e, b := sentinel.Entry(res, opts...)
	out := "pass"
	if it.clk.spun {
		out = "spin"
		if e != nil {
			e.Exit()
		}
	} else if b != nil {
		if b.BlockType() != base.BlockTypeHotSpotParamFlow {
			out = "block-other " + b.BlockType().String()
		} else {
			g := -1
			if r, ok := b.TriggeredRule().(*hotspot.Rule); ok {
				if l, ok := it.labels[r]; ok {
					g = l
				}
			}
			out = fmt.Sprintf("block %d", g)
		}
	} else {
		e.Exit()
	}
	if len(it.clk.Sleeps) > 0 {
		xs := make([]string, len(it.clk.Sleeps))
		for i, d := range it.clk.Sleeps {
			xs[i] = strconv.FormatInt(int64(d), 10)
		}
		out += " w:" + strings.Join(xs, ",")
	}
	if it.fired >= 0 {
		out += fmt.Sprintf(" reload:%d", it.fired)
	}
	return out
}

func (it *Interp) Step(t []string, op string) string {
	switch t[0] {
	case "clock":
		it.clk.SetMs(vh.U(t[1]))
		return ""
	case "tick":
		it.clk.Ns += vh.U(t[1]) * 1e6
		return ""
	case "load":
		n := int(vh.U(t[1]))
		if len(t) != 2+n {
			panic("bad load")
		}
		// a plain (re)load: controllers and statistics of the previous generation are reused as the rule manager
		// decides; a reused controller keeps its old rule object, hence the labels by generation
		k := it.load(t[2:])
		if k < 0 {
			return "err"
		}
		return fmt.Sprint(k)
	case "onsleep":
		n := int(vh.U(t[1]))
		if len(t) != 2+n {
			panic("bad onsleep")
		}
		specs := append([]string(nil), t[2:]...)
		it.clk.onSleep = func() { it.fired = it.load(specs) }
		return ""
	case "entry":
		res := t[1]
		batch := uint32(vh.U(t[2]))
		na := int(vh.U(t[3]))
		// `+` starts another WithArgs option; without any value no WithArgs option is given at all
		var args [][]interface{}
		cur := []interface{}{}
		seen := false
		for _, s := range t[4 : 4+na] {
			if s == "+" {
				args = append(args, cur)
				cur = []interface{}{}
				seen = true
				continue
			}
			cur = append(cur, val(s))
		}
		if len(cur) > 0 || seen {
			args = append(args, cur)
		}
		nt := int(vh.U(t[4+na]))
		rest := t[5+na:]
		if len(rest) != nt {
			panic("bad entry")
		}
		// attachment options, left to right: @name = WithAttachments(the caller-owned map itself), !k=v = WithAttachment,
		// a run of plain k=v = one WithAttachments of a map built for this call
		var atts []sentinel.EntryOption
		var run map[interface{}]interface{}
		flush := func() {
			if run != nil {
				atts = append(atts, sentinel.WithAttachments(run))
				run = nil
			}
		}
		for _, tok := range rest {
			switch {
			case strings.HasPrefix(tok, "@"):
				flush()
				m, ok := it.maps[tok[1:]]
				if !ok {
					panic("unknown attachment map " + tok)
				}
				atts = append(atts, sentinel.WithAttachments(m))
			case strings.HasPrefix(tok, "!"):
				flush()
				i := strings.Index(tok, "=")
				atts = append(atts, sentinel.WithAttachment(tok[1:i], val(tok[i+1:])))
			default:
				if run == nil {
					run = map[interface{}]interface{}{}
				}
				i := strings.Index(tok, "=")
				run[tok[:i]] = val(tok[i+1:])
			}
		}
		flush()
		return it.entry(res, batch, args, atts)
	case "attmap":
		n := int(vh.U(t[2]))
		if len(t) != 3+n {
			panic("bad attmap")
		}
		m := make(map[interface{}]interface{}, n)
		for _, kv := range t[3:] {
			i := strings.Index(kv, "=")
			m[kv[:i]] = val(kv[i+1:])
		}
		it.maps[t[1]] = m
		return ""
	case "sweep":
		res := t[1]
		batch := uint32(vh.U(t[2]))
		lo, hi := vh.U(t[4]), vh.U(t[5])
		var groups []string
		last, n := "", 0
		for k := lo; k < hi; k++ {
			r := it.entry(res, batch, [][]interface{}{{val(t[3] + strconv.FormatUint(k, 10))}}, nil)
			if r == last {
				n++
				continue
			}
			if n > 0 {
				groups = append(groups, fmt.Sprintf("%dx%s", n, strings.ReplaceAll(last, " ", "_")))
			}
			last, n = r, 1
		}
		if n > 0 {
			groups = append(groups, fmt.Sprintf("%dx%s", n, strings.ReplaceAll(last, " ", "_")))
		}
		return strings.Join(groups, ";")
	}
	panic("bad op " + op)
}
