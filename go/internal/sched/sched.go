// Package sched is a deterministic scheduler for the yield hooks of sentinel-golang's lock-free
// code (build tag `verif`, package util/verifhook, `var Sched func(point string)`).
//
// # What it does
//
// Each *worker* is a plain `func()` that calls into the real library. Run starts every worker in its
// own goroutine, but lets **exactly one of them execute at any time**: a worker that reaches a yield
// point `verifhook.Yield("<name>")` whose name matches one of the configured prefixes parks inside
// the hook until the schedule grants it the next step. The hooks sit immediately *before* the atomic
// accesses of the lock-free code, therefore
//
//	one schedule entry <tid>  =  the atomic access guarded by the yield point at which thread <tid>
//	                             is parked  +  the thread-local code up to its next (matching) yield
//	                             point, or up to its completion
//
// which is exactly one `step` of the Lean small-step models (DESIGN.md 2.3 / 3.5).
//
// The life of a run:
//
//  1. every worker, in thread-id order, is advanced to its first matching yield point (or to
//     completion if it meets none); `Options.BeforeStart(tid)` is called just before, so the caller
//     can e.g. set the virtual clock that the worker will read on its way to the first yield point;
//  2. the schedule is executed entry by entry: a thread entry grants that thread one step (entries
//     naming a finished or unknown thread are skipped — the Lean side does the same), a tick entry
//     calls `Options.OnTick(ns)` (the caller advances its virtual clock; no worker runs meanwhile);
//  3. when the schedule is exhausted the threads that are still alive are drained round-robin
//     (0,1,2,…,0,1,2,… one step each) until all have finished.
//
// `Options.AfterStep` is called after every granted step (including the initial advance, reported
// with Start=true), in the scheduler's goroutine, while no worker is running: the place to read
// shared harness state (e.g. which `Sleep` was requested during that step) without a data race.
//
// # Identity, filtering, robustness
//
//   - A worker is recognised by its goroutine id (registered when it starts). A call of the hook from
//     any other goroutine (the caller's own, background tasks of the library) passes straight through.
//   - `Options.Prefixes` selects the yield points that count as steps (C10: "th.", C12: "cb.",
//     C09: "la.", "bla.", "mb."); every other yield point passes straight through, i.e. belongs to
//     the thread-local part of the current step. An empty list means "every yield point".
//   - A worker that panics is recovered: the thread counts as finished, the panic value is reported in
//     `Thread.Panic`, the other threads go on. `runtime.Goexit` in a worker is handled the same way.
//   - The scheduler never blocks for ever: if a granted worker neither reaches a yield point nor
//     finishes within `Options.StepTimeout` (default 5 min; only possible if it blocks on something a
//     parked worker holds — the hooks are never placed inside a critical section — or loops), Run
//     stops scheduling, marks the thread `Stuck`, sets `Report.Err` and returns; such goroutines are
//     abandoned (they stay parked or blocked), never released concurrently with another worker.
//   - Run installs the hook for its own duration and restores the previous value afterwards. Runs
//     must not overlap (the hook is a process-wide variable); Run takes a package mutex to enforce it.
//
// # Schedule text
//
// `ParseSchedule` reads the token form used in op files: `<tid>` (decimal) or `tick:<ns>`.
package sched

import (
	"fmt"
	"runtime"
	"strconv"
	"strings"
	"sync"
	"time"

	"github.com/alibaba/sentinel-golang/util/verifhook"
)

// Entry is one element of a schedule: grant one step to thread Tid, or (IsTick) let Ns nanoseconds pass.
type Entry struct {
	Tid    int
	IsTick bool
	Ns     uint64
}

// T is shorthand for a thread entry, Tick for a tick entry.
func T(tid int) Entry      { return Entry{Tid: tid} }
func Tick(ns uint64) Entry { return Entry{IsTick: true, Ns: ns} }

// Threads converts a list of thread ids into a schedule.
func Threads(tids ...int) []Entry {
	es := make([]Entry, len(tids))
	for i, t := range tids {
		es[i] = T(t)
	}
	return es
}

// ParseSchedule parses tokens `<tid>` / `tick:<ns>`.
func ParseSchedule(toks []string) ([]Entry, error) {
	es := make([]Entry, 0, len(toks))
	for _, t := range toks {
		if strings.HasPrefix(t, "tick:") {
			ns, err := strconv.ParseUint(t[5:], 10, 64)
			if err != nil {
				return nil, fmt.Errorf("bad schedule entry %q", t)
			}
			es = append(es, Tick(ns))
			continue
		}
		id, err := strconv.Atoi(t)
		if err != nil || id < 0 {
			return nil, fmt.Errorf("bad schedule entry %q", t)
		}
		es = append(es, T(id))
	}
	return es, nil
}

// Step describes one granted step, as passed to Options.AfterStep and logged in Report.Log.
type Step struct {
	Tid   int
	Start bool   // the initial advance to the first yield point (no atomic access executed yet)
	From  string // yield point the thread was parked at ("" for the initial advance)
	To    string // yield point it is parked at now ("" when Done)
	Done  bool   // the thread finished during this step
}

func (s Step) String() string {
	from, to := s.From, s.To
	if s.Start {
		from = "start"
	}
	if s.Done {
		to = "done"
	}
	return fmt.Sprintf("T%d:%s>%s", s.Tid, from, to)
}

// Options configures a run. All fields are optional.
type Options struct {
	Prefixes    []string        // yield-point name prefixes that count as steps; empty = all
	BeforeStart func(tid int)   // before worker tid is advanced to its first yield point
	OnTick      func(ns uint64) // for every tick entry of the schedule
	AfterStep   func(s Step)    // after every granted step (no worker is running)
	StepTimeout time.Duration   // watchdog per step; default 5 min
	MaxSteps    int             // safety bound on the total number of granted steps; default 1e6
}

// Thread is the per-worker part of the report.
type Thread struct {
	Done   bool        // finished (normally, by panic or by Goexit)
	Panic  interface{} // recovered panic value, nil if none
	Stuck  bool        // the watchdog fired while this thread was running
	Steps  int         // granted steps, not counting the initial advance
	Points []string    // the yield points it parked at, in order
}

// Report is the result of Run.
type Report struct {
	Threads []Thread
	Log     []Step // every granted step in execution order
	Skipped int    // schedule entries that named a finished / unknown thread
	Drained int    // steps granted after the schedule was exhausted
	Err     error  // non-nil iff the run was abandoned (stuck worker, step bound)
}

type msg struct {
	point string
	done  bool
	pan   interface{}
}

type worker struct {
	grant chan struct{}
	park  chan msg
	at    string
	done  bool
}

var (
	runMu sync.Mutex // one Run at a time: the hook is process-wide
	idMu  sync.Mutex
	ids   map[uint64]*worker // goroutine id -> worker of the current run
)

// goid parses the current goroutine's id from the first line of its stack ("goroutine 123 [running]:").
func goid() uint64 {
	var buf [40]byte
	n := runtime.Stack(buf[:], false)
	s := buf[:n]
	const p = len("goroutine ")
	var id uint64
	for i := p; i < len(s) && s[i] >= '0' && s[i] <= '9'; i++ {
		id = id*10 + uint64(s[i]-'0')
	}
	return id
}

func match(prefixes []string, point string) bool {
	if len(prefixes) == 0 {
		return true
	}
	for _, p := range prefixes {
		if strings.HasPrefix(point, p) {
			return true
		}
	}
	return false
}

// Run executes the workers under the schedule and returns the report. See the package comment.
func Run(workers []func(), schedule []Entry, opt Options) *Report {
	runMu.Lock()
	defer runMu.Unlock()
	if opt.StepTimeout <= 0 {
		opt.StepTimeout = 5 * time.Minute // generous: a loaded or paused sandbox must not look like a stuck thread
	}
	if opt.MaxSteps <= 0 {
		opt.MaxSteps = 1000000
	}
	rep := &Report{Threads: make([]Thread, len(workers))}
	ws := make([]*worker, len(workers))

	idMu.Lock()
	ids = make(map[uint64]*worker, len(workers))
	idMu.Unlock()

	prev := verifhook.Sched
	verifhook.Sched = func(point string) {
		if !match(opt.Prefixes, point) {
			return
		}
		idMu.Lock()
		w := ids[goid()]
		idMu.Unlock()
		if w == nil {
			return // not one of our workers
		}
		w.park <- msg{point: point}
		<-w.grant
	}
	defer func() {
		verifhook.Sched = prev
		idMu.Lock()
		ids = nil
		idMu.Unlock()
	}()

	for i, body := range workers {
		w := &worker{grant: make(chan struct{}), park: make(chan msg)}
		ws[i] = w
		body := body
		go func() {
			id := goid()
			idMu.Lock()
			ids[id] = w
			idMu.Unlock()
			<-w.grant
			var pan interface{}
			defer func() {
				// runs on normal return, on panic and on runtime.Goexit
				if r := recover(); r != nil {
					pan = r
				}
				idMu.Lock()
				if ids != nil {
					delete(ids, id)
				}
				idMu.Unlock()
				w.park <- msg{done: true, pan: pan}
			}()
			body()
		}()
	}

	timer := time.NewTimer(opt.StepTimeout)
	defer timer.Stop()
	total := 0
	// step grants one step to thread i; false when the run must be abandoned
	step := func(i int, start bool) bool {
		w := ws[i]
		total++
		if total > opt.MaxSteps {
			rep.Err = fmt.Errorf("sched: more than %d steps", opt.MaxSteps)
			return false
		}
		if !timer.Stop() {
			select {
			case <-timer.C:
			default:
			}
		}
		timer.Reset(opt.StepTimeout)
		w.grant <- struct{}{}
		var m msg
		select {
		case m = <-w.park:
		case <-timer.C:
			rep.Threads[i].Stuck = true
			rep.Err = fmt.Errorf("sched: thread %d neither reached a yield point nor finished within %v (parked at %q before)", i, opt.StepTimeout, w.at)
			return false
		}
		s := Step{Tid: i, Start: start, From: w.at}
		th := &rep.Threads[i]
		if !start {
			th.Steps++
		}
		if m.done {
			w.done, w.at = true, ""
			th.Done, th.Panic = true, m.pan
			s.Done = true
		} else {
			w.at = m.point
			th.Points = append(th.Points, m.point)
			s.To = m.point
		}
		rep.Log = append(rep.Log, s)
		if opt.AfterStep != nil {
			opt.AfterStep(s)
		}
		return true
	}

	// 1. advance every worker to its first yield point
	for i := range ws {
		if opt.BeforeStart != nil {
			opt.BeforeStart(i)
		}
		if !step(i, true) {
			return rep
		}
	}
	// 2. the schedule
	for _, e := range schedule {
		if e.IsTick {
			if opt.OnTick != nil {
				opt.OnTick(e.Ns)
			}
			continue
		}
		if e.Tid < 0 || e.Tid >= len(ws) || ws[e.Tid].done {
			rep.Skipped++
			continue
		}
		if !step(e.Tid, false) {
			return rep
		}
	}
	// 3. drain round-robin
	for {
		alive := false
		for i, w := range ws {
			if w.done {
				continue
			}
			alive = true
			rep.Drained++
			if !step(i, false) {
				return rep
			}
		}
		if !alive {
			return rep
		}
	}
}
