//go:build verif

package sched

import (
	"fmt"
	"reflect"
	"testing"
	"time"

	"github.com/alibaba/sentinel-golang/core/flow"
	"github.com/alibaba/sentinel-golang/util"
	"github.com/alibaba/sentinel-golang/util/verifhook"
)

type vclock struct{ ns uint64 }

func (c *vclock) Now() time.Time            { return time.Unix(0, int64(c.ns)) }
func (c *vclock) Sleep(d time.Duration)     {}
func (c *vclock) CurrentTimeMillis() uint64 { return c.ns / 1e6 }
func (c *vclock) CurrentTimeNano() uint64   { return c.ns }

// The C10 witness (design-prototypes/ThrottleRace.lean) on the real ThrottlingChecker.
func TestThrottleWitness(t *testing.T) {
	clk := &vclock{}
	util.SetClock(clk)
	const ms = 1000000
	c := flow.NewThrottlingChecker(nil, 250, 1000) // maxQueue 250 ms, interval 1000 ms
	clk.ns = 1000 * ms
	c.DoCheck(nil, 1, 10) // pass@1000
	c.DoCheck(nil, 1, 10) // wait 100 => last = 1100
	clocks := []uint64{1000 * ms, 1000 * ms, 1150 * ms, 1150 * ms}
	res := make([]string, 4)
	var ws []func()
	for i := range clocks {
		i := i
		ws = append(ws, func() {
			now := clk.ns
			r := c.DoCheck(nil, 1, 10)
			switch {
			case r == nil:
				res[i] = fmt.Sprintf("pass@%d", now/ms)
			case r.IsBlocked():
				res[i] = "block"
			default:
				res[i] = fmt.Sprintf("pass@%d", (now+uint64(r.NanosToWait()))/ms)
			}
		})
	}
	rep := Run(ws, Threads(0, 0, 1, 1, 1, 0, 2, 2, 2, 0, 3, 3, 3), Options{
		Prefixes:    []string{"th."},
		BeforeStart: func(i int) { clk.ns = clocks[i] },
	})
	if rep.Err != nil {
		t.Fatal(rep.Err)
	}
	want := []string{"block", "pass@1200", "pass@1400", "pass@1400"}
	if !reflect.DeepEqual(res, want) {
		t.Fatalf("got %v want %v\n%v", res, want, rep.Log)
	}
	if rep.Skipped != 0 || rep.Drained != 0 {
		t.Fatalf("skipped %d drained %d", rep.Skipped, rep.Drained)
	}
	if got := rep.Threads[0].Points; !reflect.DeepEqual(got, []string{"th.load", "th.reload", "th.add", "th.rollback"}) {
		t.Fatalf("points %v", got)
	}
}

// Panics, early finishes, foreign goroutines, filtered points, ticks, skipping and draining.
func TestRobust(t *testing.T) {
	var order []string
	ticks := uint64(0)
	ws := []func(){
		func() {
			verifhook.Yield("a.1")
			order = append(order, "0a")
			verifhook.Yield("b.skip")
			verifhook.Yield("a.2")
			order = append(order, "0b")
		},
		func() { order = append(order, "1") }, // no yield point at all
		func() { verifhook.Yield("a.1"); panic("boom") },
		func() {
			done := make(chan struct{})
			go func() { verifhook.Yield("a.foreign"); close(done) }() // not a worker: must pass through
			<-done
			verifhook.Yield("a.1")
			order = append(order, "3")
		},
	}
	sc, err := ParseSchedule([]string{"1", "7", "tick:5", "2", "2", "0"})
	if err != nil {
		t.Fatal(err)
	}
	rep := Run(ws, sc, Options{Prefixes: []string{"a."}, OnTick: func(ns uint64) { ticks += ns }})
	if rep.Err != nil {
		t.Fatal(rep.Err)
	}
	if ticks != 5 || rep.Skipped != 3 {
		t.Fatalf("ticks %d skipped %d", ticks, rep.Skipped)
	}
	if rep.Threads[2].Panic != "boom" || !rep.Threads[2].Done {
		t.Fatalf("panic not reported: %+v", rep.Threads[2])
	}
	for i, th := range rep.Threads {
		if !th.Done {
			t.Fatalf("thread %d not done", i)
		}
	}
	if !reflect.DeepEqual(order, []string{"1", "0a", "0b", "3"}) {
		t.Fatalf("order %v log %v", order, rep.Log)
	}
	if verifhook.Sched != nil {
		t.Fatal("hook not restored")
	}
}

func TestStuck(t *testing.T) {
	block := make(chan struct{})
	rep := Run([]func(){func() { <-block }}, nil, Options{StepTimeout: 50 * time.Millisecond})
	if rep.Err == nil || !rep.Threads[0].Stuck {
		t.Fatal("watchdog did not fire")
	}
	close(block)
}
