//go:build verif

package c12

import (
	"bytes"
	"strings"
	"testing"

	"verifharness/internal/vh"
)

func runOps(ops string) map[string]string {
	var out bytes.Buffer
	vh.Run(New(), strings.NewReader(ops), &out)
	res := map[string]string{}
	for _, l := range strings.Split(out.String(), "\n") {
		if i := strings.Index(l, " => "); i >= 0 {
			res[strings.Fields(l)[0]] = l[i+4:] // the last line of each kind wins
		}
	}
	return res
}

// open-without-deadline on the real breaker: timeout 1000 ms, the probe is admitted at the millisecond of the opening.
func TestOpenWithoutDeadline(t *testing.T) {
	r := runOps("case a\ncb.new ec 1000 1 1 0 0\nthread 0 c:1:err\nthread 1 tp\nsched 0 0 0 1 1 1\nresults\nlog\nfinal\n")
	if r["results"] != "0:[] 1:[t]" || r["final"] != "st=H dl=1000 probe=0 clk=0 live=0" {
		t.Fatalf("finding no longer reproduces: %v", r)
	}
}

// stale-retry-check (ABA): thread 0's TryPass checks the deadline of the first opening, is delayed before its CAS,
// and wins it at clk=10 although the second opening stored the deadline 20.
func TestStaleRetryCheck(t *testing.T) {
	r := runOps("case a\ncb.new ec 10 1 1 0 0\nthread 0 c:1:err\nsched\nsched tick:10\nthread 0 tp\nthread 1 tp c:1:ok c:1:err\n" +
		"sched 0 0 1 1 1 1 1 1 1 1 1 1 1 1 1 0\nresults\nlog\nfinal\n")
	if r["results"] != "0:[t] 1:[t]" || r["final"] != "st=H dl=20 probe=0 clk=10 live=0" ||
		r["log"] != "[C>O@0,O>H@1,H>C@1,C>O@1,O>H@0]" {
		t.Fatalf("finding no longer reproduces: %v", r)
	}
}

// Not a finding (the property makes no claim about the arrival order of different threads' listener calls), kept as a
// regression for the step model: Closed->Open (thread 1) is reported before the HalfOpen->Closed (thread 0) that preceded it.
func TestListenerCallsCanReorder(t *testing.T) {
	r := runOps("case a\ncb.new ec 10 1 1 0 0\nthread 0 c:1:err\nsched\nsched tick:10\nthread 0 tp\nsched\nthread 0 c:1:ok\nthread 1 c:1:err\n" +
		"sched 0 0 0 0 1 1 1 1 0\nresults\nlog\nfinal\n")
	if r["log"] != "[C>O@0,O>H@0,C>O@1,H>C@0]" {
		t.Fatalf("listener calls no longer arrive in this order: %v", r)
	}
}

// A completion under way on the old breaker object across a rule reload opens the OLD object only: the rebuilt (live)
// breaker is a fresh Closed object and admits the next request by reading Closed (scenario of seeded change C12-r3-3).
func TestReloadWhileCompletionInFlight(t *testing.T) {
	r := runOps("case a\ncb.new ec 1000 1 1 0 0\nthread 0 c:1:err\nthread 1 rd:1000:1:2:0:0 tp\nsched 0 0 1 0 0 tick:3 1 1 1\nresults\nlog\nfinal\n")
	if r["results"] != "0:[] 1:[t]" || r["log"] != "[C>O@0]" || r["final"] != "st=C dl=- probe=0 clk=3 live=1" {
		t.Fatalf("unexpected: %v", r)
	}
}
