//go:build verif

package c12

import (
	"bytes"
	"strings"
	"testing"

	"verifharness/internal/vh"
)

func runOps(ops string) map[string]string {
	var out bytes.Buffer
	vh.Run(New(), strings.NewReader(ops), &out)
	res := map[string]string{}
	for _, l := range strings.Split(out.String(), "\n") {
		if i := strings.Index(l, " => "); i >= 0 {
			res[strings.Fields(l)[0]] = l[i+4:] // the last line of each kind wins
		}
	}
	return res
}

// open-without-deadline on the real breaker: timeout 1000 ms, the probe is admitted at the millisecond of the opening.
func TestOpenWithoutDeadline(t *testing.T) {
	r := runOps("case a\ncb.new ec 1000 1 1 0 0\nthread 0 c:1:err\nthread 1 tp\nsched 0 0 0 1 1 1 1\nresults\nlog\nfinal\n")
	if r["results"] != "0:[] 1:[t]" || r["final"] != "clk=0 list=0 o0=H,1000,0" {
		t.Fatalf("finding no longer reproduces: %v", r)
	}
}

// stale-retry-check (ABA): thread 0's TryPass checks the deadline of the first opening, is delayed before its CAS,
// and wins it at clk=10 although the second opening stored the deadline 20.
func TestStaleRetryCheck(t *testing.T) {
	r := runOps("case a\ncb.new ec 10 1 1 0 0\nthread 0 c:1:err\nsched\nsched tick:10\nthread 0 tp\nthread 1 tp c:1:ok c:1:err\n" +
		"sched 0 0 0 1 1 1 1 1 1 1 1 1 1 1 1 1 0\nresults\nlog\nfinal\n")
	if r["results"] != "0:[t] 1:[t]" || r["final"] != "clk=10 list=0 o0=H,20,0" ||
		r["log"] != "[C>O@0,O>H@1,H>C@1,C>O@1,O>H@0]" {
		t.Fatalf("finding no longer reproduces: %v", r)
	}
}

// Not a finding (the property makes no claim about the arrival order of different threads' listener calls), kept as a
// regression for the step model: Closed->Open (thread 1) is reported before the HalfOpen->Closed (thread 0) that preceded it.
func TestListenerCallsCanReorder(t *testing.T) {
	r := runOps("case a\ncb.new ec 10 1 1 0 0\nthread 0 c:1:err\nsched\nsched tick:10\nthread 0 tp\nsched\nthread 0 c:1:ok\nthread 1 c:1:err\n" +
		"sched 0 0 0 0 1 1 1 1 0\nresults\nlog\nfinal\n")
	if r["log"] != "[C>O@0,O>H@0,C>O@1,H>C@0]" {
		t.Fatalf("listener calls no longer arrive in this order: %v", r)
	}
}

// A completion under way on the old breaker object across a rule reload opens the OLD object only: the rebuilt (live)
// breaker is a fresh Closed object and admits the next request by reading Closed (scenario of seeded change C12-r3-3).
func TestReloadWhileCompletionInFlight(t *testing.T) {
	r := runOps("case a\ncb.new ec 1000 1 1 0 0\nthread 0 c:1:err\nthread 1 rd:1000:1:2:0:0 tp\nsched 0 0 1 0 0 tick:3 1 1 1\nresults\nlog\nfinal\n")
	if r["results"] != "0:[] 1:[t]" || r["log"] != "[C>O@0]" || r["final"] != "clk=3 list=1 o0=O,1000,0 o1=C,-,0" {
		t.Fatalf("unexpected: %v", r)
	}
}

// LoadRulesOfResource rebuilds on a copy of the resource's breaker list: a request that looks the list up while the
// rebuild is under way (the harness's pass-through rule yields inside it) still sees [A,B] and is rejected by the Open
// breaker A (scenario of seeded change C12-r4-3, where the live slice is rebuilt in place and the request sees [B,B]).
func TestReloadOfResourceWhileRequestsArrive(t *testing.T) {
	r := runOps("case a\ncb.new ec 1000 0 1 0 0\nrule 1 1000 100 5 0 0\nthread 0 rl:0,1\nsched\nthread 0 c:1:err\nsched\n" +
		"thread 0 rl:0,1,x\nthread 1 tp tp c:1:ok\nsched 1 0 1 1 1 0 1 1\nresults\nlog\nfinal\n")
	if r["results"] != "0:[] 1:[f,f]" || r["final"] != "clk=0 list=0.1 o0=O,1000,0 o1=C,-,0" {
		t.Fatalf("unexpected: %v", r)
	}
}

// Two entries hold probes of two different breakers at once; the one that is then rejected rolls back only the breaker it
// probed (scenario of seeded change C12-r6-2).
func TestTwoProbesAlive(t *testing.T) {
	r := runOps("case a\ncb.new ec 10 1 1 0 0\nrule 1 10 1 1 2 0\nthread 0 rl:1,0\nsched\nthread 0 c:1:err\nsched\nsched tick:10\n" +
		"thread 0 tp\nthread 1 tp\nsched 0 0 0 0 1 1 1 1 1 0 0\nresults\nlog\nfinal\n")
	if r["results"] != "0:[f] 1:[t]" || r["log"] != "[C>O@0,C>O@0,O>H@0,O>H@1,H>O@0]" || r["final"] != "clk=10 list=1.2 o0=C,-,0 o1=O,10,0 o2=H,10,0" {
		t.Fatalf("unexpected: %v", r)
	}
}

// A probe through a context without SentinelEntry is admitted and reported (scenario of seeded change C12-r6-3).
func TestProbeWithoutEntry(t *testing.T) {
	r := runOps("case a\ncb.new ec 10 1 1 0 0\nthread 0 c:1:err\nsched\nsched tick:10\nthread 0 tpn\nsched\nresults\nlog\nfinal\n")
	if r["results"] != "0:[t]" || r["log"] != "[C>O@0,O>H@0]" || r["final"] != "clk=10 list=0 o0=H,10,0" {
		t.Fatalf("unexpected: %v", r)
	}
}

// A TryPass that read the clock before another thread's probe failed and re-opened the breaker compares that OLD reading
// with the NEW deadline and is rejected (scenario of seeded change C12-r7-1); the harness clock yields between the clock
// read and the deadline load of the retry check.
func TestClockReadBeforeReopen(t *testing.T) {
	r := runOps("case a\ncb.new ec 1000 1 1 0 0\nthread 0 c:1:err\nsched\nsched tick:1000\nthread 0 tp\nthread 1 tp c:1:err\n" +
		"sched 0 0 1 1 1 1 tick:5 1 1 1 1 0 0\nresults\nlog\nfinal\n")
	if r["results"] != "0:[f] 1:[t]" || r["final"] != "clk=1005 list=0 o0=O,2005,0" {
		t.Fatalf("unexpected: %v", r)
	}
}
