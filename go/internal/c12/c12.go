// Package c12 interprets the C12 op language against the real core/circuitbreaker package:
// thread programs (TryPass / OnRequestComplete calls on one real breaker) are run under the
// deterministic yield-hook scheduler (verifharness/internal/sched, prefixes "cb."), and after every
// granted step the breaker's shared words are read back, so that the trace can be compared token by
// token with the Lean small-step model (lean/Sentinel/Model/BreakerRace.lean).
//
//	cb.new <ec|er|sr> <retryTimeoutMs> <minRequestAmount> <threshold: int for ec, f:<bits> for er/sr> <probeNum> <maxRtMs>
//	thread <tid> <call>+        call = tp | tpb | c:<rt>:ok | c:<rt>:err
//	sched <entry>*              entry = <tid> | tick:<ms>
//	results | log | final
//
// The breaker is built with StatIntervalMs = 10^9, one bucket, and the case's virtual clock starts on a
// multiple of 10^9 ms: everything a case records lands in one bucket of the breaker's own leap array,
// which is what the model's abstract window (bad, total) assumes.
package c12

import (
	"errors"
	"fmt"
	"reflect"
	"strconv"
	"strings"
	"time"

	"github.com/alibaba/sentinel-golang/core/base"
	cb "github.com/alibaba/sentinel-golang/core/circuitbreaker"
	"verifharness/internal/sched"
	"verifharness/internal/vh"
)

const intervalMs = 1000000000

type call struct {
	tryPass bool
	blocked bool
	rt      uint64
	err     bool
}

type note struct{ prev, to cb.State }

type listener struct{ log *[]note }

func (l listener) OnTransformToClosed(prev cb.State, _ cb.Rule) {
	*l.log = append(*l.log, note{prev, cb.Closed})
}
func (l listener) OnTransformToOpen(prev cb.State, _ cb.Rule, _ interface{}) {
	*l.log = append(*l.log, note{prev, cb.Open})
}
func (l listener) OnTransformToHalfOpen(prev cb.State, _ cb.Rule) {
	*l.log = append(*l.log, note{prev, cb.HalfOpen})
}

type Interp struct {
	clk     *vh.Clock
	base    uint64 // start of the current case (ms), a multiple of intervalMs
	ncase   uint64
	br      cb.CircuitBreaker
	rw      *base.ResourceWrapper
	progs   [][]call
	log     []note
	logTid  []int
	results [][]bool
	ran     bool
}

func New() vh.Interp {
	vh.Silence()
	it := &Interp{clk: vh.NewClock(1900000000000)}
	return it
}

func (it *Interp) Reset() {
	cb.ClearStateChangeListeners()
	_ = cb.ClearRules()
	it.ncase++
	it.base = 1900000000000 + it.ncase*intervalMs
	it.clk.SetMs(it.base)
	it.br, it.progs, it.log, it.logTid, it.results, it.ran = nil, nil, nil, nil, nil, false
}

func stc(s cb.State) string {
	switch s {
	case cb.Closed:
		return "C"
	case cb.HalfOpen:
		return "H"
	case cb.Open:
		return "O"
	}
	return "?"
}

var points = map[string]string{
	"cb.state.get": "sg", "cb.state.set": "ss", "cb.state.cas": "sc", "cb.retry.load": "rl", "cb.retry.store": "rs",
	"cb.probe.add": "pa", "cb.probe.reset": "pr", "cb.probe.load": "pl",
}

func tf(b bool) string {
	if b {
		return "t"
	}
	return "f"
}

// word reads an unexported uint64 field of the breaker (promoted from circuitBreakerBase); only called
// while no worker is running.
func (it *Interp) word(name string) uint64 {
	return reflect.ValueOf(it.br).Elem().FieldByName(name).Uint()
}

func (it *Interp) dl() string {
	d := it.word("nextRetryTimestampMs")
	if d == 0 {
		return "-"
	}
	return strconv.FormatUint(d-it.base, 10)
}

func parseCall(s string) (call, bool) {
	p := strings.Split(s, ":")
	switch {
	case len(p) == 1 && p[0] == "tp":
		return call{tryPass: true}, true
	case len(p) == 1 && p[0] == "tpb":
		return call{tryPass: true, blocked: true}, true
	case len(p) == 3 && p[0] == "c" && (p[2] == "ok" || p[2] == "err"):
		rt, err := strconv.ParseUint(p[1], 10, 64)
		if err != nil {
			return call{}, false
		}
		return call{rt: rt, err: p[2] == "err"}, true
	}
	return call{}, false
}

func (it *Interp) newBreaker(t []string) bool {
	if len(t) != 7 {
		return false
	}
	to, e1 := strconv.ParseUint(t[2], 10, 32)
	mr, e2 := strconv.ParseUint(t[3], 10, 64)
	pn, e3 := strconv.ParseUint(t[5], 10, 64)
	mx, e4 := strconv.ParseUint(t[6], 10, 64)
	if e1 != nil || e2 != nil || e3 != nil || e4 != nil || to == 0 || to > 100000 {
		return false
	}
	r := &cb.Rule{Resource: fmt.Sprintf("c12-%d", it.ncase), RetryTimeoutMs: uint32(to), MinRequestAmount: mr,
		StatIntervalMs: intervalMs, StatSlidingWindowBucketCount: 1, ProbeNum: pn, MaxAllowedRtMs: mx}
	switch t[1] {
	case "ec":
		k, err := strconv.ParseUint(t[4], 10, 64)
		if err != nil {
			return false
		}
		r.Strategy, r.Threshold = cb.ErrorCount, float64(k)
	case "er", "sr":
		f, ok := vh.ParseFBits(t[4])
		if !ok {
			return false
		}
		r.Threshold = f
		if t[1] == "er" {
			r.Strategy = cb.ErrorRatio
		} else {
			r.Strategy = cb.SlowRequestRatio
		}
	default:
		return false
	}
	if err := cb.IsValidRule(r); err != nil {
		panic("invalid rule: " + err.Error())
	}
	bs := cb.BuildResourceCircuitBreaker(r.Resource, []*cb.Rule{r}, nil)
	if len(bs) != 1 {
		panic("no breaker built")
	}
	it.br = bs[0]
	it.rw = base.NewResourceWrapper(r.Resource, base.ResTypeCommon, base.Inbound)
	it.progs, it.log, it.logTid, it.results, it.ran = nil, nil, nil, nil, false
	cb.ClearStateChangeListeners()
	cb.RegisterStateChangeListeners(listener{&it.log})
	return true
}

func (it *Interp) worker(tid int) func() {
	prog := it.progs[tid]
	return func() {
		for _, c := range prog {
			if c.tryPass {
				ctx := base.NewEmptyEntryContext()
				ctx.Resource = it.rw
				e := base.NewSentinelEntry(ctx, it.rw, nil)
				ctx.SetEntry(e)
				r := it.br.TryPass(ctx)
				it.results[tid] = append(it.results[tid], r)
				if c.blocked {
					// a later rule-check slot (or another breaker of the resource) blocks the request
					ctx.RuleCheckResult = base.NewTokenResultBlocked(base.BlockTypeCircuitBreaking)
				}
				e.Exit()
			} else {
				var err error
				if c.err {
					err = errors.New("x")
				}
				it.br.OnRequestComplete(c.rt, err)
			}
		}
	}
}

func (it *Interp) runSched(toks []string) string {
	var es []sched.Entry
	if len(toks) > 400 {
		return "bad-op"
	}
	for _, t := range toks {
		if strings.HasPrefix(t, "tick:") {
			ms, err := strconv.ParseUint(t[5:], 10, 64)
			if err != nil || ms > 1000000 {
				return "bad-op"
			}
			es = append(es, sched.Tick(ms*1000000))
			continue
		}
		id, err := strconv.ParseUint(t, 10, 31)
		if err != nil {
			return "bad-op"
		}
		es = append(es, sched.T(int(id)))
	}
	ws := make([]func(), len(it.progs))
	it.results = make([][]bool, len(it.progs))
	for i := range ws {
		ws[i] = it.worker(i)
	}
	var out []string
	nres := make([]int, len(it.progs))
	rep := sched.Run(ws, es, sched.Options{
		Prefixes: []string{"cb."},
		// the only wall-clock dependence of the whole pipeline is the scheduler's watchdog: keep it far above any
		// pause of the machine (a fired watchdog shows up as an unreadable trace, i.e. as an alarm)
		StepTimeout: 5 * time.Minute,
		OnTick:   func(ns uint64) { it.clk.Ns += ns },
		AfterStep: func(s sched.Step) {
			from, to := points[s.From], points[s.To]
			if s.Start {
				from = "start"
			}
			if s.Done {
				to = "done"
			}
			var b strings.Builder
			fmt.Fprintf(&b, "%d:%s>%s:%s:%s:%d:%d", s.Tid, from, to, stc(it.br.CurrentState()), it.dl(),
				it.word("curProbeNumber"), it.clk.CurrentTimeMillis()-it.base)
			for len(it.logTid) < len(it.log) {
				n := it.log[len(it.logTid)]
				it.logTid = append(it.logTid, s.Tid)
				fmt.Fprintf(&b, ":L%s%s", stc(n.prev), stc(n.to))
			}
			for ; nres[s.Tid] < len(it.results[s.Tid]); nres[s.Tid]++ {
				b.WriteString(":R" + tf(it.results[s.Tid][nres[s.Tid]]))
			}
			out = append(out, b.String())
		},
	})
	it.ran = true
	if rep.Err != nil {
		return "ERR " + rep.Err.Error()
	}
	for i, th := range rep.Threads {
		if th.Panic != nil {
			return fmt.Sprintf("PANIC thread %d: %v", i, th.Panic)
		}
	}
	if len(out) == 0 {
		return "-"
	}
	return strings.Join(out, " ")
}

func (it *Interp) Step(t []string, op string) string {
	switch t[0] {
	case "cb.new":
		if !it.newBreaker(t) {
			return "bad-op"
		}
		return ""
	case "thread":
		if it.br == nil || len(t) < 3 || t[1] != strconv.Itoa(len(it.progs)) || len(it.progs) >= 8 {
			return "bad-op"
		}
		var p []call
		for _, s := range t[2:] {
			c, ok := parseCall(s)
			if !ok {
				return "bad-op"
			}
			p = append(p, c)
		}
		it.progs = append(it.progs, p)
		return ""
	case "sched":
		if it.br == nil {
			return "bad-op"
		}
		r := it.runSched(t[1:])
		it.progs = nil
		return r
	case "results":
		if !it.ran {
			return "bad-op"
		}
		var xs []string
		for i, rs := range it.results {
			ys := make([]string, len(rs))
			for j, r := range rs {
				ys[j] = tf(r)
			}
			xs = append(xs, fmt.Sprintf("%d:%s", i, vh.List(ys)))
		}
		if len(xs) == 0 {
			return "-"
		}
		return strings.Join(xs, " ")
	case "log":
		if !it.ran {
			return "bad-op"
		}
		xs := make([]string, len(it.log))
		for i, n := range it.log {
			xs[i] = fmt.Sprintf("%s>%s@%d", stc(n.prev), stc(n.to), it.logTid[i])
		}
		return vh.List(xs)
	case "final":
		if !it.ran {
			return "bad-op"
		}
		return fmt.Sprintf("st=%s dl=%s probe=%d clk=%d", stc(it.br.CurrentState()), it.dl(), it.word("curProbeNumber"),
			it.clk.CurrentTimeMillis()-it.base)
	}
	return "bad-op"
}
