// Package c12 interprets the C12 op language against the real core/circuitbreaker package:
// thread programs (requests checked by circuitbreaker.Slot / completed through MetricStatSlot on the
// resource's real breaker, and rule reloads through circuitbreaker.LoadRules) are run under the
// deterministic yield-hook scheduler (verifharness/internal/sched, prefixes "cb."), and after every
// granted step the shared words of the breaker object acted upon — and of the live one, if that is
// another object after a reload — are read back, so that the trace can be compared token by token with
// the Lean small-step model (lean/Sentinel/Model/BreakerRace.lean).
//
//	cb.new <ec|er|sr> <retryTimeoutMs> <minRequestAmount> <threshold: int for ec, f:<bits> for er/sr> <probeNum> <maxRtMs>
//	rule <id> <retryTimeoutMs> <minRequestAmount> <threshold> <probeNum> <maxRtMs>      (rule table; cb.new is rule 0)
//	thread <tid> <item>+        item = tp | tpb | tpn (no SentinelEntry in the context) | c:<rt>:ok | c:<rt>:err
//	                                 | rd:<retryTimeoutMs>:<minReq>:<threshold>:<probeNum>:<maxRtMs>   LoadRules([that rule])
//	                                 | rl:<e>,<e>,…   LoadRulesOfResource(res, rules); e = rule id | x (a pass-through rule of a
//	                                   custom strategy whose generator yields at cb.x.rebuild: a yield point INSIDE the rebuild)
//	sched <entry>*              entry = <tid> | tick:<ms>
//	results | log | final
//
// Rules have StatIntervalMs = 10^9, one bucket, and the case's virtual clock starts on a multiple of
// 10^9 ms: everything a case records lands in one bucket of the breaker's leap array, which is what the
// model's abstract window (bad, total) assumes.  A reload keeps strategy and statistic geometry (so the
// new rule is always stat-reusable); whether it is "equal" (breaker object kept) is the code's decision.
package c12

import (
	"errors"
	"fmt"
	"reflect"
	"runtime"
	"strconv"
	"strings"
	"time"
	_ "unsafe" // go:linkname

	"github.com/alibaba/sentinel-golang/core/base"
	cb "github.com/alibaba/sentinel-golang/core/circuitbreaker"
	"github.com/alibaba/sentinel-golang/util"
	"github.com/alibaba/sentinel-golang/util/verifhook"
	"verifharness/internal/sched"
	"verifharness/internal/vh"
)

const intervalMs = 1000000000

// the rule manager's own lookup (what Slot.Check / MetricStatSlot.OnCompleted use): read-only access for
// observing which breaker object is live after a rule reload
//
//go:linkname getBreakersOfResource github.com/alibaba/sentinel-golang/core/circuitbreaker.getBreakersOfResource
func getBreakersOfResource(resource string) []cb.CircuitBreaker

// yclock is the case's virtual clock with one more yield point: when the clock is read from the breaker's retry check
// (a method of circuitBreakerBase other than the deadline store) the value is taken first and then the caller yields
// (`cb.x.clock`), so that other threads can run between that clock read and the deadline load that follows it.
type yclock struct{ *vh.Clock }

func (c yclock) CurrentTimeMillis() uint64 {
	v := c.Clock.CurrentTimeMillis()
	if inRetryCheck() {
		verifhook.Yield("cb.x.clock")
	}
	return v
}

func inRetryCheck() bool {
	var pcs [10]uintptr
	n := runtime.Callers(3, pcs[:])
	frames := runtime.CallersFrames(pcs[:n])
	for {
		f, more := frames.Next()
		if strings.Contains(f.Function, "circuitbreaker.(*circuitBreakerBase).") {
			return !strings.HasSuffix(f.Function, ".updateNextRetryTimestamp")
		}
		if !more {
			return false
		}
	}
}

type call struct {
	tryPass bool
	blocked bool
	noEntry bool // the context carries no SentinelEntry (base.NewEmptyEntryContext() as it comes)
	rt      uint64
	err     bool
	reload  []*cb.Rule // non-nil: a rule load, parked at the harness's own yield point cb.x.reload before
	ofRes   bool       // LoadRulesOfResource (rl:) instead of LoadRules (rd:)
	yields  int        // pass-through rules in the list: yield points cb.x.rebuild inside the rebuild
}

// customStrategy is a circuit breaking strategy of the harness: its breakers let everything pass; its generator —
// called by BuildResourceCircuitBreaker in the middle of the rebuild loop, with no lock on the breaker map held —
// yields, which gives the scheduler a step boundary inside the rebuild.
const customStrategy cb.Strategy = 100

type passBreaker struct{ rule *cb.Rule }

func (p *passBreaker) BoundRule() *cb.Rule                 { return p.rule }
func (p *passBreaker) BoundStat() interface{}              { return nil }
func (p *passBreaker) TryPass(_ *base.EntryContext) bool   { return true }
func (p *passBreaker) CurrentState() cb.State              { return cb.Closed }
func (p *passBreaker) OnRequestComplete(_ uint64, _ error) {}

type note struct{ prev, to cb.State }

type listener struct{ log *[]note }

func (l listener) OnTransformToClosed(prev cb.State, _ cb.Rule) {
	*l.log = append(*l.log, note{prev, cb.Closed})
}
func (l listener) OnTransformToOpen(prev cb.State, _ cb.Rule, _ interface{}) {
	*l.log = append(*l.log, note{prev, cb.Open})
}
func (l listener) OnTransformToHalfOpen(prev cb.State, _ cb.Rule) {
	*l.log = append(*l.log, note{prev, cb.HalfOpen})
}

type Interp struct {
	clk     *vh.Clock
	base    uint64 // start of the current case (ms), a multiple of intervalMs
	ncase   uint64
	kind    string
	res     string
	rw      *base.ResourceWrapper
	objs    []cb.CircuitBreaker // every (built-in) breaker object the resource has had in this case, in order of appearance
	table   []*cb.Rule          // rule table (templates): cb.new is rule 0
	pub     []int               // the published breaker list as last seen (object indices)
	snaps   [][][]int           // per thread: snapshots of the list taken by its checks / completions since the last token
	progs   [][]call
	log     []note
	logTid  []int
	results [][]bool
	ran     bool
}

func New() vh.Interp {
	vh.Silence()
	it := &Interp{clk: vh.NewClock(1900000000000)}
	util.SetClock(yclock{it.clk})
	if err := cb.SetCircuitBreakerGenerator(customStrategy, func(r *cb.Rule, _ interface{}) (cb.CircuitBreaker, error) {
		verifhook.Yield("cb.x.rebuild")
		return &passBreaker{r}, nil
	}); err != nil {
		panic(err)
	}
	return it
}

func (it *Interp) Reset() {
	cb.ClearStateChangeListeners()
	_ = cb.ClearRules()
	it.ncase++
	it.base = 1900000000000 + it.ncase*intervalMs
	it.clk.SetMs(it.base)
	it.kind, it.objs, it.table, it.pub, it.progs, it.log, it.logTid, it.results, it.ran = "", nil, nil, nil, nil, nil, nil, nil, false
}

func stc(s cb.State) string {
	switch s {
	case cb.Closed:
		return "C"
	case cb.HalfOpen:
		return "H"
	case cb.Open:
		return "O"
	}
	return "?"
}

var points = map[string]string{
	"cb.state.get": "sg", "cb.state.set": "ss", "cb.state.cas": "sc", "cb.retry.load": "rl", "cb.retry.store": "rs",
	"cb.probe.add": "pa", "cb.probe.reset": "pr", "cb.probe.load": "pl", "cb.x.reload": "rd", "cb.x.rebuild": "rb", "cb.x.clock": "ck",
}

func tf(b bool) string {
	if b {
		return "t"
	}
	return "f"
}

// word reads an unexported uint64 field of breaker object k (promoted from circuitBreakerBase); only called
// while no worker is running.
func (it *Interp) word(k int, name string) uint64 {
	return reflect.ValueOf(it.objs[k]).Elem().FieldByName(name).Uint()
}

func (it *Interp) dl(k int) string {
	d := it.word(k, "nextRetryTimestampMs")
	if d == 0 {
		return "-"
	}
	return strconv.FormatUint(d-it.base, 10)
}

// list returns the resource's breaker list as the rule manager hands it to a request right now (object indices; the
// harness's pass-through breakers are skipped), registering objects seen for the first time.
func (it *Interp) list() []int {
	var ids []int
	for _, b := range getBreakersOfResource(it.res) {
		if _, ok := b.(*passBreaker); ok {
			continue
		}
		k := -1
		for i, o := range it.objs {
			if o == b {
				k = i
			}
		}
		if k < 0 {
			it.objs = append(it.objs, b)
			k = len(it.objs) - 1
		}
		ids = append(ids, k)
	}
	return ids
}

func listS(l []int) string {
	if len(l) == 0 {
		return "-"
	}
	xs := make([]string, len(l))
	for i, k := range l {
		xs[i] = strconv.Itoa(k)
	}
	return strings.Join(xs, ".")
}

func sameList(a, b []int) bool {
	if len(a) != len(b) {
		return false
	}
	for i := range a {
		if a[i] != b[i] {
			return false
		}
	}
	return true
}

func copyRule(r *cb.Rule) *cb.Rule { c := *r; return &c }

func (it *Interp) rule(t []string) *cb.Rule {
	if len(t) != 5 {
		return nil
	}
	to, e1 := strconv.ParseUint(t[0], 10, 32)
	mr, e2 := strconv.ParseUint(t[1], 10, 64)
	pn, e3 := strconv.ParseUint(t[3], 10, 64)
	mx, e4 := strconv.ParseUint(t[4], 10, 64)
	if e1 != nil || e2 != nil || e3 != nil || e4 != nil || to == 0 || to > 100000 {
		return nil
	}
	r := &cb.Rule{Resource: it.res, RetryTimeoutMs: uint32(to), MinRequestAmount: mr,
		StatIntervalMs: intervalMs, StatSlidingWindowBucketCount: 1, ProbeNum: pn, MaxAllowedRtMs: mx}
	switch it.kind {
	case "ec":
		k, err := strconv.ParseUint(t[2], 10, 64)
		if err != nil {
			return nil
		}
		r.Strategy, r.Threshold = cb.ErrorCount, float64(k)
	case "er", "sr":
		f, ok := vh.ParseFBits(t[2])
		if !ok {
			return nil
		}
		r.Threshold = f
		if it.kind == "er" {
			r.Strategy = cb.ErrorRatio
		} else {
			r.Strategy = cb.SlowRequestRatio
		}
	default:
		return nil
	}
	return r
}

func (it *Interp) parseCall(s string) (call, bool) {
	p := strings.Split(s, ":")
	switch {
	case len(p) == 1 && p[0] == "tp":
		return call{tryPass: true}, true
	case len(p) == 1 && p[0] == "tpb":
		return call{tryPass: true, blocked: true}, true
	case len(p) == 1 && p[0] == "tpn":
		return call{tryPass: true, noEntry: true}, true
	case len(p) == 3 && p[0] == "c" && (p[2] == "ok" || p[2] == "err"):
		rt, err := strconv.ParseUint(p[1], 10, 64)
		if err != nil {
			return call{}, false
		}
		return call{rt: rt, err: p[2] == "err"}, true
	case len(p) == 6 && p[0] == "rd":
		r := it.rule(p[1:])
		if r == nil {
			return call{}, false
		}
		return call{reload: []*cb.Rule{r}}, true
	case len(p) == 2 && p[0] == "rl":
		c := call{ofRes: true}
		real := 0
		for _, e := range strings.Split(p[1], ",") {
			if e == "x" {
				c.reload = append(c.reload, &cb.Rule{Resource: it.res, Strategy: customStrategy, RetryTimeoutMs: 1000,
					StatIntervalMs: intervalMs, StatSlidingWindowBucketCount: 1, Threshold: 1})
				c.yields++
				continue
			}
			id, err := strconv.Atoi(e)
			if err != nil || id < 0 || id >= len(it.table) {
				return call{}, false
			}
			c.reload = append(c.reload, copyRule(it.table[id]))
			real++
		}
		if real == 0 {
			return call{}, false
		}
		return c, true
	}
	return call{}, false
}

func (it *Interp) newBreaker(t []string) bool {
	if len(t) != 7 {
		return false
	}
	it.kind = t[1]
	it.res = fmt.Sprintf("c12-%d", it.ncase)
	r := it.rule(t[2:])
	if r == nil {
		it.kind = ""
		return false
	}
	if err := cb.IsValidRule(r); err != nil {
		panic("invalid rule: " + err.Error())
	}
	cb.ClearStateChangeListeners()
	if _, err := cb.LoadRules([]*cb.Rule{r}); err != nil {
		panic(err)
	}
	it.rw = base.NewResourceWrapper(it.res, base.ResTypeCommon, base.Inbound)
	it.objs, it.progs, it.log, it.logTid, it.results, it.ran = nil, nil, nil, nil, nil, false
	it.table = []*cb.Rule{copyRule(r)}
	it.pub = it.list()
	cb.RegisterStateChangeListeners(listener{&it.log})
	return true
}

func (it *Interp) worker(tid int) func() {
	prog := it.progs[tid]
	return func() {
		for _, c := range prog {
			switch {
			case c.reload != nil:
				verifhook.Yield("cb.x.reload")
				var err error
				if c.ofRes {
					_, err = cb.LoadRulesOfResource(it.res, c.reload)
				} else {
					_, err = cb.LoadRules(c.reload)
				}
				if err != nil {
					panic(err)
				}
			case c.tryPass:
				// Slot.Check looks the breaker list up itself; no yield point lies between here and that lookup, so the
				// list recorded here is the one it walks over
				it.snaps[tid] = append(it.snaps[tid], it.list())
				ctx := base.NewEmptyEntryContext()
				ctx.Resource = it.rw
				if tid%2 == 0 {
					// as a context from the slot chain's pool comes: with a "pass" result object that Slot.Check resets in place
					ctx.RuleCheckResult = base.NewTokenResultPass()
				}
				var e *base.SentinelEntry
				if !c.noEntry {
					e = base.NewSentinelEntry(ctx, it.rw, nil)
					ctx.SetEntry(e)
				}
				r := cb.DefaultSlot.Check(ctx)
				blocked := r != nil && r.IsBlocked()
				it.results[tid] = append(it.results[tid], !blocked)
				// what SlotChain.Entry does with the outcome of the rule checks
				if blocked {
					ctx.RuleCheckResult = r
				} else if c.blocked {
					// a later rule-check slot blocks the request
					ctx.RuleCheckResult = base.NewTokenResultBlocked(base.BlockTypeFlow)
				} else {
					ctx.RuleCheckResult = nil
				}
				if e != nil {
					e.Exit()
				}
			default:
				it.snaps[tid] = append(it.snaps[tid], it.list())
				ctx := base.NewEmptyEntryContext()
				ctx.Resource = it.rw
				if c.err {
					ctx.SetError(errors.New("x"))
				}
				ctx.PutRt(c.rt)
				cb.DefaultMetricStatSlot.OnCompleted(ctx)
			}
		}
	}
}

func (it *Interp) runSched(toks []string) string {
	var es []sched.Entry
	if len(toks) > 400 {
		return "bad-op"
	}
	for _, t := range toks {
		if strings.HasPrefix(t, "tick:") {
			ms, err := strconv.ParseUint(t[5:], 10, 64)
			if err != nil || ms > 1000000 {
				return "bad-op"
			}
			es = append(es, sched.Tick(ms*1000000))
			continue
		}
		id, err := strconv.ParseUint(t, 10, 31)
		if err != nil {
			return "bad-op"
		}
		es = append(es, sched.T(int(id)))
	}
	n := len(it.progs)
	// reload items of >= 2 threads while one of them yields inside the rebuild would block on the rule manager's mutex
	// with the holder parked: such a batch is rejected (the Lean driver does the same)
	loaders, yields := 0, false
	for _, p := range it.progs {
		l := false
		for _, c := range p {
			if c.reload != nil {
				l = true
				yields = yields || c.yields > 0
			}
		}
		if l {
			loaders++
		}
	}
	if yields && loaders >= 2 {
		return "bad-op"
	}
	ws := make([]func(), n)
	it.results = make([][]bool, n)
	it.snaps = make([][][]int, n)
	for i := range ws {
		ws[i] = it.worker(i)
	}
	var out []string
	nres := make([]int, n)
	nobj := len(it.objs) // objects known when the step began
	rep := sched.Run(ws, es, sched.Options{
		Prefixes: []string{"cb."},
		// the only wall-clock dependence of the whole pipeline is the scheduler's watchdog: keep it far above any
		// pause of the machine (a fired watchdog shows up as an unreadable trace, i.e. as an alarm)
		StepTimeout: 5 * time.Minute,
		OnTick:      func(ns uint64) { it.clk.Ns += ns },
		AfterStep: func(s sched.Step) {
			from, to := points[s.From], points[s.To]
			if s.Start {
				from = "start"
			}
			if s.Done {
				to = "done"
			}
			pub := it.list()
			var b strings.Builder
			fmt.Fprintf(&b, "%d:%s>%s:%d", s.Tid, from, to, it.clk.CurrentTimeMillis()-it.base)
			for k := range it.objs {
				fmt.Fprintf(&b, ":W%d,%s,%s,%d", k, stc(it.objs[k].CurrentState()), it.dl(k), it.word(k, "curProbeNumber"))
			}
			if !sameList(pub, it.pub) {
				b.WriteString(":P" + listS(pub))
				it.pub = pub
			}
			for _, l := range it.snaps[s.Tid] {
				b.WriteString(":S" + listS(l))
			}
			it.snaps[s.Tid] = nil
			for k := nobj; k < len(it.objs); k++ {
				r := it.objs[k].BoundRule()
				fmt.Fprintf(&b, ":N%d,%d,%d", k, r.RetryTimeoutMs, r.ProbeNum)
			}
			for len(it.logTid) < len(it.log) {
				n := it.log[len(it.logTid)]
				it.logTid = append(it.logTid, s.Tid)
				fmt.Fprintf(&b, ":L%s%s", stc(n.prev), stc(n.to))
			}
			for ; nres[s.Tid] < len(it.results[s.Tid]); nres[s.Tid]++ {
				b.WriteString(":R" + tf(it.results[s.Tid][nres[s.Tid]]))
			}
			out = append(out, b.String())
			nobj = len(it.objs)
		},
	})
	it.ran = true
	if rep.Err != nil {
		return "ERR " + rep.Err.Error()
	}
	for i, th := range rep.Threads {
		if th.Panic != nil {
			return fmt.Sprintf("PANIC thread %d: %v", i, th.Panic)
		}
	}
	if len(out) == 0 {
		return "-"
	}
	return strings.Join(out, " ")
}

func (it *Interp) Step(t []string, op string) string {
	switch t[0] {
	case "cb.new":
		if !it.newBreaker(t) {
			return "bad-op"
		}
		return ""
	case "rule":
		if it.kind == "" || len(t) != 7 || t[1] != strconv.Itoa(len(it.table)) {
			return "bad-op"
		}
		r := it.rule(t[2:])
		if r == nil {
			return "bad-op"
		}
		it.table = append(it.table, r)
		return ""
	case "thread":
		if it.kind == "" || len(t) < 3 || t[1] != strconv.Itoa(len(it.progs)) || len(it.progs) >= 8 {
			return "bad-op"
		}
		var p []call
		for _, s := range t[2:] {
			c, ok := it.parseCall(s)
			if !ok {
				return "bad-op"
			}
			p = append(p, c)
		}
		it.progs = append(it.progs, p)
		return ""
	case "sched":
		if it.kind == "" {
			return "bad-op"
		}
		r := it.runSched(t[1:])
		it.progs = nil
		return r
	case "results":
		if !it.ran {
			return "bad-op"
		}
		var xs []string
		for i, rs := range it.results {
			ys := make([]string, len(rs))
			for j, r := range rs {
				ys[j] = tf(r)
			}
			xs = append(xs, fmt.Sprintf("%d:%s", i, vh.List(ys)))
		}
		if len(xs) == 0 {
			return "-"
		}
		return strings.Join(xs, " ")
	case "log":
		if !it.ran {
			return "bad-op"
		}
		xs := make([]string, len(it.log))
		for i, n := range it.log {
			xs[i] = fmt.Sprintf("%s>%s@%d", stc(n.prev), stc(n.to), it.logTid[i])
		}
		return vh.List(xs)
	case "final":
		if !it.ran {
			return "bad-op"
		}
		var b strings.Builder
		fmt.Fprintf(&b, "clk=%d list=%s", it.clk.CurrentTimeMillis()-it.base, listS(it.list()))
		for k := range it.objs {
			fmt.Fprintf(&b, " o%d=%s,%s,%d", k, stc(it.objs[k].CurrentState()), it.dl(k), it.word(k, "curProbeNumber"))
		}
		return b.String()
	}
	return "bad-op"
}
