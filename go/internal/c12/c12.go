// Package c12 interprets the C12 op language against the real packages (stub).
package c12

import "verifharness/internal/vh"

// New returns the interpreter for C12.
func New() vh.Interp { return nil }
