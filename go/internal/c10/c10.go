// Package c10 interprets the C10 op language against the real packages (stub).
package c10

import "verifharness/internal/vh"

// New returns the interpreter for C10.
func New() vh.Interp { return nil }
