// Package c10 interprets the C10 op language against the real packages: a throttling flow rule is
// loaded with flow.LoadRules, every request is an api.Entry on the rule's resource, the wait is what the
// flow slot asked the (virtual) clock to sleep. Schedule cases run one api.Entry per worker goroutine
// under go/internal/sched, parking at the `th.*` yield hooks of ThrottlingChecker.DoCheck.
package c10

import (
	"fmt"
	"strings"
	"time"

	"github.com/alibaba/sentinel-golang/api"
	"github.com/alibaba/sentinel-golang/core/base"
	"github.com/alibaba/sentinel-golang/core/flow"
	"github.com/alibaba/sentinel-golang/core/stat"
	"github.com/alibaba/sentinel-golang/util"
	"github.com/alibaba/sentinel-golang/util/verifhook"
	"verifharness/internal/sched"
	"verifharness/internal/vh"
)

type decl struct {
	clock uint64
	batch uint32
}

// hookClock is the virtual clock plus one hook: the first Sleep after `onsleep <op>` performs <op> (a reload) while the
// request that asked for the sleep is still inside flow.Slot.Check — deterministically, on the same goroutine.
type hookClock struct {
	*vh.Clock
	onSleep func()
}

func (c *hookClock) Sleep(d time.Duration) {
	c.Clock.Sleep(d)
	if f := c.onSleep; f != nil {
		c.onSleep = nil
		f()
	}
}

type Interp struct {
	hc     *hookClock
	clk    *vh.Clock
	n      int
	res    string
	loaded bool
	decls  []decl
}

func New() vh.Interp {
	vh.Silence()
	c := vh.NewClock(1_900_000_000_000)
	hc := &hookClock{Clock: c}
	util.SetClock(hc)
	return &Interp{clk: c, hc: hc}
}

func (it *Interp) Reset() {
	_ = flow.ClearRules()
	stat.ResetResourceNodeMap()
	it.n++
	it.res = fmt.Sprintf("c10-%d", it.n)
	it.loaded = false
	it.decls = nil
	it.clk.Sleeps = nil
	it.hc.onSleep = nil
}

// one request through the public API; returns "block" or "pass" (the wait is read from the clock's Sleeps)
func (it *Interp) entry(batch uint32) string {
	e, berr := api.Entry(it.res, api.WithBatchCount(batch))
	if berr != nil {
		if berr.BlockType() == base.BlockTypeFlow {
			return "block"
		}
		return "block-" + berr.BlockType().String()
	}
	e.Exit()
	return "pass"
}

func sum(ds []time.Duration) (s time.Duration) {
	for _, d := range ds {
		s += d
	}
	return
}

func (it *Interp) Step(t []string, op string) string {
	switch t[0] {
	case "onsleep":
		op := append([]string(nil), t[1:]...)
		it.hc.onSleep = func() { it.Step(op, strings.Join(op, " ")) }
		return ""
	case "load", "loadres":
		// load (<f:threshold> <statIntervalMs> <maxQueueingTimeMs>)* [other=<n>]: the complete rule list of the resource, in
		// check order; `other=<n>` adds a rule (threshold n) for another resource, so that a list that is otherwise
		// identical to the current one is still a real reload for flow.LoadRules
		args := t[1:]
		var rules []*flow.Rule
		if n := len(args); n > 0 && strings.HasPrefix(args[n-1], "other=") {
			rules = append(rules, &flow.Rule{Resource: it.res + "-other", TokenCalculateStrategy: flow.Direct,
				ControlBehavior: flow.Reject, Threshold: float64(vh.U(args[n-1][6:]))})
			args = args[:n-1]
		}
		for i := 0; i < len(args); i += 3 {
			if args[i] == "rj" || strings.HasPrefix(args[i], "rj:") {
				// a Reject rule of the same resource that is never reached: only its place in the controller list matters
				n := 0.0
				if len(args[i]) > 3 {
					n = float64(vh.U(args[i][3:]))
				}
				rules = append(rules, &flow.Rule{Resource: it.res, TokenCalculateStrategy: flow.Direct,
					ControlBehavior: flow.Reject, Threshold: 1e18 + n*1000})
				i -= 2
				continue
			}
			if i+2 >= len(args) {
				panic("bad load")
			}
			th, ok := vh.ParseFBits(args[i])
			if !ok {
				panic("bad threshold " + args[i])
			}
			rules = append(rules, &flow.Rule{
				Resource:               it.res,
				TokenCalculateStrategy: flow.Direct,
				ControlBehavior:        flow.Throttling,
				Threshold:              th,
				StatIntervalInMs:       uint32(vh.U(args[i+1])),
				MaxQueueingTimeMs:      uint32(vh.U(args[i+2])),
			})
		}
		if t[0] == "loadres" {
			// the per-resource path (the other resource's rule, if any, is not touched)
			var own []*flow.Rule
			for _, r := range rules {
				if r.Resource == it.res {
					own = append(own, r)
				}
			}
			if _, err := flow.LoadRulesOfResource(it.res, own); err != nil {
				panic(err)
			}
		} else if _, err := flow.LoadRules(rules); err != nil {
			panic(err)
		}
		// (whether the rules really are in force is what the following requests show; flow.GetRules is C13's subject)
		it.loaded = true
		return ""
	case "clear":
		if err := flow.ClearRules(); err != nil {
			panic(err)
		}
		it.loaded = true
		return ""
	case "clearres":
		if err := flow.ClearRulesOfResource(it.res); err != nil {
			panic(err)
		}
		it.loaded = true
		return ""
	case "clock":
		it.clk.Ns = vh.U(t[1])
		return ""
	case "req":
		// observable walk over the rules: L = a checker reached its shared timestamp (th.load hook), S<ns> = a sleep
		// the slot asked for, then the verdict
		var evs []string
		seen := len(it.clk.Sleeps)
		flush := func() {
			for ; seen < len(it.clk.Sleeps); seen++ {
				evs = append(evs, fmt.Sprintf("S%d", int64(it.clk.Sleeps[seen])))
			}
		}
		prev := verifhook.Sched
		verifhook.Sched = func(p string) {
			if p == "th.load" {
				flush()
				evs = append(evs, "L")
			}
		}
		r := func() string {
			defer func() { verifhook.Sched = prev }()
			return it.entry(uint32(vh.U(t[1])))
		}()
		flush()
		return strings.Join(append(evs, r), " ")
	case "thread":
		if int(vh.U(t[1])) != len(it.decls) || t[3] != "req" {
			panic("bad thread declaration")
		}
		it.decls = append(it.decls, decl{vh.U(t[2]), uint32(vh.U(t[4]))})
		return ""
	case "sched":
		sc, err := sched.ParseSchedule(t[1:])
		if err != nil {
			panic(err)
		}
		decls := it.decls
		it.decls = nil
		res := make([]string, len(decls))
		waits := make([]time.Duration, len(decls))
		slept := make([]bool, len(decls))
		ws := make([]func(), len(decls))
		for i := range decls {
			i := i
			ws[i] = func() { res[i] = it.entry(decls[i].batch) }
		}
		seen := len(it.clk.Sleeps)
		rep := sched.Run(ws, sc, sched.Options{
			Prefixes:    []string{"th."},
			BeforeStart: func(i int) { it.clk.Ns = decls[i].clock },
			OnTick:      func(ns uint64) { it.clk.Ns += ns },
			AfterStep: func(s sched.Step) {
				// exactly one worker ran since the last call: a Sleep requested meanwhile is its wait
				if n := len(it.clk.Sleeps); n > seen {
					waits[s.Tid] += sum(it.clk.Sleeps[seen:n])
					slept[s.Tid] = true
					seen = n
				}
			},
		})
		if rep.Err != nil {
			panic(rep.Err)
		}
		out := make([]string, len(decls))
		for i := range decls {
			switch {
			case rep.Threads[i].Panic != nil:
				out[i] = fmt.Sprintf("%d:panic", i)
			case res[i] == "pass" && slept[i]:
				out[i] = fmt.Sprintf("%d:wait:%d", i, int64(waits[i]))
			default:
				out[i] = fmt.Sprintf("%d:%s", i, res[i])
			}
		}
		return "[" + strings.Join(out, ",") + "]"
	}
	panic("bad op " + op)
}
