// Package vh holds what every correspondence interpreter shares: the virtual clock, the line
// protocol reader/writer and canonical printing.
package vh

import (
	"bufio"
	"fmt"
	"io"
	"math"
	"os"
	"sort"
	"strconv"
	"strings"
	"time"

	"github.com/alibaba/sentinel-golang/logging"
	"github.com/alibaba/sentinel-golang/util"
)

// Clock is a fully virtual util.Clock: time only moves when the harness says so (or when the
// code under test asks to Sleep, which is recorded and advances the clock).
type Clock struct {
	Ns     uint64
	Sleeps []time.Duration
}

func (c *Clock) Now() time.Time            { return time.Unix(0, int64(c.Ns)) }
func (c *Clock) Sleep(d time.Duration)     { c.Sleeps = append(c.Sleeps, d); c.Ns += uint64(d) }
func (c *Clock) CurrentTimeMillis() uint64 { return c.Ns / 1e6 }
func (c *Clock) CurrentTimeNano() uint64   { return c.Ns }
func (c *Clock) SetMs(ms uint64)           { c.Ns = ms * 1e6 }

// Install makes c the process-wide clock of sentinel.
func Install(c *Clock) { util.SetClock(c) }

// FBits prints a float64 as its bit pattern.
func FBits(f float64) string {
	if math.IsNaN(f) {
		return "f:nan" // the sign/payload of a NaN is not part of any property
	}
	return fmt.Sprintf("f:%016x", math.Float64bits(f))
}

// ParseFBits parses f:<hex16>.
func ParseFBits(s string) (float64, bool) {
	if !strings.HasPrefix(s, "f:") {
		return 0, false
	}
	u, err := strconv.ParseUint(s[2:], 16, 64)
	if err != nil {
		return 0, false
	}
	return math.Float64frombits(u), true
}

// SortedList prints strings as a sorted [a,b,c].
func SortedList(xs []string) string {
	ys := append([]string(nil), xs...)
	sort.Strings(ys)
	return "[" + strings.Join(ys, ",") + "]"
}

// List prints strings as [a,b,c] in the given order.
func List(xs []string) string { return "[" + strings.Join(xs, ",") + "]" }

func U(s string) uint64 {
	v, err := strconv.ParseUint(s, 10, 64)
	if err != nil {
		panic("bad number " + s)
	}
	return v
}

func I(s string) int64 {
	v, err := strconv.ParseInt(s, 10, 64)
	if err != nil {
		panic("bad number " + s)
	}
	return v
}

// Interp is one property's interpreter: Reset starts a fresh case, Step executes one op and
// returns the observation text ("" for none).
type Interp interface {
	Reset()
	Step(toks []string, op string) string
}

// Run drives an interpreter over the op lines on r, writing "op" or "op => result" lines to w.
// A panic escaping Step is reported as the result "PANIC <msg>" (never kills the run).
func Run(it Interp, r io.Reader, w io.Writer) {
	in := bufio.NewScanner(r)
	in.Buffer(make([]byte, 1<<20), 1<<26)
	out := bufio.NewWriterSize(w, 1<<20)
	defer out.Flush()
	it.Reset()
	for in.Scan() {
		line := in.Text()
		op := line
		if i := strings.Index(line, " => "); i >= 0 {
			op = line[:i]
		}
		op = strings.TrimSpace(op)
		if op == "" || strings.HasPrefix(op, "#") {
			fmt.Fprintln(out, op)
			continue
		}
		toks := strings.Fields(op)
		if toks[0] == "case" {
			fmt.Fprintln(out, op)
			it.Reset()
			continue
		}
		res := safeStep(it, toks, op)
		if res == "" {
			fmt.Fprintln(out, op)
		} else {
			fmt.Fprintln(out, op+" => "+res)
		}
	}
	// an interpreter that holds external resources (temp directories, goroutines) may release them at EOF
	if c, ok := it.(interface{ Close() }); ok {
		c.Close()
	}
}

func safeStep(it Interp, toks []string, op string) (res string) {
	defer func() {
		if r := recover(); r != nil {
			res = fmt.Sprintf("PANIC %v", r)
			res = strings.ReplaceAll(res, "\n", " ")
		}
	}()
	return it.Step(toks, op)
}

// Main is the common entry point: reads ops from stdin (or the file given as first argument).
func Main(it Interp, args []string) {
	var r io.Reader = os.Stdin
	if len(args) > 0 {
		f, err := os.Open(args[0])
		if err != nil {
			fmt.Fprintln(os.Stderr, err)
			os.Exit(2)
		}
		defer f.Close()
		r = f
	}
	Run(it, r, os.Stdout)
}

type nullLogger struct{}

func (nullLogger) Debug(string, ...interface{})        {}
func (nullLogger) DebugEnabled() bool                  { return false }
func (nullLogger) Info(string, ...interface{})         {}
func (nullLogger) InfoEnabled() bool                   { return false }
func (nullLogger) Warn(string, ...interface{})         {}
func (nullLogger) WarnEnabled() bool                   { return false }
func (nullLogger) Error(error, string, ...interface{}) {}
func (nullLogger) ErrorEnabled() bool                  { return false }

// Silence replaces sentinel's global logger by one that discards everything, so that stdout carries
// only op lines.
func Silence() { _ = logging.ResetGlobalLogger(nullLogger{}) }

// NewClock installs and returns a virtual clock starting at startMs (pick a value after the real wall
// clock when the package-level inbound node is involved, e.g. 1_900_000_000_000).
func NewClock(startMs uint64) *Clock {
	c := &Clock{Ns: startMs * 1e6}
	Install(c)
	return c
}
