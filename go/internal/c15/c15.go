// Package c15 interprets the C15 op language against the real packages (stub).
package c15

import "verifharness/internal/vh"

// New returns the interpreter for C15.
func New() vh.Interp { return nil }
