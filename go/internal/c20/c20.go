// Package c20 interprets the C20 op language against the real packages (stub).
package c20

import "verifharness/internal/vh"

// New returns the interpreter for C20.
func New() vh.Interp { return nil }
