// Package c20 interprets the C20 op language against the real core/outlier package: a slot chain with
// the outlier slots, api.Entry / api.TraceCallee / api.TraceError / Exit in virtual time, and the
// recycler / retryer driven through their own methods (their timers use real time and never fire
// during a case).
package c20

import (
	"errors"
	"fmt"
	"os"
	"reflect"
	"runtime"
	"sort"
	"strings"
	"time"
	_ "unsafe" // go:linkname

	"github.com/alibaba/sentinel-golang/api"
	"github.com/alibaba/sentinel-golang/core/base"
	"github.com/alibaba/sentinel-golang/core/circuitbreaker"
	"github.com/alibaba/sentinel-golang/core/outlier"
	"github.com/alibaba/sentinel-golang/core/stat"
	"verifharness/internal/vh"
)

// Read-only access to the package's unexported per-node state and the timer callbacks (the callbacks
// are what time.AfterFunc would invoke; calling them directly replaces waiting in real time).

//go:linkname getNodeBreakersOfResource github.com/alibaba/sentinel-golang/core/outlier.getNodeBreakersOfResource
func getNodeBreakersOfResource(resource string) map[string]circuitbreaker.CircuitBreaker

//go:linkname getRecyclerOfResource github.com/alibaba/sentinel-golang/core/outlier.getRecyclerOfResource
func getRecyclerOfResource(resource string) *outlier.Recycler

//go:linkname getRetryerOfResource github.com/alibaba/sentinel-golang/core/outlier.getRetryerOfResource
func getRetryerOfResource(resource string) *outlier.Retryer

//go:linkname recyclerRecycle github.com/alibaba/sentinel-golang/core/outlier.(*Recycler).recycle
func recyclerRecycle(r *outlier.Recycler, node string)

//go:linkname retryerConnectNode github.com/alibaba/sentinel-golang/core/outlier.(*Retryer).connectNode
func retryerConnectNode(r *outlier.Retryer, node string)

//go:linkname retryerOnConnected github.com/alibaba/sentinel-golang/core/outlier.(*Retryer).onConnected
func retryerOnConnected(r *outlier.Retryer, node string, rt uint64)

const startMs = 1_900_000_000_000

type loaded struct {
	cbPart string
	rule   *outlier.Rule
}

type Interp struct {
	clk     *vh.Clock
	chain   *base.SlotChain
	caseNo  int
	rules   map[string]*loaded // by op-level resource name
	order   []string
	cleared map[string]bool      // resources whose rule was cleared (address-less probes are still allowed)
	script  map[string]bool      // scripted RecoveryCheckFunc results, by address
	recov   map[string][2]uint32 // per op-level resource: MaxRecoveryAttempts, RecoveryIntervalMs for the rules loaded from now on
	raw     bool
}

var curCase int

func New() vh.Interp {
	runtime.GOMAXPROCS(1)
	vh.Silence()
	sc := base.NewSlotChain()
	sc.AddStatPrepareSlot(stat.DefaultResourceNodePrepareSlot)
	sc.AddRuleCheckSlot(outlier.DefaultSlot)
	sc.AddStatSlot(stat.DefaultSlot)
	sc.AddStatSlot(outlier.DefaultMetricStatSlot)
	return &Interp{clk: vh.NewClock(startMs), chain: sc, raw: os.Getenv("C20_RAW") == "1"}
}

func (it *Interp) Reset() {
	it.caseNo++
	curCase = it.caseNo
	_, _ = outlier.LoadRules(nil)
	stat.ResetResourceNodeMap()
	it.rules = map[string]*loaded{}
	it.cleared = map[string]bool{}
	it.script = map[string]bool{}
	it.recov = map[string][2]uint32{}
	it.order = nil
	it.clk.SetMs(startMs)
	settle()
}

// real resource name: unique per case (the package caches one recycler / retryer per resource name forever)
func (it *Interp) rn(name string) string { return fmt.Sprintf("%s#%d", name, it.caseNo) }

// let the two background consumers (recyclerCh, retryerCh) run until they block again
func settle() {
	for i := 0; i < 4; i++ {
		runtime.Gosched()
	}
}

// Node addresses travel percent-encoded in the op language and in every printed list (anything outside
// [A-Za-z0-9._-] is %XX, the empty address is the token %E), so that spaces, colons, commas and brackets
// (mixed-case host names, padded strings, IPv6 literals) survive the line protocol. The encoding is injective:
// two addresses are the same node iff their tokens are equal.
func enc(a string) string {
	if a == "" {
		return "%E"
	}
	var b strings.Builder
	for i := 0; i < len(a); i++ {
		c := a[i]
		if c >= 'a' && c <= 'z' || c >= 'A' && c <= 'Z' || c >= '0' && c <= '9' || c == '.' || c == '_' || c == '-' {
			b.WriteByte(c)
		} else {
			fmt.Fprintf(&b, "%%%02X", c)
		}
	}
	return b.String()
}

func dec(t string) string {
	if t == "%E" {
		return ""
	}
	var b strings.Builder
	for i := 0; i < len(t); i++ {
		if t[i] == '%' && i+2 < len(t) {
			var v int
			if _, err := fmt.Sscanf(t[i+1:i+3], "%02X", &v); err == nil {
				b.WriteByte(byte(v))
				i += 2
				continue
			}
		}
		b.WriteByte(t[i])
	}
	return b.String()
}

func encAll(xs []string) []string {
	out := make([]string, len(xs))
	for i, x := range xs {
		out[i] = enc(x)
	}
	return out
}

func stName(s circuitbreaker.State) string {
	switch s {
	case circuitbreaker.Closed:
		return "C"
	case circuitbreaker.HalfOpen:
		return "H"
	case circuitbreaker.Open:
		return "O"
	}
	return "?"
}

func states(res string) (map[string]circuitbreaker.State, string) {
	m := map[string]circuitbreaker.State{}
	var xs []string
	for a, b := range getNodeBreakersOfResource(res) {
		m[a] = b.CurrentState()
		xs = append(xs, enc(a)+":"+stName(m[a]))
	}
	return m, vh.SortedList(xs)
}

// keys of the recycler's status map (read by reflection: the field is unexported)
func scheduled(res string) map[string]bool {
	r := getRecyclerOfResource(res)
	st := reflect.ValueOf(r).Elem().FieldByName("status")
	out := map[string]bool{}
	for _, k := range st.MapKeys() {
		out[k.String()] = true
	}
	return out
}

func (it *Interp) load(t []string, perRes bool) string {
	// load|loadres <res> <strategy> <retryMs> <minReq> <statIntervalMs> <bucketCount> <maxRt> <thr f:> <probeNum> <maxEj f:> <active>
	name := t[1]
	thr, ok1 := vh.ParseFBits(t[8])
	pe, ok2 := vh.ParseFBits(t[10])
	if !ok1 || !ok2 {
		panic("bad float")
	}
	res := it.rn(name)
	cbPart := strings.Join(t[2:10], " ")
	gen := it.caseNo
	rc, ok := it.recov[name]
	if !ok {
		rc = [2]uint32{3, 4000}
	}
	r := &outlier.Rule{
		Rule: &circuitbreaker.Rule{
			Resource:                     res,
			Strategy:                     circuitbreaker.Strategy(vh.U(t[2])),
			RetryTimeoutMs:               uint32(vh.U(t[3])),
			MinRequestAmount:             vh.U(t[4]),
			StatIntervalMs:               uint32(vh.U(t[5])),
			StatSlidingWindowBucketCount: uint32(vh.U(t[6])),
			MaxAllowedRtMs:               vh.U(t[7]),
			Threshold:                    thr,
			ProbeNum:                     vh.U(t[9]),
		},
		EnableActiveRecovery: t[11] != "0",
		MaxEjectionPercent:   pe,
		RecoveryIntervalMs:   rc[1], // real time (default 4000: never fires within a case)
		RecycleIntervalS:     0,     // zero value = default 10 min real time
		MaxRecoveryAttempts:  rc[0],
		// a retry timer that fires after its case is over reports "recovered" and so ends its chain
		// within the case the result is scripted by the `check` op (default: still down)
		RecoveryCheckFunc: func(addr string) bool { return curCase != gen || it.script[addr] },
	}
	if perRes {
		// outlier.LoadRuleOfResource: the per-resource path (an invalid rule is reported and the old one stays in force)
		changed, err := outlier.LoadRuleOfResource(res, r)
		if err != nil {
			return "err"
		}
		if !changed {
			return "same"
		}
		if _, ok := it.rules[name]; !ok {
			it.order = append(it.order, name)
		}
		it.rules[name] = &loaded{cbPart: cbPart, rule: r}
		return "ok"
	}
	if outlier.IsValidRule(r) != nil || circuitbreaker.IsValidRule(r.Rule) != nil {
		// bulk load of a rule set whose rule for this resource is invalid: the rule is ignored, the resource is left without one
		var all []*outlier.Rule
		for _, n := range it.order {
			if n != name {
				all = append(all, it.rules[n].rule)
			}
		}
		all = append(all, r)
		if _, err := outlier.LoadRules(all); err != nil {
			return "err"
		}
		it.forget(name)
		return "invalid"
	}
	if _, ok := it.rules[name]; !ok {
		it.order = append(it.order, name)
	}
	it.rules[name] = &loaded{cbPart: cbPart, rule: r}
	var all []*outlier.Rule
	for _, n := range it.order {
		all = append(all, it.rules[n].rule)
	}
	if _, err := outlier.LoadRules(all); err != nil {
		return "err"
	}
	return "ok"
}

func (it *Interp) forget(name string) {
	if _, ok := it.rules[name]; ok {
		delete(it.rules, name)
		var o []string
		for _, n := range it.order {
			if n != name {
				o = append(o, n)
			}
		}
		it.order = o
	}
	it.cleared[name] = true
}

// clearres: outlier.ClearRuleOfResource
func (it *Interp) clear(name string) string {
	if err := outlier.ClearRuleOfResource(it.rn(name)); err != nil {
		return "err"
	}
	it.forget(name)
	return "ok"
}

// unload: bulk outlier.LoadRules of the case's rules without this resource
func (it *Interp) unload(name string) string {
	it.forget(name)
	var all []*outlier.Rule
	for _, n := range it.order {
		all = append(all, it.rules[n].rule)
	}
	if _, err := outlier.LoadRules(all); err != nil {
		return "err"
	}
	return "ok"
}

// one request: Entry (the outlier slot's check), optional callee + error, clock += rt, Exit
func (it *Interp) request(name, addr string, fail bool, rt uint64, probe bool) string {
	if _, ok := it.rules[name]; !ok && !(it.cleared[name] && probe) {
		panic("no rule for " + name)
	}
	res := it.rn(name)
	pre, _ := states(res)
	e, berr := api.Entry(res, api.WithSlotChain(it.chain), api.WithTrafficType(base.Outbound), api.WithResourceType(base.ResTypeRPC))
	if berr != nil {
		return "blocked"
	}
	settle()
	ctx := e.Context()
	filter := append([]string(nil), ctx.FilterNodes()...)
	halfs := append([]string(nil), ctx.HalfOpenNodes()...)
	post, postS := states(res)
	// ground truth for "currently rejects traffic": ask every real breaker again at the same instant
	// (TryPass is idempotent here: a timed-out Open breaker already moved to HalfOpen in the check);
	// a breaker that made that move during the check was let through by it.
	var rej []string
	for a, b := range getNodeBreakersOfResource(res) {
		if !b.TryPass(ctx) && !(pre[a] == circuitbreaker.Open && post[a] == circuitbreaker.HalfOpen) {
			rej = append(rej, a)
		}
	}
	rejRaw := rej
	rej = encAll(rej)
	filter = encAll(filter)
	halfs = encAll(halfs)
	sort.Strings(rej)
	sort.Strings(filter)
	// the recycler has been handed every outlier by now
	if len(rej) > 0 {
		for i := 0; i < 1000; i++ {
			sch := scheduled(res)
			all := true
			for _, a := range rejRaw {
				all = all && sch[a]
			}
			if all {
				break
			}
			runtime.Gosched()
			if i > 100 {
				time.Sleep(time.Millisecond)
			}
		}
	}
	fs := vh.List(filter)
	if !it.raw && len(filter) < len(rej) && subset(filter, rej) {
		fs = "*" // which of the rejecting nodes were taken depends on Go's map iteration order
	}
	if !probe {
		api.TraceCallee(e, addr) // a no-op for the empty address
		if fail {
			api.TraceError(e, errors.New("fail"))
		}
	}
	it.clk.SetMs(it.clk.CurrentTimeMillis() + rt)
	e.Exit()
	settle()
	_, endS := states(res)
	return fmt.Sprintf("n=%d nf=%d rej=%s filter=%s halfopen=%s post=%s end=%s",
		len(pre), len(filter), vh.List(rej), fs, vh.SortedList(halfs), postS, endS)
}

func subset(xs, ys []string) bool {
	m := map[string]bool{}
	for _, y := range ys {
		m[y] = true
	}
	for _, x := range xs {
		if !m[x] {
			return false
		}
	}
	return true
}

func (it *Interp) Step(t []string, op string) string {
	switch t[0] {
	case "load":
		return it.load(t, false)
	case "loadres":
		return it.load(t, true)
	case "clearres":
		return it.clear(t[1])
	case "unload":
		return it.unload(t[1])
	case "recovery":
		// recovery <res> <MaxRecoveryAttempts> <RecoveryIntervalMs>: fields of the rules loaded for <res> from now on
		it.recov[t[1]] = [2]uint32{uint32(vh.U(t[2])), uint32(vh.U(t[3]))}
		return ""
	case "rules":
		var xs []string
		for _, r := range outlier.GetRules() {
			name := r.Resource
			if i := strings.LastIndex(name, "#"); i >= 0 {
				name = name[:i]
			}
			a := "0"
			if r.EnableActiveRecovery {
				a = "1"
			}
			xs = append(xs, name+":"+vh.FBits(r.MaxEjectionPercent)+":"+a)
		}
		return vh.SortedList(xs)
	case "check":
		// the retryer's timer callback with a scripted RecoveryCheckFunc result: connectNode -> onConnected / onDisconnected
		res := it.rn(t[1])
		a := dec(t[2])
		it.script[a] = t[3] == "ok"
		retryerConnectNode(getRetryerOfResource(res), a)
		delete(it.script, a)
		_, s := states(res)
		return "nodes=" + s
	case "clock":
		ms := vh.U(t[1])
		if ms < it.clk.CurrentTimeMillis() {
			panic("clock going backwards")
		}
		it.clk.SetMs(ms)
		return ""
	case "call":
		return it.request(t[1], dec(t[2]), t[3] == "err", vh.U(t[4]), false)
	case "probe":
		return it.request(t[1], "", false, 0, true)
	case "recycle":
		res := it.rn(t[1])
		recyclerRecycle(getRecyclerOfResource(res), dec(t[2]))
		m, s := states(res)
		return fmt.Sprintf("n=%d nodes=%s", len(m), s)
	case "retry":
		res := it.rn(t[1])
		retryerOnConnected(getRetryerOfResource(res), dec(t[2]), vh.U(t[3]))
		_, s := states(res)
		return "nodes=" + s
	case "cap":
		// the expression of checkAllNodes evaluated on its own (a test of the float arithmetic, not of the slot)
		n := int(vh.U(t[1]))
		p, ok := vh.ParseFBits(t[2])
		if !ok {
			panic("bad float")
		}
		return fmt.Sprint(int(float64(n) * p))
	case "capdec":
		n := int(vh.U(t[1]))
		p := float64(vh.U(t[2])) / 100
		return fmt.Sprintf("cap=%d p=%s", int(float64(n)*p), vh.FBits(p))
	}
	panic("unknown op " + t[0])
}
