// empty: allows the body-less go:linkname declarations in c20.go
