// Package cagg interprets the metric-aggregator op language against the real packages: real stat nodes
// (stat.GetOrCreateResourceNode, the inbound node), the real doAggregate / writeTaskLoop of core/log/metric (reached
// through go:linkname, see link.go), a real DefaultMetricLogWriter on a fresh temporary directory per case and real
// searchers on it.  The background goroutines of metric.InitTask are never started: `aggregate` calls doAggregate
// once at the virtual clock and lets the (real) write loop drain the map in lock step.
package cagg

import (
	"fmt"
	"io"
	"os"
	"path/filepath"
	"runtime"
	"sort"
	"strconv"
	"strings"
	"time"

	"github.com/alibaba/sentinel-golang/core/base"
	"github.com/alibaba/sentinel-golang/core/config"
	"github.com/alibaba/sentinel-golang/core/log/metric"
	"github.com/alibaba/sentinel-golang/core/stat"
	"verifharness/internal/vh"
)

const app = "app"

type batch struct {
	ts    uint64
	items []base.MetricItem
}

// proxy records every Write the write loop performs and forwards it to the real writer.
type proxy struct {
	inner metric.MetricLogWriter
	log   []batch
	done  chan struct{}
}

func (p *proxy) Write(ts uint64, items []*base.MetricItem) error {
	if ts == 0 && len(items) == 0 {
		// the harness's end-of-drain marker (the aggregator never writes second 0): everything queued before it
		// has been written, because the channel is FIFO and the loop is its only consumer
		p.done <- struct{}{}
		return nil
	}
	var err error
	if p.inner != nil {
		err = p.inner.Write(ts, items)
	}
	b := batch{ts: ts}
	for _, it := range items {
		b.items = append(b.items, *it)
	}
	p.log = append(p.log, b)
	return err
}

type Interp struct {
	clk       *vh.Clock
	dir       string
	px        *proxy
	inner     metric.MetricLogWriter
	loop      bool
	searchers map[string]metric.MetricSearcher
}

func New() vh.Interp {
	time.Local = time.UTC
	runtime.GOMAXPROCS(1)
	vh.Silence()
	c := vh.NewClock(1_900_000_000_000)
	sweep()
	return &Interp{clk: c, searchers: map[string]metric.MetricSearcher{}}
}

// sweep removes directories left behind by harness processes that are no longer alive.
func sweep() {
	ds, _ := filepath.Glob(filepath.Join(os.TempDir(), "verif-agg-*"))
	for _, d := range ds {
		parts := strings.Split(filepath.Base(d), "-")
		if len(parts) < 4 {
			continue
		}
		pid, err := strconv.Atoi(parts[2])
		if err != nil || pid == os.Getpid() {
			continue
		}
		if _, err := os.Stat(fmt.Sprintf("/proc/%d", pid)); err != nil {
			_ = os.RemoveAll(d)
		}
	}
}

func (it *Interp) drop() {
	if it.inner != nil {
		if c, ok := it.inner.(io.Closer); ok {
			_ = c.Close()
		}
	}
	it.inner, it.px = nil, nil
	metricWriter = nil
	if it.dir != "" {
		_ = os.RemoveAll(it.dir)
		it.dir = ""
	}
	it.searchers = map[string]metric.MetricSearcher{}
	// anything a previous case left in the channel
	for {
		select {
		case <-writeChan:
			continue
		default:
		}
		break
	}
	lastFetchTime = -1
	stat.ResetResourceNodeMap()
}

func (it *Interp) Reset() { it.drop() }
func (it *Interp) Close() { it.drop() }

func ev(s string) base.MetricEvent {
	switch s {
	case "pass":
		return base.MetricEventPass
	case "block":
		return base.MetricEventBlock
	case "complete":
		return base.MetricEventComplete
	case "error":
		return base.MetricEventError
	case "rt":
		return base.MetricEventRt
	}
	panic("bad event " + s)
}

func showItem(m *base.MetricItem) string {
	return fmt.Sprintf("%d:%s:%d:%d:%d:%d:%d:%d:%d:%d", m.Timestamp, m.Resource, m.PassQps, m.BlockQps,
		m.CompleteQps, m.ErrorQps, m.AvgRt, m.OccupiedPassQps, m.Concurrency, m.Classification)
}

// canon: by time stamp, then resource name (the order of the nodes inside one second is Go map iteration order).
func canon(items []*base.MetricItem) []*base.MetricItem {
	xs := append([]*base.MetricItem(nil), items...)
	sort.SliceStable(xs, func(i, j int) bool {
		if xs[i].Timestamp != xs[j].Timestamp {
			return xs[i].Timestamp < xs[j].Timestamp
		}
		return xs[i].Resource < xs[j].Resource
	})
	return xs
}

func showItems(items []*base.MetricItem, err error) string {
	if err != nil {
		return "err"
	}
	xs := []string{}
	for _, m := range canon(items) {
		xs = append(xs, showItem(m))
	}
	return vh.List(xs)
}

func (it *Interp) node(res string, cls int64) *stat.ResourceNode {
	if res == "IN" {
		return stat.InboundNode()
	}
	return stat.GetOrCreateResourceNode(res, base.ResourceType(cls))
}

func (it *Interp) searcher(id string) metric.MetricSearcher {
	s, ok := it.searchers[id]
	if !ok {
		var err error
		s, err = metric.NewDefaultMetricSearcher(it.dir, metric.FormMetricFileName(app, false))
		if err != nil {
			panic(err)
		}
		it.searchers[id] = s
	}
	return s
}

func (it *Interp) Step(t []string, op string) string {
	switch t[0] {
	case "clock":
		it.clk.SetMs(vh.U(t[1]))
		return ""
	case "agg.new":
		maxSize, maxFiles, n, iv := vh.U(t[1]), vh.U(t[2]), vh.U(t[3]), vh.U(t[4])
		if maxSize == 0 || maxFiles == 0 || n == 0 || iv == 0 || iv%n != 0 || it.clk.CurrentTimeMillis() == 0 {
			return "bad-op"
		}
		it.drop()
		dir, err := os.MkdirTemp("", fmt.Sprintf("verif-agg-%d-", os.Getpid()))
		if err != nil {
			panic(err)
		}
		it.dir = dir
		cfg := config.NewDefaultConfig()
		cfg.Sentinel.Log.Dir = dir
		cfg.Sentinel.App.Name = app
		cfg.Sentinel.Stat.GlobalStatisticSampleCountTotal = uint32(n)
		cfg.Sentinel.Stat.GlobalStatisticIntervalMsTotal = uint32(iv)
		if base.CheckValidityForReuseStatistic(cfg.Sentinel.Stat.MetricStatisticSampleCount, cfg.Sentinel.Stat.MetricStatisticIntervalMs,
			uint32(n), uint32(iv)) != nil {
			// the node's read-only default metric must tile the array; per-second items do not depend on its geometry
			cfg.Sentinel.Stat.MetricStatisticSampleCount = uint32(n)
			cfg.Sentinel.Stat.MetricStatisticIntervalMs = uint32(iv)
		}
		config.ResetGlobalConfig(cfg)
		// the package-level inbound node was created at process start (real clock, default geometry): give it the
		// state a process started now would have
		*stat.InboundNode() = *stat.NewResourceNode(base.TotalInBoundResourceName, base.ResTypeCommon)
		w, err := metric.NewDefaultMetricLogWriterOfApp(maxSize, uint32(maxFiles), app)
		if err != nil {
			return "err"
		}
		it.inner = w
		it.px = &proxy{inner: w, done: make(chan struct{}, 1)}
		metricWriter = it.px
		if !it.loop {
			it.loop = true
			go writeTaskLoop() // the real loop; it only ever runs while `aggregate` waits for it
		}
		return "ok"
	case "record":
		if it.px == nil {
			return "bad-op"
		}
		it.node(t[1], vh.I(t[2])).AddCount(ev(t[3]), int64(vh.U(t[4])))
		return ""
	case "conc":
		if it.px == nil {
			return "bad-op"
		}
		it.node(t[1], vh.I(t[2])).UpdateConcurrency(int32(vh.I(t[3])))
		return ""
	case "aggregate":
		if it.px == nil {
			return "bad-op"
		}
		it.px.log = nil
		doAggregate()
		// lock step with the real write loop: queue an end-of-drain marker behind whatever doAggregate queued and
		// wait until the loop hands it to the proxy
		writeChan <- map[uint64][]*base.MetricItem{0: nil}
		<-it.px.done
		xs := []string{}
		for _, b := range it.px.log {
			ps := make([]*base.MetricItem, 0, len(b.items))
			for i := range b.items {
				ps = append(ps, &b.items[i])
			}
			ys := []string{}
			for _, m := range canon(ps) {
				ys = append(ys, showItem(m))
			}
			xs = append(xs, fmt.Sprintf("%d=%s", b.ts, strings.Join(ys, "+")))
		}
		return vh.List(xs)
	case "log.files":
		if it.px == nil {
			return "bad-op"
		}
		es, err := os.ReadDir(it.dir)
		if err != nil {
			panic(err)
		}
		xs := []string{}
		for _, e := range es {
			st, err := e.Info()
			if err != nil {
				panic(err)
			}
			xs = append(xs, fmt.Sprintf("%s:%d", e.Name(), st.Size()))
		}
		return vh.List(xs)
	case "log.find":
		if it.px == nil {
			return "bad-op"
		}
		res := t[4]
		if res == "*" {
			res = ""
		} else if res == "IN" {
			res = base.TotalInBoundResourceName
		}
		return showItems(it.searcher(t[1]).FindByTimeAndResource(vh.U(t[2]), vh.U(t[3]), res))
	case "log.from":
		if it.px == nil {
			return "bad-op"
		}
		return showItems(it.searcher(t[1]).FindFromTimeWithMaxLines(vh.U(t[2]), uint32(vh.U(t[3]))))
	}
	return "bad-op"
}
