// Package cagg interprets the metric-aggregator op language against the real packages (stub).
package cagg

import "verifharness/internal/vh"

// New returns the interpreter for the aggregator bridge check.
func New() vh.Interp { return nil }
