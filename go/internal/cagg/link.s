// an assembly file (even an empty one) lets the compiler accept the body-less go:linkname declarations of link.go
