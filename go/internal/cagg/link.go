package cagg

import (
	_ "unsafe" // go:linkname

	"github.com/alibaba/sentinel-golang/core/base"
	"github.com/alibaba/sentinel-golang/core/log/metric"
)

// The aggregator keeps its state and its two functions package-private and starts them only from
// InitTask (a ticker goroutine and the write loop).  The harness links to the very same symbols: it calls the real
// doAggregate at the virtual clock, runs the real writeTaskLoop on the real writeChan, and plugs a recording proxy
// around a real DefaultMetricLogWriter into metricWriter.  Nothing of the aggregator is re-implemented here.

//go:linkname doAggregate github.com/alibaba/sentinel-golang/core/log/metric.doAggregate
func doAggregate()

//go:linkname writeTaskLoop github.com/alibaba/sentinel-golang/core/log/metric.writeTaskLoop
func writeTaskLoop()

//go:linkname lastFetchTime github.com/alibaba/sentinel-golang/core/log/metric.lastFetchTime
var lastFetchTime int64

//go:linkname writeChan github.com/alibaba/sentinel-golang/core/log/metric.writeChan
var writeChan chan map[uint64][]*base.MetricItem

//go:linkname metricWriter github.com/alibaba/sentinel-golang/core/log/metric.metricWriter
var metricWriter metric.MetricLogWriter
