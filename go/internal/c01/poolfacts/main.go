// poolfacts: regenerates lean/Sentinel/Gen/PoolFacts.lean from the source tree (DESIGN.md 6.C01, layer ii).
//
// For every field of the pooled objects (base.EntryContext, base.SentinelInput, api.EntryOptions) it records how the
// object's Reset treats the field; for every assignment api.entry / GetPooledContext makes into the pooled context it
// records whether it is unconditional and whether the right-hand side copies or aliases memory of another pooled object;
// and it records the guards of SentinelEntry.SetError / SetPair / Exit.  The Lean theorem `pool_discipline` is re-proved
// over this table on every run.  Syntax only (go/ast): anything the walker does not recognise becomes an `unknown` row,
// which the theorem rejects (fail closed).
package main

import (
	"bytes"
	"flag"
	"fmt"
	"go/ast"
	"go/parser"
	"go/printer"
	"go/token"
	"os"
	"path/filepath"
	"sort"
	"strings"
)

var fset = token.NewFileSet()

func src(n ast.Node) string {
	var b bytes.Buffer
	_ = printer.Fprint(&b, fset, n)
	return strings.Join(strings.Fields(b.String()), " ")
}

func parse(repo, rel string) *ast.File {
	f, err := parser.ParseFile(fset, filepath.Join(repo, rel), nil, 0)
	if err != nil {
		fmt.Fprintln(os.Stderr, err)
		os.Exit(1)
	}
	return f
}

type fieldRow struct{ owner, name, kind, reset string }
type assignRow struct {
	path   string
	always bool
	rhs    string // value | copy | alias:<Owner>.<field> | unknown:<src>
}

func kindOf(t ast.Expr) string {
	switch x := t.(type) {
	case *ast.ArrayType:
		if x.Len == nil {
			return "slice"
		}
	case *ast.MapType:
		return "map"
	case *ast.StarExpr, *ast.InterfaceType, *ast.FuncType:
		return "ref"
	case *ast.Ident:
		switch x.Name {
		case "uint32", "int32", "uint64", "int64", "int", "bool", "string", "float64":
			return "scalar"
		case "error":
			return "ref"
		}
		return "ref" // named types of unknown shape (StatNode is an interface): treated as references
	case *ast.SelectorExpr:
		// base.ResourceType / base.TrafficType are integer enums
		if x.Sel.Name == "ResourceType" || x.Sel.Name == "TrafficType" {
			return "scalar"
		}
		return "ref"
	}
	return "ref"
}

func structFields(f *ast.File, name string) []fieldRow {
	var out []fieldRow
	ast.Inspect(f, func(n ast.Node) bool {
		ts, ok := n.(*ast.TypeSpec)
		if !ok || ts.Name.Name != name {
			return true
		}
		st, ok := ts.Type.(*ast.StructType)
		if !ok {
			return true
		}
		for _, fl := range st.Fields.List {
			for _, id := range fl.Names {
				out = append(out, fieldRow{owner: name, name: id.Name, kind: kindOf(fl.Type), reset: "none"})
			}
		}
		return false
	})
	return out
}

func method(f *ast.File, recvType, name string) (*ast.FuncDecl, string) {
	for _, d := range f.Decls {
		fd, ok := d.(*ast.FuncDecl)
		if !ok || fd.Name.Name != name || fd.Recv == nil || len(fd.Recv.List) != 1 {
			continue
		}
		t := fd.Recv.List[0].Type
		if s, ok := t.(*ast.StarExpr); ok {
			t = s.X
		}
		if id, ok := t.(*ast.Ident); ok && id.Name == recvType && len(fd.Recv.List[0].Names) == 1 {
			return fd, fd.Recv.List[0].Names[0].Name
		}
	}
	return nil, ""
}

func function(f *ast.File, name string) *ast.FuncDecl {
	for _, d := range f.Decls {
		if fd, ok := d.(*ast.FuncDecl); ok && fd.Recv == nil && fd.Name.Name == name {
			return fd
		}
	}
	return nil
}

// classify the right-hand side of `recv.f = rhs` inside a Reset
func resetRhs(recv, field string, rhs ast.Expr) string {
	switch x := rhs.(type) {
	case *ast.BasicLit:
		return "zero"
	case *ast.Ident:
		return "zero" // nil, true, false, a constant
	case *ast.SelectorExpr:
		return "zero" // base.ResTypeCommon, base.Outbound
	case *ast.SliceExpr:
		if src(x.X) == recv+"."+field && x.Low == nil && x.High != nil && src(x.High) == "0" {
			return "trunc"
		}
	case *ast.CallExpr:
		fn := src(x.Fun)
		if fn == "make" || strings.HasPrefix(fn, "New") {
			return "fresh"
		}
	}
	return "unknown"
}

// weaker of two treatments (used when both branches of an if/else treat the field)
func weaker(a, b string) string {
	rank := map[string]int{"unknown": 0, "none": 0, "trunc": 1, "freshIfNonEmpty": 2, "call": 3, "fresh": 4, "zero": 5}
	if rank[a] <= rank[b] {
		return a
	}
	return b
}

func resetTreat(fd *ast.FuncDecl, recv string, rows []fieldRow) {
	idx := map[string]int{}
	for i, r := range rows {
		idx[r.name] = i
	}
	var walk func(stmts []ast.Stmt) map[string]string
	walk = func(stmts []ast.Stmt) map[string]string {
		got := map[string]string{}
		for _, s := range stmts {
			switch x := s.(type) {
			case *ast.AssignStmt:
				if len(x.Lhs) == 1 && len(x.Rhs) == 1 {
					if sel, ok := x.Lhs[0].(*ast.SelectorExpr); ok && src(sel.X) == recv {
						got[sel.Sel.Name] = resetRhs(recv, sel.Sel.Name, x.Rhs[0])
					}
				}
			case *ast.ExprStmt:
				if c, ok := x.X.(*ast.CallExpr); ok {
					if m, ok := c.Fun.(*ast.SelectorExpr); ok {
						if sel, ok := m.X.(*ast.SelectorExpr); ok && src(sel.X) == recv {
							got[sel.Sel.Name] = "call" // ctx.Input.reset(), ctx.RuleCheckResult.ResetToPass()
						}
					}
				}
			case *ast.IfStmt:
				a := walk(x.Body.List)
				b := map[string]string{}
				if blk, ok := x.Else.(*ast.BlockStmt); ok {
					b = walk(blk.List)
				}
				for f, ta := range a {
					if tb, both := b[f]; both {
						got[f] = weaker(ta, tb)
					} else if ta == "fresh" && src(x.Cond) == "len("+recv+"."+f+") != 0" {
						got[f] = "freshIfNonEmpty" // an empty map stays, a used one is replaced
					} else {
						got[f] = "unknown"
					}
				}
				for f := range b {
					if _, both := a[f]; !both {
						got[f] = "unknown"
					}
				}
			}
		}
		return got
	}
	for f, t := range walk(fd.Body.List) {
		if i, ok := idx[f]; ok {
			rows[i].reset = t
		}
	}
}

func main() {
	repo := flag.String("repo", "/repo", "source tree")
	out := flag.String("lean", "", "output .lean file")
	flag.Parse()

	ctxF := parse(*repo, "core/base/context.go")
	apiF := parse(*repo, "api/api.go")
	entF := parse(*repo, "core/base/entry.go")
	scF := parse(*repo, "core/base/slot_chain.go")

	var rows []fieldRow
	kinds := map[string]string{}
	for _, spec := range []struct {
		f           *ast.File
		typ, method string
	}{{ctxF, "EntryContext", "Reset"}, {ctxF, "SentinelInput", "reset"}, {apiF, "EntryOptions", "Reset"}} {
		rs := structFields(spec.f, spec.typ)
		fd, recv := method(spec.f, spec.typ, spec.method)
		if fd == nil || len(rs) == 0 {
			rs = append(rs, fieldRow{owner: spec.typ, name: "?", kind: "ref", reset: "unknown"})
		} else {
			resetTreat(fd, recv, rs)
		}
		for _, r := range rs {
			kinds[r.owner+"."+r.name] = r.kind
		}
		rows = append(rows, rs...)
	}

	// assignments into the pooled context: GetPooledContext and api.entry
	var assigns []assignRow
	if fd, recv := method(scF, "SlotChain", "GetPooledContext"); fd != nil {
		_ = recv
		ast.Inspect(fd.Body, func(n ast.Node) bool {
			if a, ok := n.(*ast.AssignStmt); ok && len(a.Lhs) == 1 {
				if sel, ok := a.Lhs[0].(*ast.SelectorExpr); ok && src(sel.X) == "ctx" {
					assigns = append(assigns, assignRow{path: "EntryContext." + sel.Sel.Name, always: true, rhs: "value"})
				}
			}
			return true
		})
	}
	if fd := function(apiF, "entry"); fd != nil {
		optName := ""
		if len(fd.Type.Params.List) == 2 && len(fd.Type.Params.List[1].Names) == 1 {
			optName = fd.Type.Params.List[1].Names[0].Name
		}
		classify := func(lhs string, rhs ast.Expr) string {
			switch x := rhs.(type) {
			case *ast.SelectorExpr:
				if src(x.X) == optName {
					k := kinds["EntryOptions."+x.Sel.Name]
					if k == "slice" || k == "map" || k == "ref" {
						return "alias:EntryOptions." + x.Sel.Name
					}
					return "value"
				}
			case *ast.CallExpr:
				if src(x.Fun) == "append" && len(x.Args) == 2 && x.Ellipsis.IsValid() && src(x.Args[0]) == lhs+"[:0]" {
					return "copy"
				}
			case *ast.Ident:
				return "value" // a local (rw): not pooled
			}
			return "unknown:" + src(rhs)
		}
		var walk func(stmts []ast.Stmt, always bool)
		walk = func(stmts []ast.Stmt, always bool) {
			for _, s := range stmts {
				switch x := s.(type) {
				case *ast.AssignStmt:
					if len(x.Lhs) == 1 && len(x.Rhs) == 1 && x.Tok == token.ASSIGN {
						l := src(x.Lhs[0])
						switch {
						case strings.HasPrefix(l, "ctx.Input."):
							assigns = append(assigns, assignRow{"SentinelInput." + strings.TrimPrefix(l, "ctx.Input."), always, classify(l, x.Rhs[0])})
						case strings.HasPrefix(l, "ctx."):
							assigns = append(assigns, assignRow{"EntryContext." + strings.TrimPrefix(l, "ctx."), always, classify(l, x.Rhs[0])})
						}
					}
				case *ast.ExprStmt:
					if c, ok := x.X.(*ast.CallExpr); ok && src(c.Fun) == "ctx.SetEntry" {
						assigns = append(assigns, assignRow{"EntryContext.entry", always, "value"})
					}
				case *ast.IfStmt:
					if strings.HasPrefix(src(x.Cond), "r ") || strings.HasPrefix(src(x.Cond), "r.") {
						continue // after sc.Entry returned: no more set-up of the context
					}
					walk(x.Body.List, false)
				}
			}
		}
		walk(fd.Body.List, true)
	} else {
		assigns = append(assigns, assignRow{"?", false, "unknown:api.entry not found"})
	}

	// guards of SentinelEntry
	guard := func(name string) bool {
		fd, recv := method(entF, "SentinelEntry", name)
		if fd == nil || len(fd.Body.List) != 1 {
			return false
		}
		ifs, ok := fd.Body.List[0].(*ast.IfStmt)
		return ok && strings.Contains(src(ifs.Cond), "!"+recv+".exited.Load()")
	}
	exitInside, exitOutside, storedInside := false, false, false
	if fd, recv := method(entF, "SentinelEntry", "Exit"); fd != nil {
		var lit *ast.FuncLit
		ast.Inspect(fd.Body, func(n ast.Node) bool {
			if c, ok := n.(*ast.CallExpr); ok && src(c.Fun) == recv+".exitCtl.Do" && len(c.Args) == 1 {
				if l, ok := c.Args[0].(*ast.FuncLit); ok {
					lit = l
				}
			}
			return true
		})
		ast.Inspect(fd.Body, func(n ast.Node) bool {
			c, ok := n.(*ast.CallExpr)
			if !ok {
				return true
			}
			inside := lit != nil && c.Pos() >= lit.Pos() && c.End() <= lit.End()
			switch {
			case strings.HasSuffix(src(c.Fun), ".SetError"):
				if inside {
					exitInside = true
				} else {
					exitOutside = true
				}
			case src(c.Fun) == recv+".exited.Store" && inside:
				storedInside = true
			}
			return true
		})
	}

	sort.SliceStable(assigns, func(i, j int) bool { return assigns[i].path < assigns[j].path })
	var b strings.Builder
	b.WriteString("import Sentinel.Model.PoolFacts\n/-! GENERATED by go/internal/c01/poolfacts from the source tree - do not edit -/\n")
	b.WriteString("namespace Sentinel.Gen.PoolFacts\nopen Sentinel.PoolFacts\n\ndef fields : List FieldRow := [\n")
	for i, r := range rows {
		sep := ","
		if i == len(rows)-1 {
			sep = ""
		}
		fmt.Fprintf(&b, "  ⟨%q, %q, .%s, .%s⟩%s\n", r.owner, r.name, r.kind, map[string]string{"none": "untouched"}[r.reset]+strings.TrimPrefix(r.reset, "none"), sep)
	}
	b.WriteString("]\n\ndef assigns : List AssignRow := [\n")
	for i, a := range assigns {
		sep := ","
		if i == len(assigns)-1 {
			sep = ""
		}
		rhs := "." + a.rhs
		switch {
		case strings.HasPrefix(a.rhs, "alias:"):
			rhs = fmt.Sprintf("(.alias %q)", strings.TrimPrefix(a.rhs, "alias:"))
		case strings.HasPrefix(a.rhs, "unknown:"):
			rhs = fmt.Sprintf("(.unknown %q)", strings.TrimPrefix(a.rhs, "unknown:"))
		}
		fmt.Fprintf(&b, "  ⟨%q, %v, %s⟩%s\n", a.path, a.always, rhs, sep)
	}
	fmt.Fprintf(&b, "]\n\ndef guards : Guards := ⟨%v, %v, %v, %v, %v⟩\n\nend Sentinel.Gen.PoolFacts\n",
		guard("SetError"), guard("SetPair"), exitInside, !exitOutside, storedInside)
	if *out == "" {
		fmt.Print(b.String())
		return
	}
	if err := os.WriteFile(*out, []byte(b.String()), 0o644); err != nil {
		fmt.Fprintln(os.Stderr, err)
		os.Exit(1)
	}
}
