// Package c01 interprets the C01 op language against the real packages (stub).
package c01

import "verifharness/internal/vh"

// New returns the interpreter for C01.
func New() vh.Interp { return nil }
