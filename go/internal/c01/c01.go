// Package c01 interprets the C01 op language against the real packages: api.Entry / api.TraceError /
// SentinelEntry.Exit through the global slot chain or through custom chains assembled from a behaviour
// table (real ResourceNodePrepareSlot and stat.DefaultSlot wrapped to get a position, no-op / panicking
// prepare slots, nil / pass / block / panicking rule slots, recording statistic slots).
//
// Times in op lines are milliseconds relative to the case start; every case gets its own epoch, more
// than one whole array interval after anything the previous case did (the inbound node is process wide).
package c01

import (
	"fmt"
	"runtime"
	"runtime/debug"
	"strconv"
	"strings"
	"sync"
	"sync/atomic"
	"time"

	sentinel "github.com/alibaba/sentinel-golang/api"
	"github.com/alibaba/sentinel-golang/core/base"
	"github.com/alibaba/sentinel-golang/core/flow"
	"github.com/alibaba/sentinel-golang/core/hotspot"
	"github.com/alibaba/sentinel-golang/core/isolation"
	"github.com/alibaba/sentinel-golang/core/stat"
	"verifharness/internal/vh"
)

const (
	epoch0  = uint64(1900000000000)
	inbound = "__inbound__"
)

type tagErr struct{ tag string }

func (e *tagErr) Error() string { return e.tag }

// wrapErr wraps another error (errors.Unwrap works on it); its tag is the op token itself
type wrapErr struct {
	tag   string
	inner error
}

func (e *wrapErr) Error() string { return e.tag + ": " + e.inner.Error() }
func (e *wrapErr) Unwrap() error { return e.inner }

func errTag(err error) string {
	if err == nil {
		return "nil"
	}
	if _, ok := err.(*base.BlockError); ok {
		return "blk"
	}
	if w, ok := err.(*wrapErr); ok {
		return w.tag
	}
	if t, ok := err.(*tagErr); ok {
		return t.tag
	}
	return "panic" // the only foreign error is the one SlotChain.Entry's recover stores
}

type ent struct {
	e       *base.SentinelEntry // nil: blocked
	exited  bool
	blocked bool
}

type Interp struct {
	clk    *vh.Clock
	base   uint64 // epoch of the current case (multiple of 10000)
	maxRel uint64
	ents   map[string]*ent
	order  []string
	chains map[string]*base.SlotChain
	log    []string
	iso    []*isolation.Rule
	hot    []*hotspot.Rule
	soaked bool
	soakAt uint64
	wedged bool
	manySeq  int
	manyDone bool
	backward bool // the clock has stepped backwards in this case: the library's uint64 response times wrap
	soakN  int // soaks so far in this case
	hungReset bool // the clean-up of the previous case hung: reported by the first op of the next one
	cmaps  map[string]map[interface{}]interface{} // the caller's own attachment maps (WithAttachments arguments)
	rv     *rendezvous
}

func New() vh.Interp {
	runtime.GOMAXPROCS(1)
	runtime.LockOSThread()
	debug.SetGCPercent(-1)
	vh.Silence()
	it := &Interp{clk: vh.NewClock(epoch0), base: epoch0, rv: &rendezvous{}}
	it.ents = map[string]*ent{}
	it.chains = map[string]*base.SlotChain{}
	return it
}

func (it *Interp) Reset() {
	// finish what the previous case left in flight (contexts go back to the pool, gauges are balanced) - unless an op
	// hung: then nothing of that case is touched again.  The exits themselves run under the watchdog as well (an Exit can
	// be the first call to meet a mutex that an earlier, recovered panic left locked).
	if !it.wedged {
		done := make(chan struct{})
		order, ents := it.order, it.ents
		go func() {
			defer close(done)
			for i := len(order) - 1; i >= 0; i-- {
				x := ents[order[i]]
				if x.e != nil && !x.exited {
					x.e.Exit()
				}
			}
		}()
		select {
		case <-done:
		case <-time.After(hangAfter):
			it.hungReset = true
		}
	}
	it.wedged = false
	it.manySeq, it.manyDone = 0, false
	it.backward = false
	it.soakN = 0
	it.cmaps = map[string]map[interface{}]interface{}{}
	// the inbound node is package level: bring its gauge back to zero (a recovered panic leaves it off by one)
	in := stat.InboundNode()
	for in.CurrentConcurrency() < 0 {
		in.IncreaseConcurrency()
	}
	for in.CurrentConcurrency() > 0 {
		in.DecreaseConcurrency()
	}
	_ = flow.ClearRules()
	_ = isolation.ClearRules()
	_ = hotspot.ClearRules()
	stat.ResetResourceNodeMap()
	it.ents = map[string]*ent{}
	it.order = nil
	it.log = nil
	it.iso, it.hot = nil, nil
	it.soaked = false
	// new epoch: at least two array intervals after the last instant used
	it.base += (it.maxRel/10000 + 3) * 10000
	it.maxRel = 0
	it.clk.SetMs(it.base)
}

// --- custom slots ---------------------------------------------------------------------------

type prepSlot struct {
	order uint32
	kind  byte
}

func (s *prepSlot) Order() uint32 { return s.order }
func (s *prepSlot) Prepare(ctx *base.EntryContext) {
	switch s.kind {
	case 'N':
		stat.DefaultResourceNodePrepareSlot.Prepare(ctx)
	case 'x':
		panic("prepare slot panics")
	}
}

type ruleSlot struct {
	order uint32
	kind  byte
}

func (s *ruleSlot) Order() uint32 { return s.order }
func (s *ruleSlot) Check(ctx *base.EntryContext) *base.TokenResult {
	switch s.kind {
	case 'n':
		return nil
	case 'p':
		return ctx.RuleCheckResult
	case 'b':
		return base.NewTokenResultBlocked(base.BlockTypeFlow)
	}
	panic("rule slot panics")
}

type stdSlot struct{ order uint32 }

func (s *stdSlot) Order() uint32                      { return s.order }
func (s *stdSlot) OnEntryPassed(c *base.EntryContext) { stat.DefaultSlot.OnEntryPassed(c) }
func (s *stdSlot) OnEntryBlocked(c *base.EntryContext, b *base.BlockError) {
	stat.DefaultSlot.OnEntryBlocked(c, b)
}
func (s *stdSlot) OnCompleted(c *base.EntryContext) { stat.DefaultSlot.OnCompleted(c) }

type recSlot struct {
	order uint32
	id    int
	it    *Interp
}

func (s *recSlot) Order() uint32 { return s.order }
func (s *recSlot) OnEntryPassed(c *base.EntryContext) {
	s.it.log = append(s.it.log, fmt.Sprintf("P/%d/%s/%d/%s", s.id, c.Resource.Name(), c.Input.BatchCount, strings.Join(showArgs(c.Input.Args), "+")))
}
func (s *recSlot) OnEntryBlocked(c *base.EntryContext, b *base.BlockError) {
	s.it.log = append(s.it.log, fmt.Sprintf("B/%d/%s/%d", s.id, c.Resource.Name(), c.Input.BatchCount))
}
func (s *recSlot) OnCompleted(c *base.EntryContext) {
	// the recorder's own figure: saturating difference of the two readings, taken on the case's time axis (readings at or
	// after the case's epoch are relative to it, absolute tiny readings stay as they are) so that it does not depend on
	// how many cases ran before
	norm := func(t uint64) uint64 {
		if t >= s.it.base {
			return t - s.it.base + epoch0
		}
		return t
	}
	rt := uint64(0)
	if now, st := norm(s.it.clk.CurrentTimeMillis()), norm(c.StartTime()); now > st {
		rt = now - st
	}
	s.it.log = append(s.it.log, fmt.Sprintf("C/%d/%s/%d/%s/%d", s.id, c.Resource.Name(), c.Input.BatchCount, errTag(c.Err()), rt))
}

// rendezvous is a user statistic slot that does nothing to the account.  While a `racexit` is in progress its OnCompleted
// waits until two callers have arrived or a short (real) time has passed: if Exit lets two overlapping calls through, both
// are inside the statistic phase at the same time; if Exit is idempotent only one arrives and leaves after the timeout.
type rendezvous struct {
	mu    sync.Mutex
	armed bool
	n     int
	ch    chan struct{}
}

func (r *rendezvous) arm() {
	r.mu.Lock()
	r.armed, r.n, r.ch = true, 0, make(chan struct{})
	r.mu.Unlock()
}

func (r *rendezvous) disarm() {
	r.mu.Lock()
	r.armed = false
	r.mu.Unlock()
}

func (r *rendezvous) wait() {
	r.mu.Lock()
	if !r.armed {
		r.mu.Unlock()
		return
	}
	r.n++
	if r.n == 2 {
		close(r.ch)
	}
	ch := r.ch
	r.mu.Unlock()
	select {
	case <-ch:
	case <-time.After(8 * time.Millisecond):
	}
}

type waitSlot struct {
	order uint32
	rv    *rendezvous
}

func (s *waitSlot) Order() uint32                                           { return s.order }
func (s *waitSlot) OnEntryPassed(_ *base.EntryContext)                      {}
func (s *waitSlot) OnEntryBlocked(_ *base.EntryContext, _ *base.BlockError) {}
func (s *waitSlot) OnCompleted(_ *base.EntryContext)                        { s.rv.wait() }

var resTypes = map[string]base.ResourceType{"common": base.ResTypeCommon, "web": base.ResTypeWeb, "rpc": base.ResTypeRPC,
	"api_gateway": base.ResTypeAPIGateway, "db_sql": base.ResTypeDBSQL, "cache": base.ResTypeCache, "mq": base.ResTypeMQ}

var resTypeList = []base.ResourceType{base.ResTypeCommon, base.ResTypeWeb, base.ResTypeRPC, base.ResTypeAPIGateway,
	base.ResTypeDBSQL, base.ResTypeCache, base.ResTypeMQ}

func (it *Interp) chain(spec string) *base.SlotChain {
	if spec == "default" {
		return nil // api.Entry falls back to the global chain
	}
	if sc, ok := it.chains[spec]; ok {
		return sc
	}
	p := strings.Split(spec, "/")
	if len(p) != 4 || p[0] != "c" {
		panic("bad chain " + spec)
	}
	sc := base.NewSlotChain()
	if p[1] != "-" {
		for i := 0; i < len(p[1]); i++ {
			sc.AddStatPrepareSlot(&prepSlot{order: uint32(10 * (i + 1)), kind: p[1][i]})
		}
	}
	if p[2] != "-" {
		for i := 0; i < len(p[2]); i++ {
			sc.AddRuleCheckSlot(&ruleSlot{order: uint32(10 * (i + 1)), kind: p[2][i]})
		}
	}
	if p[3] != "-" {
		for i := 0; i < len(p[3]); i++ {
			if p[3][i] == 'S' {
				sc.AddStatSlot(&stdSlot{order: uint32(10 * (i + 1))})
			} else if p[3][i] == 'w' {
				sc.AddStatSlot(&waitSlot{order: uint32(10 * (i + 1)), rv: it.rv})
			} else {
				sc.AddStatSlot(&recSlot{order: uint32(10 * (i + 1)), id: int(p[3][i] - '0'), it: it})
			}
		}
	}
	it.chains[spec] = sc
	return sc
}

// --- values ------------------------------------------------------------------------------------

func parseArg(s string) interface{} {
	switch {
	case strings.HasPrefix(s, "i:"):
		return int(vh.I(s[2:]))
	case strings.HasPrefix(s, "u:"):
		return []string{s[2:]} // unhashable
	case strings.HasPrefix(s, "s:"):
		return s[2:]
	}
	panic("bad arg " + s)
}

func showArgs(xs []interface{}) []string {
	out := make([]string, 0, len(xs))
	for _, x := range xs {
		switch v := x.(type) {
		case int:
			out = append(out, "i:"+strconv.Itoa(v))
		case string:
			out = append(out, "s:"+v)
		case []string:
			out = append(out, "u:"+strings.Join(v, "?"))
		default:
			out = append(out, fmt.Sprintf("?%T", x))
		}
	}
	return out
}

func ev(s string) base.MetricEvent {
	switch s {
	case "pass":
		return base.MetricEventPass
	case "block":
		return base.MetricEventBlock
	case "complete":
		return base.MetricEventComplete
	case "error":
		return base.MetricEventError
	case "rt":
		return base.MetricEventRt
	}
	panic("bad event " + s)
}

// mkErr: `nil`; `blk` = a *base.BlockError (what a blocked nested Entry hands to the caller); `w_<x>` = an error wrapping
// another one; anything else a plain error.  Every non-nil error counts once, whatever its dynamic type.
func mkErr(tag string) error {
	if tag == "nil" {
		return nil
	}
	if tag == "blk" {
		return base.NewBlockError(base.WithBlockType(base.BlockTypeFlow))
	}
	if strings.HasPrefix(tag, "w_") {
		return &wrapErr{tag: tag, inner: &tagErr{tag[2:]}}
	}
	return &tagErr{tag}
}

func node(key string) *stat.ResourceNode {
	if key == inbound {
		return stat.InboundNode()
	}
	return stat.GetResourceNode(key)
}

// --- many goroutines ----------------------------------------------------------------------------

func lcg(x uint64) uint64 { return (x*1103515245 + 12345) % 2147483648 }

// soak: G goroutines, each N times Entry -> (TraceError) -> Exit on resources s0..s(R-1), truly in parallel
// (GOMAXPROCS is raised for the duration), all at one instant of the virtual clock.  Every Entry must pass.
func (it *Interp) soak(G, N int, R, seed uint64) string {
	it.soaked, it.soakAt = true, it.clk.CurrentTimeMillis()
	old := runtime.GOMAXPROCS(8)
	defer runtime.GOMAXPROCS(old)
	custom := it.chain("c/N/p/S")
	soakN := it.soakN + 1
	// Recycle the current bucket of every node the soak will touch before going parallel: a writer racing with the
	// recycling of a stale bucket can lose its update (BucketStart is published before the counters are zeroed) - that is
	// C09's subject (concurrent writers and rollover), not C01's; adding 0 is invisible to every observation.
	stat.InboundNode().AddCount(base.MetricEventPass, 0)
	for j := uint64(0); j < R; j++ {
		if n := stat.GetResourceNode("s" + strconv.FormatUint(j, 10)); n != nil {
			n.AddCount(base.MetricEventPass, 0)
		}
	}
	var wg sync.WaitGroup
	bad := int32(0)
	// the first three rounds of every goroutine enter a resource nobody has entered before, all goroutines at the same
	// moment (barrier): concurrent first entries of one resource must end up on one node
	it.soakN++
	var barriers [3]sync.WaitGroup
	for k := range barriers {
		barriers[k].Add(G)
	}
	for g := 0; g < G; g++ {
		wg.Add(1)
		go func(g int) {
			defer wg.Done()
			x := lcg(seed + uint64(g)*7919)
			for i := 0; i < N; i++ {
				x1 := lcg(x)
				x2 := lcg(x1)
				x3 := lcg(x2)
				x4 := lcg(x3)
				x = x4
				res := "s" + strconv.FormatUint(x1%R, 10)
				if i < 3 {
					res = fmt.Sprintf("f%d_%d", soakN, i)
					barriers[i].Done()
					barriers[i].Wait()
				}
				opts := []sentinel.EntryOption{sentinel.WithBatchCount(uint32(x3%3 + 1)), sentinel.WithResourceType(resTypeList[x4%7])}
				if x2%2 == 0 {
					opts = append(opts, sentinel.WithTrafficType(base.Inbound))
				}
				if g%2 == 1 {
					opts = append(opts, sentinel.WithSlotChain(custom))
				}
				e, b := sentinel.Entry(res, opts...)
				if e == nil || b != nil {
					atomic.AddInt32(&bad, 1)
					continue
				}
				if x4%3 == 1 {
					sentinel.TraceError(e, &tagErr{"t"})
				}
				if x3%5 == 0 { // exit handlers (nil / error) do not change the account
					herr := x3%2 == 0
					e.WhenExit(func(*base.SentinelEntry, *base.EntryContext) error {
						if herr {
							return &tagErr{"handler"}
						}
						return nil
					})
				}
				if x4%3 == 2 {
					e.Exit(base.WithError(&tagErr{"x"}))
				} else {
					e.Exit()
				}
				if i%7 == 3 {
					e.Exit(base.WithError(&tagErr{"late"})) // late call while other goroutines reuse the context
				}
				runtime.Gosched()
			}
		}(g)
	}
	wg.Wait()
	if bad != 0 {
		return fmt.Sprintf("blocked %d", bad)
	}
	return "ok"
}

// --- ops ---------------------------------------------------------------------------------------

// Step runs one op under a watchdog: an op that does not return within `hangAfter` of real time (a mutex left locked, a
// lost wake-up) is reported as the observation `HANG`; the rest of the case is answered `HANG` without touching the
// library again (the stuck goroutine is abandoned), the next case starts afresh.
func (it *Interp) Step(t []string, op string) string {
	if it.wedged {
		return "HANG"
	}
	if it.hungReset {
		// a case whose ops all returned left something behind that blocks a plain Exit
		it.hungReset = false
		return "HANG-IN-CLEANUP-OF-PREVIOUS-CASE"
	}
	done := make(chan string, 1)
	go func() {
		defer func() {
			if r := recover(); r != nil {
				done <- strings.ReplaceAll(fmt.Sprintf("PANIC %v", r), "\n", " ")
			}
		}()
		done <- it.step(t, op)
	}()
	select {
	case r := <-done:
		return r
	case <-time.After(hangAfter):
		it.wedged = true
		return "HANG"
	}
}

const hangAfter = 1500 * time.Millisecond

func sortedKV(m map[interface{}]interface{}) string {
	xs := make([]string, 0, len(m))
	for k, v := range m {
		xs = append(xs, fmt.Sprintf("%v=%v", k, v))
	}
	return vh.SortedList(xs)
}

func (it *Interp) step(t []string, op string) string {
	switch t[0] {
	case "clock":
		if t[1] == "abs" { // an absolute reading (0, tiny values): far behind the epoch, i.e. the clock steps backwards
			ms := vh.U(t[2])
			if ms < it.clk.CurrentTimeMillis() {
				it.backward = true
			}
			it.clk.SetMs(ms)
			return ""
		}
		rel := vh.U(t[1])
		if it.base+rel < it.clk.CurrentTimeMillis() {
			it.backward = true
		}
		if rel > it.maxRel {
			it.maxRel = rel
		}
		it.clk.SetMs(it.base + rel)
		return ""
	case "rule":
		switch t[1] {
		case "iso":
			it.iso = append(it.iso, &isolation.Rule{Resource: t[2], MetricType: isolation.Concurrency, Threshold: uint32(vh.U(t[3]))})
			if _, err := isolation.LoadRules(it.iso); err != nil {
				panic(err)
			}
		case "hot", "hotc":
			r := &hotspot.Rule{Resource: t[2], MetricType: hotspot.QPS, ControlBehavior: hotspot.Reject,
				ParamIndex: 0, Threshold: 1 << 40, DurationInSec: 1}
			if t[1] == "hotc" {
				r = &hotspot.Rule{Resource: t[2], MetricType: hotspot.Concurrency, ParamIndex: 0, Threshold: 1 << 40}
			}
			it.hot = append(it.hot, r)
			if _, err := hotspot.LoadRules(it.hot); err != nil {
				panic(err)
			}
		default:
			panic("bad rule " + op)
		}
		return ""
	case "entry":
		// entry <id> <res> in|out|- [type=<t>] [flag=<n>] <batch|-> <chain> <nargs> <arg>* [| k=v* [| k=v*]]
		// `-` / an absent token = the option is NOT passed (the pooled EntryOptions must supply the default)
		id, res := t[1], t[2]
		if _, dup := it.ents[id]; dup {
			panic("duplicate id")
		}
		var opts []sentinel.EntryOption
		switch t[3] {
		case "in":
			opts = append(opts, sentinel.WithTrafficType(base.Inbound))
		case "out":
			opts = append(opts, sentinel.WithTrafficType(base.Outbound))
		}
		i, split, dup := 4, 0, ""
		for ; ; i++ {
			if strings.HasPrefix(t[i], "type=") {
				v, ok := resTypes[t[i][5:]]
				if !ok {
					panic("bad resource type " + t[i])
				}
				if strings.Contains(dup, "r") {
					opts = append(opts, sentinel.WithResourceType(base.ResTypeMQ))
				}
				opts = append(opts, sentinel.WithResourceType(v))
			} else if strings.HasPrefix(t[i], "flag=") {
				if strings.Contains(dup, "f") {
					opts = append(opts, sentinel.WithFlag(99))
				}
				opts = append(opts, sentinel.WithFlag(int32(vh.I(t[i][5:]))))
			} else if strings.HasPrefix(t[i], "argsplit=") {
				split = int(vh.U(t[i][9:]))
			} else if strings.HasPrefix(t[i], "dup=") {
				// options passed twice, a decoy value first: the last one counts (dup= precedes type=/flag= in the op line)
				dup = t[i][4:]
				if strings.Contains(dup, "t") && t[3] != "-" {
					decoy := base.Inbound
					if t[3] == "in" {
						decoy = base.Outbound
					}
					opts = append([]sentinel.EntryOption{sentinel.WithTrafficType(decoy)}, opts...)
				}
			} else {
				break
			}
		}
		if t[i] != "-" {
			if strings.Contains(dup, "b") {
				opts = append(opts, sentinel.WithAcquireCount(77)) // deprecated alias, as the decoy
			}
			opts = append(opts, sentinel.WithBatchCount(uint32(vh.U(t[i]))))
		}
		if sc := it.chain(t[i+1]); sc != nil {
			if strings.Contains(dup, "c") {
				opts = append(opts, sentinel.WithSlotChain(it.chain("c/N/b/S")))
			}
			opts = append(opts, sentinel.WithSlotChain(sc))
		}
		if strings.Contains(dup, "a") {
			opts = append(opts, sentinel.WithAttachments(map[interface{}]interface{}{"decoy": "1"}))
		}
		n := int(vh.U(t[i+2]))
		if n > 0 {
			args := make([]interface{}, 0, n)
			for _, a := range t[i+3 : i+3+n] {
				args = append(args, parseArg(a))
			}
			if split > 0 && split < n { // several WithArgs in one call: the argument list is their concatenation
				opts = append(opts, sentinel.WithArgs(args[:split]...), sentinel.WithArgs(args[split:]...))
			} else {
				opts = append(opts, sentinel.WithArgs(args...))
			}
		}
		if rest := t[i+3+n:]; len(rest) > 0 {
			if rest[0] != "|" {
				panic("bad attachments " + op)
			}
			cm := map[interface{}]interface{}{}
			j := 1
			for ; j < len(rest) && rest[j] != "|"; j++ {
				kv := strings.SplitN(rest[j], "=", 2)
				cm[kv[0]] = kv[1]
			}
			it.cmaps[id] = cm
			opts = append(opts, sentinel.WithAttachments(cm))
			for j++; j < len(rest); j++ {
				kv := strings.SplitN(rest[j], "=", 2)
				opts = append(opts, sentinel.WithAttachment(kv[0], kv[1]))
			}
		}
		e, b := sentinel.Entry(res, opts...)
		x := &ent{e: e}
		it.ents[id] = x
		it.order = append(it.order, id)
		switch {
		case e != nil && b == nil:
			return "pass"
		case e == nil && b != nil:
			x.blocked = true
			return "block"
		}
		return "both-or-neither" // "exactly one outcome" is part of the property
	case "resetnodes":
		stat.ResetResourceNodeMap() // a test utility, but callable while entries are in flight
		return ""
	case "nodes":
		if it.manyDone {
			return "?"
		}
		var xs []string
		for _, n := range stat.ResourceNodeList() {
			xs = append(xs, n.ResourceName())
		}
		return vh.SortedList(xs)
	case "many":
		// n never-seen resources, each entered (outbound, default chain) and exited at once: the node map grows
		// (past base.DefaultMaxResourceAmount = 10000 when n is large enough)
		for k, n := 0, int(vh.U(t[1])); k < n; k++ {
			e, b := sentinel.Entry("many-" + strconv.Itoa(it.manySeq))
			it.manySeq++
			if e == nil || b != nil {
				return "blocked"
			}
			e.Exit()
		}
		it.manyDone = true
		return ""
	case "seterr":
		x := it.ents[t[1]]
		if x.e != nil {
			x.e.SetError(mkErr(t[2]))
		}
		return ""
	case "whenexit":
		x := it.ents[t[1]]
		if x.e == nil {
			return ""
		}
		switch t[2] {
		case "ok":
			x.e.WhenExit(func(*base.SentinelEntry, *base.EntryContext) error { return nil })
		case "err":
			x.e.WhenExit(func(*base.SentinelEntry, *base.EntryContext) error { return &tagErr{"handler"} })
		case "panic":
			x.e.WhenExit(func(*base.SentinelEntry, *base.EntryContext) error { panic("exit handler panics") })
		default:
			panic("bad handler kind")
		}
		return ""
	case "attmut":
		it.cmaps[t[1]][t[2]] = t[3] // the caller goes on using its own map
		return ""
	case "attmap":
		return sortedKV(it.cmaps[t[1]])
	case "trace":
		x := it.ents[t[1]]
		sentinel.TraceError(x.e, mkErr(t[2]))
		return ""
	case "exit":
		x := it.ents[t[1]]
		if x.e == nil {
			return "" // the caller holds no entry for a blocked request
		}
		if len(t) > 2 {
			x.e.Exit(base.WithError(mkErr(t[2])))
		} else {
			x.e.Exit()
		}
		x.exited = true
		return ""
	case "racexit":
		x := it.ents[t[1]]
		if x.e == nil {
			return ""
		}
		var opts []base.ExitOption
		if len(t) > 2 {
			opts = append(opts, base.WithError(mkErr(t[2])))
		}
		it.rv.arm()
		var wg sync.WaitGroup
		start := make(chan struct{})
		for k := 0; k < 2; k++ {
			wg.Add(1)
			go func() {
				defer wg.Done()
				<-start
				x.e.Exit(opts...)
			}()
		}
		close(start)
		wg.Wait()
		it.rv.disarm()
		x.exited = true
		return ""
	case "read":
		if t[2] == "maxconc" && it.soaked && it.clk.CurrentTimeMillis() < it.soakAt+1000 {
			return "?" // the peak reached inside a soak depends on the schedule
		}
		if it.backward && (t[2] == "minrt" || (len(t) > 3 && t[3] == "rt")) {
			return "?" // wrapped response times are not compared
		}
		n := node(t[1])
		if n == nil {
			return "nil"
		}
		switch t[2] {
		case "type":
			for name, v := range resTypes {
				if v == n.ResourceType() {
					return name
				}
			}
			return "?"
		case "sum":
			return fmt.Sprint(n.GetSum(ev(t[3])))
		case "sum10":
			m, err := n.GenerateReadStat(20, 10000)
			if err != nil {
				panic(err)
			}
			return fmt.Sprint(m.GetSum(ev(t[3])))
		case "conc":
			return fmt.Sprint(n.CurrentConcurrency())
		case "maxconc":
			return fmt.Sprint(n.MaxConcurrency())
		case "minrt":
			return fmt.Sprint(int64(n.MinRT()))
		}
	case "ctx":
		x := it.ents[t[1]]
		if x.blocked {
			return "nil"
		}
		if x.exited {
			return "exited" // the context may already serve another entry: not an observable of this one
		}
		switch t[2] {
		case "err":
			return errTag(x.e.Context().Err())
		case "args":
			return vh.List(showArgs(x.e.Context().Input.Args))
		case "att":
			return sortedKV(x.e.Context().Input.Attachments)
		case "flag":
			return fmt.Sprint(x.e.Context().Input.Flag)
		case "batch":
			return fmt.Sprint(x.e.Context().Input.BatchCount)
		}
	case "soak":
		return it.soak(int(vh.U(t[1])), int(vh.U(t[2])), vh.U(t[3]), vh.U(t[4]))
	case "reclog":
		r := vh.List(it.log)
		it.log = nil
		return r
	}
	panic("bad op " + op)
}
