// Package c19 holds the C19 translator (extract.go) and the line interpreter used by `corr C19`:
//
//	conf <key> <blocked|admitted> <ok|err|panic>   =>   the IR text of entry point <key> as extracted
//	                                                    *now* from $VERIF_REPO (or `gone`)
//	trace <key> <blocked|admitted> <ok|err|panic>  =>   the events observed by the adapter's dynamic harness
//
// The Lean driver answers the same op from the table written at the last regeneration
// (lean/Sentinel/Gen/adapters.ir), and its oracle mode judges the IR with `conforms`.
package c19

import (
	"os"
	"os/exec"
	"path/filepath"
	"strings"

	"verifharness/internal/vh"
)

type Interp struct {
	progs map[string]string
	dyn   map[string][]string
	err   error
}

// Repo is the tree the adapters are read from.
func Repo() string {
	if r := os.Getenv("VERIF_REPO"); r != "" {
		return r
	}
	return "/repo"
}

// New returns the interpreter for C19.
func New() vh.Interp { return &Interp{} }

func (it *Interp) Reset() {
	if it.progs != nil || it.err != nil {
		return
	}
	ps, err := Extract(Repo())
	if err != nil {
		it.err = err
		return
	}
	it.progs = map[string]string{}
	for _, p := range ps {
		it.progs[p.Key] = NextText(p.NextVia) + " " + Text(p.Body)
	}
}

func (it *Interp) Step(toks []string, op string) string {
	if it.err != nil {
		return "extract-error"
	}
	switch toks[0] {
	case "conf":
		if len(toks) != 4 {
			return "bad-op"
		}
		if t, ok := it.progs[toks[1]]; ok {
			return t
		}
		return "gone"
	case "trace":
		if len(toks) != 4 && len(toks) != 5 {
			return "bad-op"
		}
		return it.dynTrace(toks)
	}
	return "bad-op"
}

// dynTrace answers `trace <key> <b> <h>` by running the dynamic harness of the adapter (built by checks/C19.py
// into $C19_DYN_DIR/<adapter>/harness) and returning the first observed trace for that entry point and scenario.
func (it *Interp) dynTrace(toks []string) string {
	dir := os.Getenv("C19_DYN_DIR")
	i := strings.Index(toks[1], "/")
	if dir == "" || i < 0 {
		return "unavailable"
	}
	ad := toks[1][:i]
	if it.dyn == nil {
		it.dyn = map[string][]string{}
	}
	if _, ok := it.dyn[ad]; !ok {
		out, err := exec.Command(filepath.Join(dir, ad, "harness"), "0").Output()
		if err != nil {
			it.dyn[ad] = []string{}
		} else {
			it.dyn[ad] = strings.Split(string(out), "\n")
		}
	}
	// several variants (default / custom fallback, single options, forced rules) print the same op: answer with the
	// least frequent result, i.e. the variant that behaves differently from the others (ties: the first seen)
	want := strings.Join(toks, " ") + " " // with 4 tokens: any variant; with 5: exactly that one
	if len(toks) == 5 {
		want = strings.Join(toks, " ") + " => "
	}
	count := map[string]int{}
	var order []string
	for _, l := range it.dyn[ad] {
		if strings.HasPrefix(l, want) {
			r := l[strings.Index(l, " => ")+4:]
			r = strings.TrimSpace(r)
			if count[r] == 0 {
				order = append(order, r)
			}
			count[r]++
		}
	}
	best := ""
	for _, r := range order {
		if best == "" || count[r] < count[best] {
			best = r
		}
	}
	if best != "" {
		return best
	}
	return "unavailable"
}
