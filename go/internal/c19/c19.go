// Package c19 interprets the C19 op language against the real packages (stub).
package c19

import "verifharness/internal/vh"

// New returns the interpreter for C19.
func New() vh.Interp { return nil }
