package c19

// The C19 translator: every function body under pkg/adapters/** that directly calls sentinel.Entry is turned
// into a term of the adapter IR (lean/Sentinel/Model/AdapterIR.lean), one term per distinct path through the
// option tests of the body ("arms").  go/parser + go/ast only (each adapter is its own Go module with heavy
// framework dependencies; nothing here needs them to be present).  The identification of "the call that
// invokes the wrapped handler" is structural:
//
//   (a) a call through a *parameter* of this or an enclosing function (`handler(ctx, req)`, `next(c)`,
//       `invoker(...)`, `src(ctx, req)`): the callee is an identifier that resolves to a parameter, so it is
//       of function type;
//   (b) a method named `Next` reached from a parameter (`c.Next()`, `ctx.Next(c)`, `r.Middleware.Next()`);
//   (c) a method of an embedded field of the method receiver (`c.Client.Call(...)` in `(*clientWrapper).Call`).
//
// Everything that mentions the entry / the block error / a handler call / a return in a shape not listed in
// conv() below is emitted as `.unknown`, which `conforms` rejects in every scenario that reaches it.

import (
	"fmt"
	"go/ast"
	"go/parser"
	"go/token"
	"os"
	"path/filepath"
	"sort"
	"strings"
)

// Stmt mirrors Sentinel.AdapterIR.Stmt.
type Stmt struct {
	Kind    string // entry ifBlocked reject ret deferExit exitNow useEntry callNext unknown
	Then    []Stmt
	Alts    [][]string // reject: per alternative path through the option tests, the callee names of the rejection
	ErrBack bool
	Trace   bool
	Why     string // for unknown: what was not understood (commentary only)
}

// Prog mirrors Sentinel.AdapterIR.Prog.
type Prog struct {
	Key     string
	Fw      string   // adapter package directory
	NextVia []string // how the function invokes the next handler: param, embedded, Next
	Pos     string
	Body    []Stmt
}

func altsText(alts [][]string) string {
	var a []string
	for _, x := range alts {
		a = append(a, strings.Join(x, "+"))
	}
	return strings.Join(a, "|")
}

func altsLean(alts [][]string) string {
	var a []string
	for _, x := range alts {
		var q []string
		for _, v := range x {
			q = append(q, fmt.Sprintf("%q", v))
		}
		a = append(a, "["+strings.Join(q, ", ")+"]")
	}
	return "[" + strings.Join(a, ", ") + "]"
}

// NextText is the `next=` field of the text form.
func NextText(via []string) string {
	if len(via) == 0 {
		return "next=-"
	}
	return "next=" + strings.Join(via, ",")
}

func b01(b bool) string {
	if b {
		return "1"
	}
	return "0"
}

// Text is the space-separated text form parsed by Sentinel.AdapterIR.parseBody.
func Text(body []Stmt) string {
	var sb []string
	for _, s := range body {
		switch s.Kind {
		case "ifBlocked":
			sb = append(sb, "ifBlocked [ "+Text(s.Then)+" ]")
		case "reject":
			sb = append(sb, "reject:"+altsText(s.Alts))
		case "callNext":
			sb = append(sb, "callNext:"+b01(s.ErrBack)+":"+b01(s.Trace))
		default:
			sb = append(sb, s.Kind)
		}
	}
	return strings.Join(sb, " ")
}

// Lean is the Lean term of a body.
func Lean(body []Stmt) string {
	var sb []string
	for _, s := range body {
		switch s.Kind {
		case "ifBlocked":
			sb = append(sb, ".ifBlocked "+Lean(s.Then))
		case "reject":
			sb = append(sb, ".reject "+altsLean(s.Alts))
		case "callNext":
			sb = append(sb, fmt.Sprintf(".callNext %v %v", s.ErrBack, s.Trace))
		default:
			sb = append(sb, "."+s.Kind)
		}
	}
	return "[" + strings.Join(sb, ", ") + "]"
}

// Unknowns lists the reasons of every `.unknown` in a body.
func Unknowns(body []Stmt) []string {
	var r []string
	for _, s := range body {
		if s.Kind == "unknown" || s.Kind == "badGuard" || (s.Kind == "reject" && s.Why != "") {
			r = append(r, s.Why)
		}
		r = append(r, Unknowns(s.Then)...)
	}
	return r
}

const apiPath = "github.com/alibaba/sentinel-golang/api"

type fileCtx struct {
	fset     *token.FileSet
	apiNames map[string]bool            // local names of the sentinel api package in this file
	embedded map[string]map[string]bool // struct type name -> embedded field names (whole package)
	misguard map[*ast.CallExpr]string   // option calls made under a nil-test of a different option field
}

type fnCtx struct {
	*fileCtx
	params   map[*ast.Object]bool // parameters of this and of all enclosing functions
	recv     *ast.Object          // method receiver (of the enclosing FuncDecl), if any
	recvType string
	hasRes   bool // the function returns values
	entry    *ast.Object
	blk      *ast.Object // nil when the block error is discarded (`_`)
	hasEntry bool
	nextVia  map[string]bool // shared by all paths of the function
}

type path struct {
	label string
	body  []Stmt
}

func (c *fnCtx) isAPICall(e ast.Expr, name string) (*ast.CallExpr, bool) {
	call, ok := e.(*ast.CallExpr)
	if !ok {
		return nil, false
	}
	sel, ok := call.Fun.(*ast.SelectorExpr)
	if !ok || sel.Sel.Name != name {
		return nil, false
	}
	id, ok := sel.X.(*ast.Ident)
	if !ok || id.Obj != nil || !c.apiNames[id.Name] {
		return nil, false
	}
	return call, true
}

func rootIdent(e ast.Expr) *ast.Ident {
	for {
		switch x := e.(type) {
		case *ast.Ident:
			return x
		case *ast.SelectorExpr:
			e = x.X
		case *ast.CallExpr:
			e = x.Fun
		case *ast.ParenExpr:
			e = x.X
		case *ast.StarExpr:
			e = x.X
		case *ast.IndexExpr:
			e = x.X
		case *ast.TypeAssertExpr:
			e = x.X
		default:
			return nil
		}
	}
}

// nextKind: does this call invoke the wrapped handler, and how?  (a) "param", (b) "Next", (c) "embedded"
// of the file comment; "" if it does not.
func (c *fnCtx) nextKind(call *ast.CallExpr) string {
	switch f := call.Fun.(type) {
	case *ast.Ident:
		if f.Obj != nil && c.params[f.Obj] {
			return "param"
		}
	case *ast.SelectorExpr:
		if f.Sel.Name == "Next" {
			if r := rootIdent(f.X); r != nil && r.Obj != nil && c.params[r.Obj] {
				return "Next"
			}
		}
		if inner, ok := f.X.(*ast.SelectorExpr); ok && c.recv != nil {
			if id, ok := inner.X.(*ast.Ident); ok && id.Obj == c.recv && c.embedded[c.recvType][inner.Sel.Name] {
				return "embedded"
			}
		}
	}
	return ""
}

func (c *fnCtx) isNext(call *ast.CallExpr) bool { return c.nextKind(call) != "" }

// sawNext records how the handler was invoked.
func (c *fnCtx) sawNext(call *ast.CallExpr) {
	if k := c.nextKind(call); k != "" && c.nextVia != nil {
		c.nextVia[k] = true
	}
}

// rejectVia names what a statement of the block branch does: the method called on the framework context
// (`AbortWithStatus`, `StopExecution`, `WriteHeader`, …), `option` for the configured / default block fallback held
// in the adapter's options, `pkg.Func` for a package-level function, `return` when the block error is returned.
// The Lean framework table decides which of these stop the handler chain.
func (c *fnCtx) rejectVia(n ast.Node) string {
	if len(c.misguards(n)) > 0 {
		return "misguarded"
	}
	var call *ast.CallExpr
	ast.Inspect(n, func(x ast.Node) bool {
		if call != nil {
			return false
		}
		if _, ok := x.(*ast.FuncLit); ok {
			return false
		}
		if ce, ok := x.(*ast.CallExpr); ok {
			call = ce
			return false
		}
		return true
	})
	if call == nil {
		return "return"
	}
	switch f := call.Fun.(type) {
	case *ast.SelectorExpr:
		r := rootIdent(f.X)
		switch {
		case r == nil:
			return f.Sel.Name
		case r.Obj != nil && r.Obj.Kind == ast.Var && strings.Contains(strings.ToLower(f.Sel.Name), "fallback"):
			return "option"
		case r.Obj != nil && c.params[r.Obj]:
			return f.Sel.Name
		case r.Obj == nil:
			return r.Name + "." + f.Sel.Name
		default:
			return f.Sel.Name
		}
	case *ast.Ident:
		return f.Name
	}
	return "call"
}

// ---- option guards -------------------------------------------------------------------------------------------
// `if o.f != nil { … o.g(…) … }`: calling field g of the same value under a nil-test of a *different* field f (and of
// no enclosing test of g) is a defect whatever the rest does: with only g configured it is skipped, with only f
// configured a nil function is called.  (micro NewStreamWrapper before /repo d41329a.)

type guard struct {
	root   *ast.Object
	fields map[string]bool
}

// guardOf: the fields of one value that the condition proves non-nil (`o.f != nil`, `o.f != nil && o.h != nil`).
func guardOf(cond ast.Expr) *guard {
	switch e := cond.(type) {
	case *ast.ParenExpr:
		return guardOf(e.X)
	case *ast.BinaryExpr:
		if e.Op == token.LAND {
			a, b := guardOf(e.X), guardOf(e.Y)
			if a == nil {
				return b
			}
			if b != nil && b.root == a.root {
				for f := range b.fields {
					a.fields[f] = true
				}
			}
			return a
		}
		if e.Op == token.NEQ {
			x := e.X
			if isNil(e.X) {
				x = e.Y
			} else if !isNil(e.Y) {
				return nil
			}
			if sel, ok := x.(*ast.SelectorExpr); ok {
				if id, ok := sel.X.(*ast.Ident); ok && id.Obj != nil && id.Obj.Kind == ast.Var {
					return &guard{id.Obj, map[string]bool{sel.Sel.Name: true}}
				}
			}
		}
	}
	return nil
}

func (c *fnCtx) walkGuards(n ast.Node, gs []*guard) {
	if n == nil {
		return
	}
	switch t := n.(type) {
	case *ast.IfStmt:
		c.walkGuards(t.Init, gs)
		c.walkGuards(t.Cond, gs)
		inner := gs
		if g := guardOf(t.Cond); g != nil {
			inner = append(append([]*guard{}, gs...), g)
		}
		c.walkGuards(t.Body, inner)
		c.walkGuards(t.Else, gs)
		return
	case *ast.CallExpr:
		c.checkGuardedCall(t, gs)
	}
	ast.Inspect(n, func(x ast.Node) bool {
		if x == nil || x == n {
			return true
		}
		switch x.(type) {
		case *ast.IfStmt, *ast.CallExpr:
			c.walkGuards(x, gs)
			return false
		}
		return true
	})
}

func (c *fnCtx) checkGuardedCall(call *ast.CallExpr, gs []*guard) {
	sel, ok := call.Fun.(*ast.SelectorExpr)
	if !ok {
		return
	}
	id, ok := sel.X.(*ast.Ident)
	if !ok || id.Obj == nil {
		return
	}
	var innermost *guard
	for _, g := range gs {
		if g.root == id.Obj {
			if g.fields[sel.Sel.Name] {
				return // tested by this or an enclosing guard
			}
			innermost = g
		}
	}
	if innermost == nil {
		return // no nil-test of this value around the call (options with defaults: kitex, kratos, hertz)
	}
	var tested []string
	for f := range innermost.fields {
		tested = append(tested, id.Name+"."+f)
	}
	sort.Strings(tested)
	c.misguard[call] = fmt.Sprintf("%s: %s.%s is called under a nil-test of %s", c.fset.Position(call.Pos()), id.Name, sel.Sel.Name, strings.Join(tested, ", "))
}

// misguards lists the mis-guarded option calls inside a node.
func (c *fnCtx) misguards(n ast.Node) []string {
	var r []string
	if n == nil {
		return r
	}
	ast.Inspect(n, func(x ast.Node) bool {
		if ce, ok := x.(*ast.CallExpr); ok {
			if why, ok := c.misguard[ce]; ok {
				r = append(r, why)
			}
		}
		return true
	})
	return r
}

func (c *fnCtx) rejStmt(n ast.Node) Stmt {
	r := rej(c.rejectVia(n))
	r.Why = strings.Join(c.misguards(n), "; ")
	return r
}

func rej(via string) Stmt { return Stmt{Kind: "reject", Alts: [][]string{{via}}} }

// isLocalFuncVarCall: a call through a local (non-parameter) variable: cannot be classified.
func (c *fnCtx) isLocalFuncVarCall(call *ast.CallExpr) bool {
	if f, ok := call.Fun.(*ast.Ident); ok && f.Obj != nil && f.Obj.Kind == ast.Var && !c.params[f.Obj] {
		return true
	}
	return false
}

type facts struct {
	entryCall, next, ret, entryMention, entryDeref, entryExit, blkMention, funcLitInteresting, localCall, anyCall, misguard bool
}

// scan collects what a node contains (function literals are scanned too; if they mention anything of interest
// that is recorded as funcLitInteresting).
func (c *fnCtx) scan(n ast.Node) facts {
	var f facts
	if n == nil {
		return f
	}
	var walk func(n ast.Node, inLit bool)
	walk = func(n ast.Node, inLit bool) {
		ast.Inspect(n, func(x ast.Node) bool {
			switch t := x.(type) {
			case *ast.FuncLit:
				if !inLit {
					g := c.scan(t.Body)
					if g.entryCall || g.next || g.entryMention || g.blkMention {
						f.funcLitInteresting = true
					}
					return false
				}
			case *ast.ReturnStmt:
				f.ret = true
			case *ast.CallExpr:
				f.anyCall = true
				if _, ok := c.misguard[t]; ok {
					f.misguard = true
				}
				if _, ok := c.isAPICall(t, "Entry"); ok {
					f.entryCall = true
				}
				if c.isNext(t) {
					f.next = true
				}
				if c.isLocalFuncVarCall(t) {
					f.localCall = true
				}
				if sel, ok := t.Fun.(*ast.SelectorExpr); ok && c.entry != nil {
					if id, ok := sel.X.(*ast.Ident); ok && id.Obj == c.entry {
						if sel.Sel.Name == "Exit" {
							f.entryExit = true
						} else {
							f.entryDeref = true
						}
					}
				}
			case *ast.Ident:
				if c.entry != nil && t.Obj == c.entry {
					f.entryMention = true
				}
				if c.blk != nil && t.Obj == c.blk {
					f.blkMention = true
				}
			}
			return true
		})
	}
	walk(n, false)
	return f
}

func (f facts) interesting() bool {
	return f.entryCall || f.next || f.ret || f.entryMention || f.blkMention || f.funcLitInteresting
}

func unk(c *fnCtx, n ast.Node, why string) Stmt {
	return Stmt{Kind: "unknown", Why: fmt.Sprintf("%s: %s", c.fset.Position(n.Pos()), why)}
}

func isNil(e ast.Expr) bool {
	id, ok := e.(*ast.Ident)
	return ok && id.Name == "nil" && id.Obj == nil
}

// cmpNil: `x != nil` / `x == nil` with x an identifier
func cmpNil(e ast.Expr) (*ast.Ident, token.Token, bool) {
	if p, ok := e.(*ast.ParenExpr); ok {
		e = p.X
	}
	be, ok := e.(*ast.BinaryExpr)
	if !ok || (be.Op != token.NEQ && be.Op != token.EQL) {
		return nil, 0, false
	}
	if id, ok := be.X.(*ast.Ident); ok && isNil(be.Y) {
		return id, be.Op, true
	}
	if id, ok := be.Y.(*ast.Ident); ok && isNil(be.X) {
		return id, be.Op, true
	}
	return nil, 0, false
}

func terminates(body []Stmt) bool {
	for _, s := range body {
		if s.Kind == "ret" {
			return true
		}
	}
	return false
}

func prepend(pre []Stmt, ps []path) []path {
	var out []path
	for _, p := range ps {
		b := append(append([]Stmt{}, pre...), p.body...)
		out = append(out, path{p.label, b})
	}
	return out
}

func texts(ps []path) string {
	var t []string
	for _, p := range ps {
		t = append(t, Text(p.body))
	}
	sort.Strings(t)
	var u []string
	for i, x := range t {
		if i == 0 || x != t[i-1] {
			u = append(u, x)
		}
	}
	return strings.Join(u, "\n")
}

func dedupe(ps []path) []path {
	seen := map[string]bool{}
	var out []path
	for _, p := range ps {
		k := Text(p.body)
		if !seen[k] {
			seen[k] = true
			out = append(out, p)
		}
	}
	return out
}

func skeletons(ps []path) string {
	var t []string
	for _, p := range ps {
		t = append(t, skeleton(collapse(p.body)))
	}
	sort.Strings(t)
	var u []string
	for i, x := range t {
		if i == 0 || x != t[i-1] {
			u = append(u, x)
		}
	}
	return strings.Join(u, "\n")
}

// fork: the two continuations of an opaque test.  When they yield the same programs up to the callee names of the
// rejections (configured fallback vs default rejection) they are merged into one program whose `reject` statements
// list the alternatives; otherwise they become arms `T` / `E`.
func fork(tag string, a, b []path) []path {
	if skeletons(a) == skeletons(b) {
		var out []path
		seen := map[string]int{}
		for _, p := range append(append([]path{}, a...), b...) {
			body := collapse(p.body)
			k := skeleton(body)
			if i, ok := seen[k]; ok {
				out[i].body = mergeAlts(out[i].body, body)
				continue
			}
			seen[k] = len(out)
			out = append(out, path{p.label, body})
		}
		return out
	}
	var out []path
	for _, p := range dedupe(a) {
		out = append(out, path{tag + "T" + p.label, p.body})
	}
	for _, p := range dedupe(b) {
		out = append(out, path{tag + "E" + p.label, p.body})
	}
	return out
}

func blockList(s ast.Stmt) []ast.Stmt {
	switch t := s.(type) {
	case nil:
		return nil
	case *ast.BlockStmt:
		return t.List
	default:
		return []ast.Stmt{s}
	}
}

func cat(a, b []ast.Stmt) []ast.Stmt {
	return append(append([]ast.Stmt{}, a...), b...)
}

// conv converts a statement list (with its continuation already appended) into the set of IR paths.
// inBlk: we are inside the then-branch of the block test, where any other call / returned value is the
// fallback or the default rejection.
func (c *fnCtx) conv(list []ast.Stmt, inBlk bool, depth int) []path {
	if len(list) == 0 {
		return []path{{"", nil}}
	}
	if depth > 200 {
		return []path{{"", []Stmt{{Kind: "unknown", Why: "too deep"}}}}
	}
	s, rest := list[0], list[1:]
	cont := func(pre ...Stmt) []path { return prepend(pre, c.conv(rest, inBlk, depth+1)) }
	stop := func(pre ...Stmt) []path { return []path{{"", pre}} }
	f := c.scan(s)
	if f.funcLitInteresting {
		return cont(unk(c, s, "function literal captures the entry / handler"))
	}

	switch st := s.(type) {
	case *ast.BlockStmt:
		return c.conv(cat(st.List, rest), inBlk, depth+1)

	case *ast.EmptyStmt:
		return cont()

	case *ast.AssignStmt:
		// e, b := sentinel.Entry(...)
		if len(st.Rhs) == 1 {
			if _, ok := c.isAPICall(st.Rhs[0], "Entry"); ok {
				if c.hasEntry || len(st.Lhs) != 2 || st.Tok != token.DEFINE {
					return cont(unk(c, s, "second or oddly bound Entry call"))
				}
				e, ok1 := st.Lhs[0].(*ast.Ident)
				b, ok2 := st.Lhs[1].(*ast.Ident)
				if !ok1 || !ok2 || (e.Name != "_" && e.Obj == nil) {
					return cont(unk(c, s, "entry not bound to a fresh variable"))
				}
				c.hasEntry = true
				if e.Name != "_" {
					c.entry = e.Obj // a discarded entry (`_`) can never be exited: the IR simply has no Exit
				}
				if b.Name != "_" {
					c.blk = b.Obj
				}
				return cont(Stmt{Kind: "entry"})
			}
		}
		if f.entryCall {
			return cont(unk(c, s, "Entry call inside an expression"))
		}
		if f.next {
			call, ok := st.Rhs[0].(*ast.CallExpr)
			if len(st.Rhs) != 1 || !ok || !c.isNext(call) || c.argsInteresting(call) {
				return cont(unk(c, s, "handler call nested in an expression"))
			}
			last, ok := st.Lhs[len(st.Lhs)-1].(*ast.Ident)
			if !ok {
				return cont(unk(c, s, "handler result bound to a non-identifier"))
			}
			c.sawNext(call)
			return c.afterCall(last, rest, inBlk, depth)
		}
		return c.plain(s, f, rest, inBlk, depth)

	case *ast.ExprStmt:
		if call, ok := st.X.(*ast.CallExpr); ok {
			if sel, ok := call.Fun.(*ast.SelectorExpr); ok && c.entry != nil {
				if id, ok := sel.X.(*ast.Ident); ok && id.Obj == c.entry && sel.Sel.Name == "Exit" {
					return cont(Stmt{Kind: "exitNow"})
				}
			}
			if c.isNext(call) {
				if c.argsInteresting(call) {
					return cont(unk(c, s, "handler call with entry/handler in its arguments"))
				}
				c.sawNext(call)
				return cont(Stmt{Kind: "callNext"})
			}
			if _, ok := c.isAPICall(call, "TraceError"); ok {
				return cont() // a TraceError outside the `if err != nil` idiom earns no credit
			}
			if _, ok := c.isAPICall(call, "TraceCallee"); ok {
				return cont()
			}
		}
		if f.entryCall || f.next {
			return cont(unk(c, s, "Entry / handler call nested in an expression"))
		}
		return c.plain(s, f, rest, inBlk, depth)

	case *ast.DeclStmt, *ast.IncDecStmt:
		if f.entryCall || f.next {
			return cont(unk(c, s, "Entry / handler call in a declaration"))
		}
		return c.plain(s, f, rest, inBlk, depth)

	case *ast.DeferStmt:
		if sel, ok := st.Call.Fun.(*ast.SelectorExpr); ok && c.entry != nil {
			if id, ok := sel.X.(*ast.Ident); ok && id.Obj == c.entry && sel.Sel.Name == "Exit" {
				return cont(Stmt{Kind: "deferExit"})
			}
		}
		if f.interesting() || f.localCall {
			return cont(unk(c, s, "deferred call involving the entry / handler"))
		}
		return cont()

	case *ast.ReturnStmt:
		var pre []Stmt
		if f.entryCall {
			return stop(unk(c, s, "Entry call in a return"), Stmt{Kind: "ret"})
		}
		if f.next {
			call, ok := (ast.Expr)(nil), false
			if len(st.Results) == 1 {
				call, ok = st.Results[0], true
			}
			ce, isCall := call.(*ast.CallExpr)
			if !ok || !isCall || !c.isNext(ce) || c.argsInteresting(ce) {
				return stop(unk(c, s, "handler call nested in a return expression"), Stmt{Kind: "ret"})
			}
			// `return next(...)`: whatever the handler returns goes straight to the caller, untraced
			c.sawNext(ce)
			return stop(Stmt{Kind: "callNext", ErrBack: c.hasRes, Trace: false}, Stmt{Kind: "ret"})
		}
		if f.entryDeref {
			pre = append(pre, Stmt{Kind: "useEntry"})
		} else if f.entryExit {
			pre = append(pre, unk(c, s, "Exit inside a return expression"))
		}
		if f.localCall {
			pre = append(pre, unk(c, s, "call through a local variable"))
		}
		if inBlk && (f.anyCall || f.blkMention) {
			pre = append(pre, c.rejStmt(s))
		} else if f.misguard {
			pre = append(pre, Stmt{Kind: "badGuard", Why: strings.Join(c.misguards(s), "; ")})
		}
		return stop(append(pre, Stmt{Kind: "ret"})...)

	case *ast.IfStmt:
		if st.Init != nil {
			fi := c.scan(st.Init)
			if fi.interesting() || fi.localCall {
				// `if err := next(c); err != nil {…}`  ==  `err := next(c); if err != nil {…}`
				noInit := *st
				noInit.Init = nil
				return c.conv(cat([]ast.Stmt{st.Init, &noInit}, rest), inBlk, depth+1)
			}
		}
		fc := c.scan(st.Cond)
		if id, op, ok := cmpNil(st.Cond); ok && c.blk != nil && id.Obj == c.blk {
			if op != token.NEQ {
				return cont(unk(c, s, "block test is not of the form `blockErr != nil`"))
			}
			thenPaths := c.conv(st.Body.List, true, depth+1)
			if st.Else != nil {
				for _, p := range thenPaths {
					if !terminates(p.body) {
						return cont(unk(c, s, "block test with an else branch whose then-branch falls through"))
					}
				}
				rest = cat(blockList(st.Else), rest)
			}
			restPaths := c.conv(rest, inBlk, depth+1)
			var out []path
			for _, tp := range thenPaths {
				for _, rp := range restPaths {
					lbl := rp.label
					if tp.label != "" {
						lbl = "b" + tp.label + rp.label
					}
					out = append(out, path{lbl, append([]Stmt{{Kind: "ifBlocked", Then: tp.body}}, rp.body...)})
				}
			}
			return out
		}
		if fc.entryCall || fc.next || fc.entryMention || fc.blkMention || fc.localCall {
			return cont(unk(c, s, "condition involves the entry / block error / handler"))
		}
		fb := c.scan(st.Body)
		fe := facts{}
		if st.Else != nil {
			fe = c.scan(st.Else)
		}
		if !fb.interesting() && !fe.interesting() && !fb.localCall && !fe.localCall && !(inBlk && (fb.anyCall || fe.anyCall)) {
			if why := c.misguards(st); len(why) > 0 {
				// e.g. the resource extractor called under the nil-test of another option
				return cont(Stmt{Kind: "badGuard", Why: strings.Join(why, "; ")})
			}
			return cont() // nothing of interest under this test (resource-name extraction and the like)
		}
		// opaque test: both continuations; the entry binding made in one arm must not leak into the other
		saved := *c
		a := c.conv(cat(st.Body.List, rest), inBlk, depth+1)
		*c = saved
		b := c.conv(cat(blockList(st.Else), rest), inBlk, depth+1)
		*c = saved
		return fork("", a, b)

	default:
		// for / range / switch / select / go / labeled / goto / send …
		if f.interesting() || f.localCall {
			return cont(unk(c, s, fmt.Sprintf("%T involving the entry / handler / a return", s)))
		}
		if inBlk && f.anyCall {
			return cont(c.rejStmt(s))
		}
		return cont()
	}
}

// argsInteresting: the handler call's own arguments contain another handler call / Entry / entry method.
func (c *fnCtx) argsInteresting(call *ast.CallExpr) bool {
	for _, a := range call.Args {
		f := c.scan(a)
		if f.entryCall || f.next || f.entryDeref || f.entryExit || f.localCall {
			return true
		}
	}
	return false
}

// plain: an assignment / expression / declaration that is neither Entry, Exit nor a handler call.
func (c *fnCtx) plain(s ast.Stmt, f facts, rest []ast.Stmt, inBlk bool, depth int) []path {
	var pre []Stmt
	if f.localCall {
		pre = append(pre, unk(c, s, "call through a local variable"))
	}
	if f.entryExit {
		pre = append(pre, unk(c, s, "Exit inside an expression"))
	}
	if f.entryDeref {
		pre = append(pre, Stmt{Kind: "useEntry"})
	} else if f.entryMention && !f.anyCall {
		pre = append(pre, unk(c, s, "entry aliased"))
	}
	if inBlk && f.anyCall {
		pre = append(pre, c.rejStmt(s))
	} else if f.misguard {
		pre = append(pre, Stmt{Kind: "badGuard", Why: strings.Join(c.misguards(s), "; ")})
	}
	return prepend(pre, c.conv(rest, inBlk, depth+1))
}

// afterCall: `…, err := next(…)` was just seen; recognise the `if err != nil { TraceError(entry, err) … }` idiom.
func (c *fnCtx) afterCall(errVar *ast.Ident, rest []ast.Stmt, inBlk bool, depth int) []path {
	call := Stmt{Kind: "callNext", ErrBack: true}
	if errVar.Name == "_" || len(rest) == 0 {
		return prepend([]Stmt{call}, c.conv(rest, inBlk, depth+1))
	}
	ifs, ok := rest[0].(*ast.IfStmt)
	if !ok || ifs.Init != nil {
		return prepend([]Stmt{call}, c.conv(rest, inBlk, depth+1))
	}
	id, op, ok := cmpNil(ifs.Cond)
	if !ok || op != token.NEQ || id.Name != errVar.Name || (errVar.Obj != nil && id.Obj != errVar.Obj) {
		return prepend([]Stmt{call}, c.conv(rest, inBlk, depth+1))
	}
	var body []ast.Stmt
	for _, b := range ifs.Body.List {
		if es, ok := b.(*ast.ExprStmt); ok {
			if tc, ok := c.isAPICall(es.X, "TraceError"); ok && len(tc.Args) == 2 {
				a0, ok0 := tc.Args[0].(*ast.Ident)
				a1, ok1 := tc.Args[1].(*ast.Ident)
				if ok0 && ok1 && c.entry != nil && a0.Obj == c.entry && a1.Name == errVar.Name && !call.Trace && len(body) == 0 {
					call.Trace = true
					continue
				}
			}
		}
		body = append(body, b)
	}
	rest2 := rest[1:]
	if len(body) > 0 || ifs.Else != nil {
		cp := *ifs
		cp.Body = &ast.BlockStmt{List: body, Lbrace: ifs.Body.Lbrace, Rbrace: ifs.Body.Rbrace}
		cp.Cond = &ast.Ident{Name: "handlerFailed", NamePos: ifs.Cond.Pos()} // opaque from here on
		rest2 = cat([]ast.Stmt{&cp}, rest2)
	}
	return prepend([]Stmt{call}, c.conv(rest2, inBlk, depth+1))
}

func collapse(body []Stmt) []Stmt {
	var out []Stmt
	for _, s := range body {
		if s.Kind == "ifBlocked" {
			s.Then = collapse(s.Then)
		}
		if s.Kind == "reject" && len(out) > 0 && out[len(out)-1].Kind == "reject" {
			prev := out[len(out)-1]
			var alts [][]string
			for _, a := range prev.Alts {
				for _, b := range s.Alts {
					alts = append(alts, append(append([]string{}, a...), b...))
				}
			}
			out[len(out)-1] = Stmt{Kind: "reject", Alts: alts}
			continue
		}
		out = append(out, s)
	}
	return out
}

// skeleton: the text of a (collapsed) body with the callee names of its rejections erased.
func skeleton(body []Stmt) string {
	var sb []string
	for _, s := range body {
		switch s.Kind {
		case "ifBlocked":
			sb = append(sb, "ifBlocked [ "+skeleton(s.Then)+" ]")
		case "reject":
			sb = append(sb, "reject")
		case "callNext":
			sb = append(sb, "callNext:"+b01(s.ErrBack)+":"+b01(s.Trace))
		default:
			sb = append(sb, s.Kind)
		}
	}
	return strings.Join(sb, " ")
}

// mergeAlts: two bodies with the same skeleton become one whose rejections carry the alternatives of both.
func mergeAlts(a, b []Stmt) []Stmt {
	out := make([]Stmt, len(a))
	for i := range a {
		out[i] = a[i]
		switch a[i].Kind {
		case "ifBlocked":
			out[i].Then = mergeAlts(a[i].Then, b[i].Then)
		case "reject":
			alts := append([][]string{}, a[i].Alts...)
			for _, y := range b[i].Alts {
				dup := false
				for _, x := range alts {
					if strings.Join(x, "+") == strings.Join(y, "+") {
						dup = true
					}
				}
				if !dup {
					alts = append(alts, y)
				}
			}
			out[i].Alts = alts
		}
	}
	return out
}

// directEntry: does the body call sentinel.Entry outside any nested function literal?
func (c *fnCtx) directEntry(body *ast.BlockStmt) bool {
	found := false
	ast.Inspect(body, func(x ast.Node) bool {
		if _, ok := x.(*ast.FuncLit); ok {
			return false
		}
		if e, ok := x.(ast.Expr); ok {
			if _, ok := c.isAPICall(e, "Entry"); ok {
				found = true
			}
		}
		return true
	})
	return found
}

func addParams(m map[*ast.Object]bool, ft *ast.FuncType) {
	if ft == nil || ft.Params == nil {
		return
	}
	for _, f := range ft.Params.List {
		for _, n := range f.Names {
			if n.Obj != nil {
				m[n.Obj] = true
			}
		}
	}
}

func typeName(e ast.Expr) string {
	switch t := e.(type) {
	case *ast.StarExpr:
		return typeName(t.X)
	case *ast.Ident:
		return t.Name
	case *ast.IndexExpr:
		return typeName(t.X)
	case *ast.SelectorExpr:
		return t.Sel.Name
	}
	return ""
}

func (fc *fileCtx) walkFunc(rel, name string, ft *ast.FuncType, body *ast.BlockStmt, outer *fnCtx, out *[]Prog) {
	if body == nil {
		return
	}
	c := &fnCtx{fileCtx: fc, params: map[*ast.Object]bool{}, nextVia: map[string]bool{}}
	if outer != nil {
		for k := range outer.params {
			c.params[k] = true
		}
		c.recv, c.recvType = outer.recv, outer.recvType
	}
	addParams(c.params, ft)
	c.hasRes = ft != nil && ft.Results != nil && len(ft.Results.List) > 0
	if c.directEntry(body) {
		c.walkGuards(body, nil)
		ps := c.conv(body.List, false, 0)
		ps = dedupeCollapsed(ps)
		for _, p := range ps {
			key := rel + ":" + name
			if len(ps) > 1 {
				key += ":" + p.label
			}
			var via []string
			for k := range c.nextVia {
				via = append(via, k)
			}
			sort.Strings(via)
			fw := rel
			if i := strings.Index(rel, "/"); i >= 0 {
				fw = rel[:i]
			}
			*out = append(*out, Prog{Key: key, Fw: fw, NextVia: via, Pos: fc.fset.Position(body.Pos()).String(), Body: p.body})
		}
	}
	// nested literals, numbered in source order within this function
	n := 0
	var visit func(x ast.Node) bool
	visit = func(x ast.Node) bool {
		if lit, ok := x.(*ast.FuncLit); ok {
			n++
			saved := *c
			fc.walkFunc(rel, fmt.Sprintf("%s.func%d", name, n), lit.Type, lit.Body, &saved, out)
			return false
		}
		return true
	}
	ast.Inspect(body, visit)
}

func dedupeCollapsed(ps []path) []path {
	for i := range ps {
		ps[i].body = collapse(ps[i].body)
	}
	ps = dedupe(ps)
	// labels must be unique
	seen := map[string]int{}
	for i := range ps {
		seen[ps[i].label]++
		if seen[ps[i].label] > 1 {
			ps[i].label = fmt.Sprintf("%s~%d", ps[i].label, seen[ps[i].label])
		}
	}
	return ps
}

// Extract walks <repo>/pkg/adapters and returns one Prog per entry point arm, sorted by key.
func Extract(repo string) ([]Prog, error) {
	root := filepath.Join(repo, "pkg", "adapters")
	if _, err := os.Stat(root); err != nil {
		return nil, err
	}
	dirs := map[string][]string{}
	err := filepath.Walk(root, func(p string, info os.FileInfo, err error) error {
		if err != nil {
			return err
		}
		if !info.IsDir() && strings.HasSuffix(p, ".go") && !strings.HasSuffix(p, "_test.go") {
			dirs[filepath.Dir(p)] = append(dirs[filepath.Dir(p)], p)
		}
		return nil
	})
	if err != nil {
		return nil, err
	}
	var out []Prog
	var dnames []string
	for d := range dirs {
		dnames = append(dnames, d)
	}
	sort.Strings(dnames)
	for _, d := range dnames {
		fset := token.NewFileSet()
		files := map[string]*ast.File{}
		embedded := map[string]map[string]bool{}
		sort.Strings(dirs[d])
		for _, p := range dirs[d] {
			f, err := parser.ParseFile(fset, p, nil, 0)
			if err != nil {
				return nil, fmt.Errorf("parse %s: %v", p, err)
			}
			files[p] = f
			for _, decl := range f.Decls {
				gd, ok := decl.(*ast.GenDecl)
				if !ok {
					continue
				}
				for _, sp := range gd.Specs {
					ts, ok := sp.(*ast.TypeSpec)
					if !ok {
						continue
					}
					stt, ok := ts.Type.(*ast.StructType)
					if !ok {
						continue
					}
					for _, fld := range stt.Fields.List {
						if len(fld.Names) == 0 {
							if embedded[ts.Name.Name] == nil {
								embedded[ts.Name.Name] = map[string]bool{}
							}
							embedded[ts.Name.Name][typeName(fld.Type)] = true
						}
					}
				}
			}
		}
		for _, p := range dirs[d] {
			f := files[p]
			fc := &fileCtx{fset: fset, apiNames: map[string]bool{}, embedded: embedded, misguard: map[*ast.CallExpr]string{}}
			for _, im := range f.Imports {
				if strings.Trim(im.Path.Value, `"`) == apiPath {
					nm := "api"
					if im.Name != nil {
						nm = im.Name.Name
					}
					fc.apiNames[nm] = true
				}
			}
			if len(fc.apiNames) == 0 {
				continue
			}
			rel, _ := filepath.Rel(root, p)
			rel = filepath.ToSlash(rel)
			for _, decl := range f.Decls {
				fd, ok := decl.(*ast.FuncDecl)
				if !ok {
					continue
				}
				name := fd.Name.Name
				outer := &fnCtx{fileCtx: fc, params: map[*ast.Object]bool{}}
				if fd.Recv != nil && len(fd.Recv.List) == 1 {
					outer.recvType = typeName(fd.Recv.List[0].Type)
					name = outer.recvType + "." + name
					if len(fd.Recv.List[0].Names) == 1 {
						outer.recv = fd.Recv.List[0].Names[0].Obj
					}
				}
				fc.walkFunc(rel, name, fd.Type, fd.Body, outer, &out)
			}
		}
	}
	sort.Slice(out, func(i, j int) bool { return out[i].Key < out[j].Key })
	return out, nil
}
