// Package c18 interprets the C18 op language against the real packages (stub).
package c18

import "verifharness/internal/vh"

// New returns the interpreter for C18.
func New() vh.Interp { return nil }
