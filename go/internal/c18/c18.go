// Package c18 interprets the C18 op language against the real ext/datasource package and the five
// real rule managers.
//
//	ds.handle <module> <hex payload | ->        => ok|err <module's GetRules, canonical>
//	ds.deliver <module> <hex payload | ->       => ok|err <rules>   (through a datasource.Base with the module's handler registered,
//	                                               the payload copied into ONE long-lived buffer per case, as a datasource with a reused
//	                                               read buffer does: buf = append(buf[:0], payload...); base.Handle(buf))
//	ds.custom <conv> <upd>                      => ok|err|escaped applied=<v|none> upd=<n>
//	                                               one delivery on a per-case handler built with datasource.NewDefaultPropertyHandler(conv, updater)
//	                                               whose converter and updater are scripted for this delivery:
//	                                               conv ∈ nil | ok:<k> | err | panic:err | panic:str | panic:deref   (what the converter does)
//	                                               upd  ∈ ok | err | panic:err | panic:str | panic:deref            (what the updater does if called)
//	                                               `escaped` = a panic came out of Handle; applied = the value the updater last applied,
//	                                               upd = how often the updater has been called
//	ds.mode <module> val|bad                    (before any delivery on the module) the module's handler is built with
//	                                               datasource.NewDefaultPropertyHandler(conv', the module's real updater) where conv' runs the real parser and
//	                                               val: hands the updater a VALUE slice ([]flow.Rule …, nil elements become zero rules; cb's updater rejects that type)
//	                                               bad: hands it a property of a wrong type (a string): the updater's type-assertion error path
//	base.remove <module> | base.add <module>    RemovePropertyHandler / AddPropertyHandler on the module's Base (add twice, add/remove nil: no-ops)
//	specstr <kind> <hex>                        => hex of (&SpecificValue{ValKind: kind, ValStr: …}).String()
//	rules <module>                              => <GetRules, canonical>
//	tags <module>                               => GoField:kind:jsonname[,omitempty];…   (reflection on the wire type)
//	file.new <module> <hex | none>              => ok|err <rules>      (real temp file + fsnotify; thorough tier)
//	file.write <hex> | file.remove | file.rename => <rules>            (after a bounded wait for the watcher)
//	file.truncwrite <hex>                       => <rules>   (os.WriteFile: O_TRUNC, then the bytes)
//	file.rename                                 => <rules>   (renamed away; the watcher clears and starts its re-watch retries)
//	file.recreate <hex>                         => <rules>   (a complete new file at the path while the retries are pending)
//	file.renameback                             => <rules>   (the SAME file renamed back unchanged - same size, same mtime - while the retries are pending)
//	file.recreatep <hex>                        => <rules>   (like file.recreate, the new file given the mtime of the file that was renamed away: cp -p / rsync -t)
//	file.rewrite <hex>                          => <rules>   (in-place rewrite; the watcher is parked in a handler call meanwhile and the mtime is
//	                                               put back with os.Chtimes: same size if the content has the same length, identical mtime)
//	file.giveup                                 => <rules>   (nothing re-appears: the six retries run out, the source closes)
//	file.replace <hex>                          => <rules>   (temp file + rename over the path, as editors / config tools do)
//	file.close
//
// The watcher's one-second pauses between re-watch attempts go through util.Sleep; the interpreter installs a gated
// clock so that it decides when a pause ends (no real waiting, deterministic interleaving).
//
// module ∈ flow | system | cb | isolation | hotspot.  Strings are printed as s<hex>, floats as bit patterns,
// the rule list is sorted.
package c18

import (
	"encoding/hex"
	"fmt"
	"os"
	"path/filepath"
	"reflect"
	"sort"
	"strings"
	"sync/atomic"
	"time"

	cb "github.com/alibaba/sentinel-golang/core/circuitbreaker"
	"github.com/alibaba/sentinel-golang/core/flow"
	"github.com/alibaba/sentinel-golang/core/hotspot"
	"github.com/alibaba/sentinel-golang/core/isolation"
	"github.com/alibaba/sentinel-golang/core/stat"
	"github.com/alibaba/sentinel-golang/core/system"
	"github.com/alibaba/sentinel-golang/ext/datasource"
	"github.com/alibaba/sentinel-golang/ext/datasource/file"
	"github.com/alibaba/sentinel-golang/util"
	"verifharness/internal/vh"
)

type Interp struct {
	handlers map[string]datasource.PropertyHandler
	// one Base per module (the same handler object as ds.handle uses) and one delivery buffer per case
	bases map[string]*datasource.Base
	// scripted handler (ds.custom)
	custom    *datasource.DefaultPropertyHandler
	cConv     string
	cUpd      string
	cApplied  string
	cUpdCalls int
	// the file datasource object, kept for file.reinit even when the first Initialize failed
	fdsInit *file.RefreshableFileDataSource
	buf   []byte
	// file datasource state
	dir   string
	path  string
	fds   *file.RefreshableFileDataSource
	fmod  string
	count *int64
	// the watcher goroutine stops looking after a removal
	removed bool
	// the watcher goroutine sits in its re-watch retry loop
	rewatching bool
	clk        *gateClock
	gate       *holdGate
}

// gateClock is the real clock except for Sleep: a sleeper announces itself and waits until the harness releases it
// (bounded: it gives up waiting after 5 s so that a forgotten goroutine cannot hang for ever).
type gateClock struct {
	util.RealClock
	sleeping chan struct{}
	release  chan struct{}
}

func newGateClock() *gateClock {
	return &gateClock{sleeping: make(chan struct{}, 16), release: make(chan struct{})}
}

func (c *gateClock) Sleep(d time.Duration) {
	select {
	case c.sleeping <- struct{}{}:
	default:
	}
	select {
	case <-c.release:
	case <-time.After(5 * time.Second):
	}
}

// waitSleeping waits (bounded) until some goroutine is inside Sleep.
func (c *gateClock) waitSleeping(d time.Duration) bool {
	select {
	case <-c.sleeping:
		return true
	case <-time.After(d):
		return false
	}
}

// releaseOne lets one sleeper go on (bounded).
func (c *gateClock) releaseOne(d time.Duration) bool {
	select {
	case c.release <- struct{}{}:
		return true
	case <-time.After(d):
		return false
	}
}

// writeInPlace replaces the file's content without ever making it shorter than a prefix of the new content followed
// by old bytes (one write, then a truncate only when shrinking), so that whatever the watcher reads in between is
// either the final content or undecodable.  Reports whether the watcher is expected to call the handler.
func (it *Interp) writeInPlace(b []byte) bool {
	if it.removed {
		_ = os.WriteFile(it.path, b, 0o644) // re-created: nobody is watching any more
		return false
	}
	st, err := os.Stat(it.path)
	if err != nil {
		panic(err)
	}
	f, err := os.OpenFile(it.path, os.O_WRONLY, 0o644)
	if err != nil {
		panic(err)
	}
	defer f.Close()
	events := false
	if len(b) > 0 {
		if _, err := f.Write(b); err != nil {
			panic(err)
		}
		events = true
	}
	if st.Size() > int64(len(b)) {
		if err := f.Truncate(int64(len(b))); err != nil {
			panic(err)
		}
		events = true
	}
	return events
}

func New() vh.Interp {
	vh.Silence()
	return &Interp{}
}

func clearAll() {
	_ = flow.ClearRules()
	_ = system.ClearRules()
	_ = cb.ClearRules()
	_ = isolation.ClearRules()
	_ = hotspot.ClearRules()
	stat.ResetResourceNodeMap()
}

func (it *Interp) closeFile() {
	if it.fds != nil {
		if it.rewatching {
			// the watcher goroutine is inside its retry loop and would never receive from closeChan: let the retries run out
			// instead (it then closes itself); Close() from here would block for ever
			for i := 0; i < 7; i++ {
				if !it.clk.releaseOne(300 * time.Millisecond) {
					break
				}
				it.clk.waitSleeping(300 * time.Millisecond)
			}
			it.rewatching = false
		} else {
			_ = it.fds.Close()
		}
		it.fds = nil
	}
	if it.dir != "" {
		_ = os.RemoveAll(it.dir)
		it.dir = ""
	}
}

func (it *Interp) Reset() {
	it.closeFile()
	it.clk = newGateClock()
	util.SetClock(it.clk)
	it.rewatching = false
	clearAll()
	it.handlers = map[string]datasource.PropertyHandler{}
	it.bases = map[string]*datasource.Base{}
	it.custom, it.cApplied, it.cUpdCalls, it.fdsInit = nil, "none", 0, nil
	it.buf = make([]byte, 0, 256)
}

func newHandler(mod string) datasource.PropertyHandler {
	switch mod {
	case "flow":
		return datasource.NewFlowRulesHandler(datasource.FlowRuleJsonArrayParser)
	case "system":
		return datasource.NewSystemRulesHandler(datasource.SystemRuleJsonArrayParser)
	case "cb":
		return datasource.NewCircuitBreakerRulesHandler(datasource.CircuitBreakerRuleJsonArrayParser)
	case "isolation":
		return datasource.NewIsolationRulesHandler(datasource.IsolationRuleJsonArrayParser)
	case "hotspot":
		return datasource.NewHotSpotParamRulesHandler(datasource.HotSpotParamRuleJsonArrayParser)
	}
	panic("bad module " + mod)
}

func updaterOf(mod string) datasource.PropertyUpdater {
	switch mod {
	case "flow":
		return datasource.FlowRulesUpdater
	case "system":
		return datasource.SystemRulesUpdater
	case "cb":
		return datasource.CircuitBreakerRulesUpdater
	case "isolation":
		return datasource.IsolationRulesUpdater
	case "hotspot":
		return datasource.HotSpotParamRulesUpdater
	}
	panic("bad module " + mod)
}

func parserOf(mod string) datasource.PropertyConverter {
	switch mod {
	case "flow":
		return datasource.FlowRuleJsonArrayParser
	case "system":
		return datasource.SystemRuleJsonArrayParser
	case "cb":
		return datasource.CircuitBreakerRuleJsonArrayParser
	case "isolation":
		return datasource.IsolationRuleJsonArrayParser
	case "hotspot":
		return datasource.HotSpotParamRuleJsonArrayParser
	}
	panic("bad module " + mod)
}

// derefSlice turns a []*T into a []T (nil elements become zero values, a nil slice a nil slice).
func derefSlice(v interface{}) interface{} {
	rv := reflect.ValueOf(v)
	et := rv.Type().Elem().Elem()
	if rv.IsNil() {
		return reflect.Zero(reflect.SliceOf(et)).Interface()
	}
	out := reflect.MakeSlice(reflect.SliceOf(et), 0, rv.Len())
	for i := 0; i < rv.Len(); i++ {
		if e := rv.Index(i); e.IsNil() {
			out = reflect.Append(out, reflect.Zero(et))
		} else {
			out = reflect.Append(out, e.Elem())
		}
	}
	return out.Interface()
}

func modeHandler(mod, mode string) datasource.PropertyHandler {
	parse := parserOf(mod)
	conv := func(src []byte) (interface{}, error) {
		v, err := parse(src)
		if err != nil || v == nil {
			return v, err
		}
		if mode == "val" {
			return derefSlice(v), nil
		}
		return "a property of the wrong type", nil
	}
	return datasource.NewDefaultPropertyHandler(conv, updaterOf(mod))
}

func (it *Interp) base(mod string) *datasource.Base {
	b, ok := it.bases[mod]
	if !ok {
		b = &datasource.Base{}
		b.AddPropertyHandler(it.handler(mod))
		it.bases[mod] = b
	}
	return b
}

func (it *Interp) handler(mod string) datasource.PropertyHandler {
	h, ok := it.handlers[mod]
	if !ok {
		h = newHandler(mod)
		it.handlers[mod] = h
	}
	return h
}

func s(x string) string { return "s" + hex.EncodeToString([]byte(x)) }

func specific(m map[interface{}]int64) string {
	xs := make([]string, 0, len(m))
	for k, v := range m {
		var ks string
		switch kk := k.(type) {
		case int:
			ks = fmt.Sprintf("i:%d", kk)
		case string:
			ks = "s:" + hex.EncodeToString([]byte(kk))
		case bool:
			if kk {
				ks = "b:1"
			} else {
				ks = "b:0"
			}
		case float64:
			ks = vh.FBits(kk)
		default:
			ks = fmt.Sprintf("?:%v", kk)
		}
		xs = append(xs, fmt.Sprintf("%s=%d", ks, v))
	}
	sort.Strings(xs)
	if m == nil {
		return "nil"
	}
	return "<" + strings.Join(xs, "|") + ">"
}

func rules(mod string) string {
	var xs []string
	switch mod {
	case "flow":
		for _, r := range flow.GetRules() {
			xs = append(xs, fmt.Sprintf("{%s,%s,%d,%d,%s,%d,%s,%d,%d,%d,%d,%d,%d,%d,%d}", s(r.ID), s(r.Resource), r.TokenCalculateStrategy, r.ControlBehavior,
				vh.FBits(r.Threshold), r.RelationStrategy, s(r.RefResource), r.MaxQueueingTimeMs, r.WarmUpPeriodSec, r.WarmUpColdFactor, r.StatIntervalInMs,
				r.LowMemUsageThreshold, r.HighMemUsageThreshold, r.MemLowWaterMarkBytes, r.MemHighWaterMarkBytes))
		}
	case "system":
		for _, r := range system.GetRules() {
			xs = append(xs, fmt.Sprintf("{%s,%d,%s,%d}", s(r.ID), r.MetricType, vh.FBits(r.TriggerCount), r.Strategy))
		}
	case "cb":
		for _, r := range cb.GetRules() {
			xs = append(xs, fmt.Sprintf("{%s,%s,%d,%d,%d,%d,%d,%d,%s,%d}", s(r.Id), s(r.Resource), r.Strategy, r.RetryTimeoutMs, r.MinRequestAmount, r.StatIntervalMs,
				r.StatSlidingWindowBucketCount, r.MaxAllowedRtMs, vh.FBits(r.Threshold), r.ProbeNum))
		}
	case "isolation":
		for _, r := range isolation.GetRules() {
			xs = append(xs, fmt.Sprintf("{%s,%s,%d,%d}", s(r.ID), s(r.Resource), r.MetricType, r.Threshold))
		}
	case "hotspot":
		for _, r := range hotspot.GetRules() {
			xs = append(xs, fmt.Sprintf("{%s,%s,%d,%d,%d,%s,%d,%d,%d,%d,%d,%s}", s(r.ID), s(r.Resource), r.MetricType, r.ControlBehavior, r.ParamIndex, s(r.ParamKey),
				r.Threshold, r.MaxQueueingTimeMs, r.BurstCount, r.DurationInSec, r.ParamsMaxCapacity, specific(r.SpecificItems)))
		}
	default:
		panic("bad module " + mod)
	}
	sort.Strings(xs)
	return "[" + strings.Join(xs, ";") + "]"
}

func wireType(mod string) reflect.Type {
	switch mod {
	case "flow":
		return reflect.TypeOf(flow.Rule{})
	case "system":
		return reflect.TypeOf(system.Rule{})
	case "cb":
		return reflect.TypeOf(cb.Rule{})
	case "isolation":
		return reflect.TypeOf(isolation.Rule{})
	case "hotspot":
		return reflect.TypeOf(datasource.HotspotRule{})
	case "specific":
		return reflect.TypeOf(datasource.SpecificValue{})
	case "hotspot.core":
		return reflect.TypeOf(hotspot.Rule{})
	}
	panic("bad module " + mod)
}

func tags(mod string) string {
	t := wireType(mod)
	xs := make([]string, 0, t.NumField())
	for i := 0; i < t.NumField(); i++ {
		f := t.Field(i)
		k := f.Type.Kind().String()
		if f.Type.Kind() == reflect.Slice {
			k = "slice." + f.Type.Elem().Kind().String()
		}
		xs = append(xs, f.Name+":"+k+":"+f.Tag.Get("json"))
	}
	return strings.Join(xs, ";")
}

func payload(tok string) []byte {
	if tok == "-" {
		return nil
	}
	b, err := hex.DecodeString(tok)
	if err != nil {
		panic("bad hex payload")
	}
	return b
}

// counting wraps the real handler (embedding promotes the unexported interface method) so that the
// harness can tell when the watcher goroutine has delivered something.
type counting struct {
	*datasource.DefaultPropertyHandler
	n *int64
	g *holdGate
}

// holdGate lets the harness park the watcher goroutine inside one handler call (after the real Handle returned), so
// that a change of the file made meanwhile is looked at only afterwards: deterministic interleaving, bounded waits.
type holdGate struct {
	armed  int32
	held   chan struct{}
	resume chan struct{}
}

func newHoldGate() *holdGate { return &holdGate{held: make(chan struct{}, 1), resume: make(chan struct{})} }

func (c counting) Handle(src []byte) error {
	err := c.DefaultPropertyHandler.Handle(src)
	atomic.AddInt64(c.n, 1)
	if c.g != nil && atomic.CompareAndSwapInt32(&c.g.armed, 1, 0) {
		c.g.held <- struct{}{}
		select {
		case <-c.g.resume:
		case <-time.After(3 * time.Second):
		}
	}
	return err
}

// settle waits (bounded) until the handler has been invoked at least once more than `before` and then until
// no further invocation happens for 40 ms.
func (it *Interp) settle(before int64, need bool) { it.settleFor(before, need, 3*time.Second) }

func (it *Interp) settleFor(before int64, need bool, bound time.Duration) {
	deadline := time.Now().Add(bound)
	if need {
		for atomic.LoadInt64(it.count) == before && time.Now().Before(deadline) {
			time.Sleep(2 * time.Millisecond)
		}
	}
	last := atomic.LoadInt64(it.count)
	quiet := time.Now()
	for time.Now().Before(deadline) {
		time.Sleep(5 * time.Millisecond)
		if c := atomic.LoadInt64(it.count); c != last {
			last, quiet = c, time.Now()
		} else if time.Since(quiet) > 40*time.Millisecond {
			return
		}
	}
}

// doPanic panics with a value of the requested kind: an error, a string, or a genuine nil-dereference runtime error.
func doPanic(kind string) {
	switch kind {
	case "panic:err":
		panic(fmt.Errorf("scripted error panic"))
	case "panic:str":
		panic("scripted string panic")
	case "panic:deref":
		var p *struct{ x int }
		_ = p.x
	}
	panic("bad panic kind " + kind)
}

func (it *Interp) customHandle() (res string) {
	if it.custom == nil {
		conv := func(src []byte) (interface{}, error) {
			c := it.cConv
			switch {
			case c == "nil":
				return nil, nil
			case strings.HasPrefix(c, "ok:"):
				return []int{int(vh.I(c[3:]))}, nil
			case c == "err":
				return nil, fmt.Errorf("scripted convert error")
			}
			doPanic(c)
			return nil, nil
		}
		upd := func(data interface{}) error {
			it.cUpdCalls++
			switch it.cUpd {
			case "ok":
				if data == nil {
					it.cApplied = "nil"
				} else {
					it.cApplied = fmt.Sprint(data.([]int)[0])
				}
				return nil
			case "err":
				return fmt.Errorf("scripted update error")
			}
			doPanic(it.cUpd)
			return nil
		}
		it.custom = datasource.NewDefaultPropertyHandler(conv, upd)
	}
	defer func() {
		if r := recover(); r != nil {
			res = "escaped"
		}
	}()
	if err := it.custom.Handle([]byte("x")); err != nil {
		return "err"
	}
	return "ok"
}

func (it *Interp) Step(t []string, op string) string {
	switch t[0] {
	case "ds.custom":
		it.cConv, it.cUpd = t[1], t[2]
		r := it.customHandle()
		return fmt.Sprintf("%s applied=%s upd=%d", r, it.cApplied, it.cUpdCalls)
	case "file.reinit":
		if it.fdsInit == nil {
			panic("file.reinit without file.new")
		}
		if err := it.fdsInit.Initialize(); err != nil {
			return "err " + rules(it.fmod)
		}
		return "ok " + rules(it.fmod)
	case "ds.handle":
		err := it.handler(t[1]).Handle(payload(t[2]))
		if err != nil {
			return "err " + rules(t[1])
		}
		return "ok " + rules(t[1])
	case "ds.mode":
		if _, ok := it.handlers[t[1]]; ok {
			panic("ds.mode after a delivery")
		}
		it.handlers[t[1]] = modeHandler(t[1], t[2])
		return ""
	case "base.remove":
		b := it.base(t[1])
		b.RemovePropertyHandler(nil)
		b.RemovePropertyHandler(it.handler(t[1]))
		b.RemovePropertyHandler(it.handler(t[1])) // not registered any more: no-op
		return ""
	case "base.add":
		b := it.base(t[1])
		b.AddPropertyHandler(nil)
		b.AddPropertyHandler(it.handler(t[1]))
		b.AddPropertyHandler(it.handler(t[1])) // already registered: no-op
		return ""
	case "specstr":
		sv := &datasource.SpecificValue{ValKind: datasource.ParamKind(vh.I(t[1])), ValStr: string(payload(t[2]))}
		return hex.EncodeToString([]byte(sv.String()))
	case "ds.deliver":
		b := it.base(t[1])
		it.buf = append(it.buf[:0], payload(t[2])...)
		if err := b.Handle(it.buf); err != nil {
			return "err " + rules(t[1])
		}
		return "ok " + rules(t[1])
	case "rules":
		return rules(t[1])
	case "tags":
		return tags(t[1])
	case "file.new":
		it.closeFile()
		// C18_TMP: a per-run parent directory that the check module removes when it exits (a shrunk case may lack its file.close)
		dir, err := os.MkdirTemp(os.Getenv("C18_TMP"), "c18-")
		if err != nil {
			panic(err)
		}
		it.dir, it.path, it.fmod, it.removed, it.rewatching = dir, filepath.Join(dir, "rules.json"), t[1], false, false
		if t[2] != "none" {
			if err := os.WriteFile(it.path, payload(t[2]), 0o644); err != nil {
				panic(err)
			}
		}
		var n int64
		it.count = &n
		h := newHandler(t[1]).(*datasource.DefaultPropertyHandler)
		it.gate = newHoldGate()
		it.fds = file.NewFileDataSource(it.path, counting{h, it.count, it.gate})
		it.fdsInit = it.fds
		if err := it.fds.Initialize(); err != nil {
			// no watcher goroutine exists: Close() would block for ever on the unbuffered closeChan
			it.fds = nil
			return "err " + rules(t[1])
		}
		return "ok " + rules(t[1])
	case "file.write":
		if it.fds == nil {
			return rules(it.fmod)
		}
		before := atomic.LoadInt64(it.count)
		it.settle(before, it.writeInPlace(payload(t[1])))
		return rules(it.fmod)
	case "file.remove":
		if it.fds == nil {
			return rules(it.fmod)
		}
		before := atomic.LoadInt64(it.count)
		err := os.Remove(it.path)
		it.settle(before, err == nil && !it.removed)
		it.removed = true
		return rules(it.fmod)
	case "file.truncwrite":
		if it.fds == nil {
			return rules(it.fmod)
		}
		before := atomic.LoadInt64(it.count)
		if err := os.WriteFile(it.path, payload(t[1]), 0o644); err != nil {
			panic(err)
		}
		it.settle(before, !it.removed && !it.rewatching)
		return rules(it.fmod)
	case "file.rename":
		if it.fds == nil || it.removed || it.rewatching {
			_ = os.Rename(it.path, it.path+".away")
			return rules(it.fmod)
		}
		if err := os.Rename(it.path, it.path+".away"); err != nil {
			panic(err)
		}
		// Rename event: Handle(nil), watcher.Remove, first watcher.Add fails, util.Sleep
		it.clk.waitSleeping(3 * time.Second)
		it.rewatching = true
		return rules(it.fmod)
	case "file.recreate":
		if it.fds == nil {
			return rules(it.fmod)
		}
		before := atomic.LoadInt64(it.count)
		if err := os.WriteFile(it.path, payload(t[1]), 0o644); err != nil {
			panic(err)
		}
		if it.rewatching {
			it.rewatching = false
			it.clk.releaseOne(time.Second)
			it.settleFor(before, true, 1200*time.Millisecond)
		}
		return rules(it.fmod)
	case "file.renameback", "file.recreatep":
		if it.fds == nil {
			return rules(it.fmod)
		}
		before := atomic.LoadInt64(it.count)
		if t[0] == "file.renameback" {
			if err := os.Rename(it.path+".away", it.path); err != nil {
				panic(err)
			}
		} else {
			if err := os.WriteFile(it.path, payload(t[1]), 0o644); err != nil {
				panic(err)
			}
			if st, err := os.Stat(it.path + ".away"); err == nil {
				_ = os.Chtimes(it.path, st.ModTime(), st.ModTime())
			}
		}
		if it.rewatching {
			it.rewatching = false
			it.clk.releaseOne(time.Second)
			it.settleFor(before, true, 1200*time.Millisecond)
		}
		return rules(it.fmod)
	case "file.rewrite":
		if it.fds == nil {
			return rules(it.fmod)
		}
		if it.removed || it.rewatching {
			_ = os.WriteFile(it.path, payload(t[1]), 0o644)
			return rules(it.fmod)
		}
		cur, err := os.ReadFile(it.path)
		if err != nil {
			panic(err)
		}
		// park the watcher in a handler call: rewrite the current content (an event, a delivery, the call is held)
		held := false
		if len(cur) > 0 {
			atomic.StoreInt32(&it.gate.armed, 1)
			it.writeInPlace(cur)
			select {
			case <-it.gate.held:
				held = true
			case <-time.After(2 * time.Second):
				atomic.StoreInt32(&it.gate.armed, 0)
			}
		}
		st, err := os.Stat(it.path)
		if err != nil {
			panic(err)
		}
		before := atomic.LoadInt64(it.count)
		need := it.writeInPlace(payload(t[1]))
		_ = os.Chtimes(it.path, st.ModTime(), st.ModTime()) // identical mtime (and an event of its own)
		if held {
			select {
			case it.gate.resume <- struct{}{}:
			case <-time.After(time.Second):
			}
		}
		it.settle(before, need || true)
		return rules(it.fmod)
	case "file.giveup":
		if it.fds == nil || !it.rewatching {
			return rules(it.fmod)
		}
		for i := 0; i < 7; i++ {
			if !it.clk.releaseOne(300 * time.Millisecond) {
				break
			}
			it.clk.waitSleeping(300 * time.Millisecond)
		}
		it.rewatching, it.removed = false, true
		return rules(it.fmod)
	case "file.replace":
		if it.fds == nil {
			return rules(it.fmod)
		}
		before := atomic.LoadInt64(it.count)
		tmp := it.path + ".tmp"
		if err := os.WriteFile(tmp, payload(t[1]), 0o644); err != nil {
			panic(err)
		}
		if err := os.Rename(tmp, it.path); err != nil {
			panic(err)
		}
		if it.rewatching { // nothing is watched at the moment: the same as a re-creation
			it.rewatching = false
			it.clk.releaseOne(time.Second)
			it.settleFor(before, true, 1200*time.Millisecond)
		} else if !it.removed {
			// two handler calls are expected (Chmod => read of the new file, Remove => Handle(nil)); wait for both (bounded)
			deadline := time.Now().Add(time.Second)
			for atomic.LoadInt64(it.count) < before+2 && time.Now().Before(deadline) {
				time.Sleep(2 * time.Millisecond)
			}
			it.settle(before, true)
			it.removed = true // the watched inode is gone: the source closes itself
		}
		return rules(it.fmod)
	case "file.close":
		it.closeFile()
		return ""
	}
	panic("bad op " + op)
}
