// Package c03 interprets the C03 op language against the real packages (stub).
package c03

import "verifharness/internal/vh"

// New returns the interpreter for C03.
func New() vh.Interp { return nil }
