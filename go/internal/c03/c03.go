// Package c03 interprets the C03 op language against the real packages: circuitbreaker.LoadRules,
// api.Entry / api.TraceError / Exit, a registered StateChangeListener, virtual clock.
package c03

import (
	"errors"
	"fmt"
	"runtime"
	"runtime/debug"
	"strconv"
	"strings"

	"github.com/alibaba/sentinel-golang/api"
	"github.com/alibaba/sentinel-golang/core/base"
	"github.com/alibaba/sentinel-golang/core/circuitbreaker"
	"github.com/alibaba/sentinel-golang/core/flow"
	"github.com/alibaba/sentinel-golang/core/hotspot"
	"github.com/alibaba/sentinel-golang/core/isolation"
	"github.com/alibaba/sentinel-golang/core/stat"
	"github.com/alibaba/sentinel-golang/core/system"
	"verifharness/internal/vh"
)

type Interp struct {
	clk     *vh.Clock
	rules   []*circuitbreaker.Rule
	live    map[uint64]*base.SentinelEntry
	pending []string
	state   map[string]string // rule id -> C/H/O as told by the listener
	next    int
}

var errBiz = errors.New("biz")

// blockerRes always rejects (flow rule with threshold 0): the source of genuine *base.BlockError values
const blockerRes = "c03-blocker"

// nilErr: a nil *nilErr stored in an error interface is a non-nil error
type nilErr struct{}

func (e *nilErr) Error() string { return "nil-typed error" }

func New() vh.Interp {
	runtime.GOMAXPROCS(1)
	runtime.LockOSThread()
	debug.SetGCPercent(-1)
	vh.Silence()
	it := &Interp{clk: vh.NewClock(1_900_000_000_000)}
	return it
}

func (it *Interp) Reset() {
	_, _ = circuitbreaker.LoadRules(nil)
	circuitbreaker.ClearStateChangeListeners()
	_, _ = flow.LoadRules([]*flow.Rule{{Resource: blockerRes, Threshold: 0, TokenCalculateStrategy: flow.Direct,
		ControlBehavior: flow.Reject, StatIntervalInMs: 1000}})
	_, _ = isolation.LoadRules(nil)
	_, _ = hotspot.LoadRules(nil)
	_, _ = system.LoadRules(nil)
	stat.ResetResourceNodeMap()
	it.rules = nil
	it.live = map[uint64]*base.SentinelEntry{}
	it.pending = nil
	it.state = map[string]string{}
	it.next = 0
	it.clk.SetMs(0)
	circuitbreaker.RegisterStateChangeListeners(&listener{it})
}

func stCh(s circuitbreaker.State) string {
	switch s {
	case circuitbreaker.Closed:
		return "C"
	case circuitbreaker.HalfOpen:
		return "H"
	case circuitbreaker.Open:
		return "O"
	}
	return "?"
}

type listener struct{ it *Interp }

func (l *listener) OnTransformToClosed(prev circuitbreaker.State, rule circuitbreaker.Rule) {
	l.it.pending = append(l.it.pending, fmt.Sprintf("%s:%sC", rule.Id, stCh(prev)))
	l.it.state[rule.Id] = "C"
}

func (l *listener) OnTransformToOpen(prev circuitbreaker.State, rule circuitbreaker.Rule, snapshot interface{}) {
	var sn string
	switch v := snapshot.(type) {
	case float64:
		sn = vh.FBits(v)
	case uint64:
		sn = "u" + strconv.FormatUint(v, 10)
	case int:
		sn = "i" + strconv.Itoa(v)
	default:
		sn = fmt.Sprintf("?%T", snapshot)
	}
	l.it.pending = append(l.it.pending, fmt.Sprintf("%s:%sO:%s", rule.Id, stCh(prev), sn))
	l.it.state[rule.Id] = "O"
}

func (l *listener) OnTransformToHalfOpen(prev circuitbreaker.State, rule circuitbreaker.Rule) {
	l.it.pending = append(l.it.pending, fmt.Sprintf("%s:%sH", rule.Id, stCh(prev)))
	l.it.state[rule.Id] = "H"
}

func parseRule(idx int, s string) *circuitbreaker.Rule {
	f := strings.Split(s, ",")
	if len(f) != 9 {
		panic("bad rule " + s)
	}
	thr, ok := vh.ParseFBits(f[7])
	if !ok {
		panic("bad threshold " + f[7])
	}
	return &circuitbreaker.Rule{
		Id:                           strconv.Itoa(idx),
		Resource:                     f[0],
		Strategy:                     circuitbreaker.Strategy(vh.U(f[1])),
		RetryTimeoutMs:               uint32(vh.U(f[2])),
		MinRequestAmount:             vh.U(f[3]),
		StatIntervalMs:               uint32(vh.U(f[4])),
		StatSlidingWindowBucketCount: uint32(vh.U(f[5])),
		MaxAllowedRtMs:               vh.U(f[6]),
		Threshold:                    thr,
		ProbeNum:                     vh.U(f[8]),
	}
}

func (it *Interp) Step(t []string, op string) string {
	switch t[0] {
	case "clock":
		ms := vh.U(t[1])
		if ms == 0 || ms < it.clk.CurrentTimeMillis() {
			return "bad-op"
		}
		it.clk.SetMs(ms)
		return ""
	case "load", "loadres":
		// LoadRules / LoadRulesOfResource at any point of the history.  Valid rules are numbered
		// consecutively over all loads (the Id travels with the rule object a breaker is bound to).
		if it.clk.CurrentTimeMillis() == 0 {
			return "bad-op"
		}
		toks := t[1:]
		res := ""
		if t[0] == "loadres" {
			if len(t) < 2 || t[1] == "" {
				return "bad-op"
			}
			res = t[1]
			toks = t[2:]
		}
		var rules []*circuitbreaker.Rule
		nvalid := 0
		for _, s := range toks {
			r := parseRule(0, s)
			if t[0] == "loadres" && r.Resource != res {
				return "bad-op"
			}
			if circuitbreaker.IsValidRule(r) == nil {
				r.Id = strconv.Itoa(it.next + nvalid)
				nvalid++
			} else {
				r.Id = "x"
			}
			rules = append(rules, r)
		}
		for _, r := range rules {
			if r.Id != "x" {
				it.rules = append(it.rules, r)
				it.state[r.Id] = "C"
			}
		}
		it.next += nvalid
		var err error
		if t[0] == "load" {
			_, err = circuitbreaker.LoadRules(rules)
		} else {
			_, err = circuitbreaker.LoadRulesOfResource(res, rules)
		}
		if err != nil {
			return "err"
		}
		return strconv.Itoa(nvalid)
	case "entry":
		id := vh.U(t[1])
		var opts []api.EntryOption
		if len(t) > 3 {
			// `#<n>` = WithBatchCount(n); the breaker must count the entry as one request whatever n is
			if len(t) != 4 || !strings.HasPrefix(t[3], "#") {
				return "bad-op"
			}
			opts = append(opts, api.WithBatchCount(uint32(vh.U(t[3][1:]))))
		}
		e, b := api.Entry(t[2], opts...)
		if b != nil {
			if b.BlockType() != base.BlockTypeCircuitBreaking {
				return "block-other " + b.BlockType().String()
			}
			r, ok := b.TriggeredRule().(*circuitbreaker.Rule)
			if !ok || r == nil {
				return "block ?"
			}
			return "block " + r.Id
		}
		it.live[id] = e
		return "pass"
	case "clearres":
		// ClearRulesOfResource(res): for a resource without rules this must be invisible to everybody else
		if len(t) != 2 || it.clk.CurrentTimeMillis() == 0 {
			return "bad-op"
		}
		if err := circuitbreaker.ClearRulesOfResource(t[1]); err != nil {
			return "err"
		}
		return ""
	case "exit":
		// exit <id> [err[:<type>:<how>]] - every non-nil error makes the completion an error completion,
		// whatever its dynamic type (plain | wrapped | block = *base.BlockError of a really blocked entry |
		// niltyped = non-nil interface holding a nil pointer) and however it is reported
		// (trace = api.TraceError | exitopt = Exit(WithError) | seterr = entry.SetError).
		id := vh.U(t[1])
		var err error
		how := "trace"
		if len(t) > 3 {
			return "bad-op"
		}
		if len(t) == 3 {
			f := strings.Split(t[2], ":")
			if f[0] != "err" || (len(f) != 1 && len(f) != 3) {
				return "bad-op"
			}
			typ := "plain"
			if len(f) == 3 {
				typ, how = f[1], f[2]
			}
			switch typ {
			case "plain":
				err = errBiz
			case "wrapped":
				err = fmt.Errorf("call failed: %w", errBiz)
			case "block":
				_, b := api.Entry(blockerRes)
				if b == nil {
					panic("blocker resource did not block")
				}
				err = b
			case "niltyped":
				var p *nilErr
				err = p
			default:
				return "bad-op"
			}
			if how != "trace" && how != "exitopt" && how != "seterr" {
				return "bad-op"
			}
		}
		e := it.live[id]
		if e == nil {
			return ""
		}
		delete(it.live, id)
		switch {
		case err == nil:
			e.Exit()
		case how == "trace":
			api.TraceError(e, err)
			e.Exit()
		case how == "seterr":
			e.SetError(err)
			e.Exit()
		default:
			e.Exit(base.WithError(err))
		}
		return ""
	case "state":
		var xs []string
		for _, r := range it.rules {
			if r.Resource != t[1] {
				continue
			}
			if s, ok := it.state[r.Id]; ok {
				xs = append(xs, r.Id+s)
			}
		}
		return vh.List(xs)
	case "log":
		xs := it.pending
		it.pending = nil
		return vh.List(xs)
	}
	return "bad-op"
}
