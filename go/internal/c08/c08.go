// Package c08 interprets the C08 op language against the real core/stat/base package.
package c08

import (
	"fmt"
	"sort"
	"strings"

	"github.com/alibaba/sentinel-golang/core/base"
	"github.com/alibaba/sentinel-golang/core/config"
	"github.com/alibaba/sentinel-golang/core/stat"
	sbase "github.com/alibaba/sentinel-golang/core/stat/base"
	"verifharness/internal/vh"
)

type Interp struct {
	clk   *vh.Clock
	la    *sbase.BucketLeapArray
	views []*sbase.SlidingWindowMetric
	nodes []*stat.BaseStatNode
	// readable views of each node: nviews[k][0] = DefaultMetric(), the rest were returned by GenerateReadStat
	nviews [][]base.ReadStat
}

func New() vh.Interp {
	c := &vh.Clock{}
	vh.Install(c)
	return &Interp{clk: c}
}

func (it *Interp) Reset() { it.la = nil; it.views = nil; it.nodes = nil; it.nviews = nil }

func ev(s string) base.MetricEvent {
	switch s {
	case "pass":
		return base.MetricEventPass
	case "block":
		return base.MetricEventBlock
	case "complete":
		return base.MetricEventComplete
	case "error":
		return base.MetricEventError
	case "rt":
		return base.MetricEventRt
	}
	panic("bad event " + s)
}

func viewErr(err error) string {
	switch err {
	case base.IllegalStatisticParamsError:
		return "err 1"
	case base.IllegalGlobalStatisticParamsError:
		return "err 2"
	case base.GlobalStatisticNonReusableError:
		return "err 3"
	}
	return "err ?"
}

func (it *Interp) Step(t []string, op string) string {
	switch t[0] {
	case "la.new":
		it.clk.SetMs(vh.U(t[3]))
		it.la = sbase.NewBucketLeapArray(uint32(vh.U(t[1])), uint32(vh.U(t[2])))
		it.views = nil
		it.nodes = nil
		it.nviews = nil
		// BaseStatNode takes its array geometry from the global configuration
		cfg := config.NewDefaultConfig()
		cfg.Sentinel.Stat.GlobalStatisticSampleCountTotal = uint32(vh.U(t[1]))
		cfg.Sentinel.Stat.GlobalStatisticIntervalMsTotal = uint32(vh.U(t[2]))
		config.ResetGlobalConfig(cfg)
		return ""
	case "node":
		n := stat.NewBaseStatNode(uint32(vh.U(t[1])), uint32(vh.U(t[2])))
		it.nodes = append(it.nodes, n)
		it.nviews = append(it.nviews, []base.ReadStat{n.DefaultMetric()})
		return ""
	case "ngen":
		k := vh.U(t[1])
		rs, err := it.nodes[k].GenerateReadStat(uint32(vh.U(t[2])), uint32(vh.U(t[3])))
		if err != nil {
			return viewErr(err)
		}
		if rs == nil {
			return "nil"
		}
		it.nviews[k] = append(it.nviews[k], rs)
		return "ok"
	case "ngread":
		// only what the base.ReadStat interface offers
		rs := it.nviews[vh.U(t[1])][vh.U(t[2])]
		switch t[3] {
		case "sum":
			return fmt.Sprint(rs.GetSum(ev(t[4])))
		case "qps":
			return vh.FBits(rs.GetQPS(ev(t[4])))
		case "prevqps":
			return vh.FBits(rs.GetPreviousQPS(ev(t[4])))
		case "minrt":
			return fmt.Sprint(int64(rs.MinRT()))
		case "avgrt":
			return vh.FBits(rs.AvgRT())
		}
		panic("bad op " + op)
	case "nread":
		n := it.nodes[vh.U(t[1])]
		switch t[2] {
		case "sum":
			return fmt.Sprint(n.GetSum(ev(t[3])))
		case "qps":
			return vh.FBits(n.GetQPS(ev(t[3])))
		case "prevqps":
			return vh.FBits(n.GetPreviousQPS(ev(t[3])))
		case "maxavg":
			return vh.FBits(n.GetMaxAvg(ev(t[3])))
		case "minrt":
			return fmt.Sprint(int64(n.MinRT()))
		case "maxconc":
			return fmt.Sprint(n.MaxConcurrency())
		case "avgrt":
			return fmt.Sprint(int64(n.AvgRT()))
		}
		panic("bad op " + op)
	case "view":
		m, err := sbase.NewSlidingWindowMetric(uint32(vh.U(t[1])), uint32(vh.U(t[2])), it.la)
		if err != nil {
			return viewErr(err)
		}
		it.views = append(it.views, m)
		return "ok"
	case "clock":
		it.clk.SetMs(vh.U(t[1]))
		return ""
	case "add":
		it.la.AddCount(ev(t[1]), vh.I(t[2]))
		for _, n := range it.nodes {
			n.AddCount(ev(t[1]), vh.I(t[2]))
		}
		return ""
	case "conc":
		it.la.UpdateConcurrency(int32(vh.I(t[1])))
		for _, n := range it.nodes {
			n.UpdateConcurrency(int32(vh.I(t[1])))
		}
		return ""
	case "read":
		m := it.views[vh.U(t[1])]
		switch t[2] {
		case "sum":
			return fmt.Sprint(m.GetSum(ev(t[3])))
		case "qps":
			return vh.FBits(m.GetQPS(ev(t[3])))
		case "prevqps":
			return vh.FBits(m.GetPreviousQPS(ev(t[3])))
		case "maxbucket":
			return fmt.Sprint(m.GetMaxOfSingleBucket(ev(t[3])))
		case "minrt":
			return fmt.Sprint(int64(m.MinRT()))
		case "maxconc":
			return fmt.Sprint(m.MaxConcurrency())
		case "avgrt":
			return vh.FBits(m.AvgRT())
		}
	case "count":
		return fmt.Sprint(it.la.Count(ev(t[1])))
	case "aminrt":
		return fmt.Sprint(it.la.MinRt())
	case "amaxconc":
		return fmt.Sprint(it.la.MaxConcurrency())
	case "values":
		// BucketLeapArray.Values(now): canonical form = sorted by start, untouched buckets dropped
		ws := it.la.Values(it.clk.CurrentTimeMillis())
		sort.Slice(ws, func(i, j int) bool { return ws[i].BucketStart < ws[j].BucketStart })
		var xs []string
		for _, w := range ws {
			b := w.Value.Load().(*sbase.MetricBucket)
			p, bl, c, e, rt := b.Get(base.MetricEventPass), b.Get(base.MetricEventBlock), b.Get(base.MetricEventComplete), b.Get(base.MetricEventError), b.Get(base.MetricEventRt)
			if p == 0 && bl == 0 && c == 0 && e == 0 && rt == 0 && b.MinRt() == base.DefaultStatisticMaxRt && b.MaxConcurrency() == 0 {
				continue
			}
			xs = append(xs, fmt.Sprintf("%d:%d:%d:%d:%d:%d:%d:%d", w.BucketStart, p, bl, c, e, rt, b.MinRt(), b.MaxConcurrency()))
		}
		return "[" + strings.Join(xs, ",") + "]"
	case "items":
		lo, hi := vh.U(t[1]), vh.U(t[2])
		// any view serves: SecondMetricsOnCondition only uses the underlying array
		m, err := sbase.NewSlidingWindowMetric(1, it.la.IntervalInMs(), it.la)
		if err != nil {
			panic(err)
		}
		items := m.SecondMetricsOnCondition(func(ws uint64) bool { return ws >= lo && ws <= hi })
		sort.Slice(items, func(i, j int) bool { return items[i].Timestamp < items[j].Timestamp })
		var xs []string
		for _, x := range items {
			if x.PassQps == 0 && x.BlockQps == 0 && x.ErrorQps == 0 && x.CompleteQps == 0 && x.AvgRt == 0 && x.Concurrency == 0 {
				// canonical form drops all-zero items. NB: an item with rt>0 but complete==0 has AvgRt=rt.
				continue
			}
			xs = append(xs, fmt.Sprintf("%d:%d:%d:%d:%d:%d:%d", x.Timestamp, x.PassQps, x.BlockQps, x.ErrorQps, x.CompleteQps, x.AvgRt, x.Concurrency))
		}
		return "[" + strings.Join(xs, ",") + "]"
	}
	panic("bad op " + op)
}
