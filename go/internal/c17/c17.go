// Package c17 interprets the C17 op language against the real core/log/metric package: a writer and
// any number of searchers on a fresh temporary directory per case (removed on Reset).
package c17

import (
	"encoding/hex"
	"fmt"
	"io"
	"os"
	"path/filepath"
	"regexp"
	"sort"
	"strconv"
	"strings"
	"time"

	"github.com/alibaba/sentinel-golang/core/base"
	"github.com/alibaba/sentinel-golang/core/config"
	"github.com/alibaba/sentinel-golang/core/log/metric"
	"verifharness/internal/vh"
)

var dateRe = regexp.MustCompile(`^[0-9]{4}-[0-9]{2}-[0-9]{2}$`)
var pidRe = regexp.MustCompile(`\.pid[0-9]+`)

const defaultApp = "v.app" // a dot is replaced by "-" in the file name (FormMetricFileName)

type Interp struct {
	clk       *vh.Clock
	dir       string
	w         metric.MetricLogWriter
	closed    bool
	lastData  string
	origData  []byte
	origIdx   []byte
	searchers map[string]metric.MetricSearcher
	pid       bool // file names carry ".pid<pid>" (config Log.UsePid)
	app       string // the application name of this case (an opaque string for the log)
	dead      bool // the writer died (cut / raw / rmidx): last-file snapshot taken
}

func New() vh.Interp {
	time.Local = time.UTC
	vh.Silence()
	c := vh.NewClock(1_900_000_000_000)
	sweep()
	return &Interp{clk: c, searchers: map[string]metric.MetricSearcher{}}
}

// sweep removes directories left behind by harness processes that are no longer alive (a process
// that is killed, or whose last case has no log.end, cannot clean up after itself).
func sweep() {
	ds, _ := filepath.Glob(filepath.Join(os.TempDir(), "verif-c17-*"))
	for _, d := range ds {
		parts := strings.Split(filepath.Base(d), "-")
		if len(parts) < 4 {
			continue
		}
		pid, err := strconv.Atoi(parts[2])
		if err != nil || pid == os.Getpid() {
			continue
		}
		if _, err := os.Stat(fmt.Sprintf("/proc/%d", pid)); err != nil {
			_ = os.RemoveAll(d)
		}
	}
}

func (it *Interp) closeWriter() {
	if it.w != nil {
		if c, ok := it.w.(io.Closer); ok {
			_ = c.Close()
		}
	}
}

func (it *Interp) drop() {
	it.closeWriter()
	it.w = nil
	if it.dir != "" {
		_ = os.RemoveAll(it.dir)
		it.dir = ""
	}
	it.closed = false
	it.lastData, it.origData, it.origIdx = "", nil, nil
	it.searchers = map[string]metric.MetricSearcher{}
}

func (it *Interp) Reset() { it.drop() }

// longName is the deterministic resource name of n bytes that the token R<n> stands for.
func longName(n int) string {
	b := make([]byte, n)
	for i := range b {
		b[i] = byte(97 + (i+i/26)%26)
	}
	return string(b)
}

func resOfTok(r string) string {
	if strings.HasPrefix(r, "R") {
		if n, err := strconv.ParseUint(r[1:], 10, 64); err == nil {
			return longName(int(n))
		}
	}
	if strings.HasPrefix(r, "H") && r[1:] == strings.ToLower(r[1:]) {
		if bs, err := hex.DecodeString(r[1:]); err == nil {
			return string(bs) // H<hex>: names that cannot stand literally in an op line
		}
	}
	return r
}

func safeName(r string) bool {
	for i := 0; i < len(r); i++ {
		b := r[i]
		if b < 33 || b == 127 || b == ':' || b == ',' || b == '[' || b == ']' {
			return false
		}
	}
	return true
}

// showRes prints long names as R<n> (if it is that name) or X<len>:<hash>.
func showRes(r string) string {
	if len(r) > 64 {
		if r == longName(len(r)) {
			return fmt.Sprintf("R%d", len(r))
		}
		var h uint64
		for i := 0; i < len(r); i++ {
			h = (h*31 + uint64(r[i])) % 4294967296
		}
		return fmt.Sprintf("X%d:%d", len(r), h)
	}
	if r != "" && !safeName(r) {
		return "H" + hex.EncodeToString([]byte(r))
	}
	return r
}

func parseItem(tok string) *base.MetricItem {
	p := strings.Split(tok, ":")
	if len(p) != 9 {
		panic("bad item " + tok)
	}
	return &base.MetricItem{
		Resource: resOfTok(p[0]), PassQps: vh.U(p[1]), BlockQps: vh.U(p[2]), CompleteQps: vh.U(p[3]), ErrorQps: vh.U(p[4]),
		AvgRt: vh.U(p[5]), OccupiedPassQps: vh.U(p[6]), Concurrency: uint32(vh.U(p[7])), Classification: int32(vh.I(p[8])),
	}
}

func showItems(items []*base.MetricItem, err error) string {
	if err != nil {
		return "err"
	}
	xs := make([]string, 0, len(items))
	for _, m := range items {
		xs = append(xs, fmt.Sprintf("%d:%s:%d:%d:%d:%d:%d:%d:%d:%d", m.Timestamp, showRes(m.Resource), m.PassQps, m.BlockQps,
			m.CompleteQps, m.ErrorQps, m.AvgRt, m.OccupiedPassQps, m.Concurrency, m.Classification))
	}
	return vh.List(xs)
}

// lastDataFile: the newest data file (date, then roll number), i.e. the one the writer appends to.
func (it *Interp) lastDataFile() string {
	es, _ := os.ReadDir(it.dir)
	type ent struct {
		name, date string
		seq        int
	}
	var xs []ent
	prefix := metric.FormMetricFileName(it.app, it.pid) + "."
	for _, e := range es {
		n := e.Name()
		if e.IsDir() || strings.HasSuffix(n, ".idx") || !strings.HasPrefix(n, prefix) {
			continue
		}
		parts := strings.Split(n[len(prefix):], ".")
		if !dateRe.MatchString(parts[0]) {
			continue // a foreign file that merely shares the prefix
		}
		seq := 0
		if len(parts) > 1 {
			seq, _ = strconv.Atoi(parts[1])
		}
		xs = append(xs, ent{n, parts[0], seq})
	}
	sort.Slice(xs, func(i, j int) bool {
		if xs[i].date != xs[j].date {
			return xs[i].date < xs[j].date
		}
		return xs[i].seq < xs[j].seq
	})
	if len(xs) == 0 {
		return ""
	}
	return filepath.Join(it.dir, xs[len(xs)-1].name)
}

func (it *Interp) searcher(id string) metric.MetricSearcher {
	s, ok := it.searchers[id]
	if !ok {
		var err error
		s, err = metric.NewDefaultMetricSearcher(it.dir, metric.FormMetricFileName(it.app, it.pid))
		if err != nil {
			panic(err)
		}
		it.searchers[id] = s
	}
	return s
}

// die: the writer dies (crash); remember the last data file and what it and its index held.
func (it *Interp) die() {
	if it.closed {
		return
	}
	it.closeWriter()
	it.closed = true
	it.lastData = it.lastDataFile()
	it.origData, _ = os.ReadFile(it.lastData)
	it.origIdx, _ = os.ReadFile(it.lastData + ".idx")
}

func appendTo(path string, bs []byte) {
	f, err := os.OpenFile(path, os.O_APPEND|os.O_WRONLY, 0o644)
	if err != nil {
		panic(err)
	}
	defer f.Close()
	if _, err := f.Write(bs); err != nil {
		panic(err)
	}
}

func cutTo(path string, orig []byte, k uint64) {
	if k > uint64(len(orig)) {
		k = uint64(len(orig))
	}
	if err := os.WriteFile(path, orig[:k], 0o644); err != nil {
		panic(err)
	}
}

func (it *Interp) Step(t []string, op string) string {
	switch t[0] {
	case "clock":
		it.clk.SetMs(vh.U(t[1]))
		return ""
	case "log.new":
		maxSize, maxFiles := vh.U(t[1]), vh.U(t[2])
		it.drop()
		dir, err := os.MkdirTemp("", fmt.Sprintf("verif-c17-%d-", os.Getpid()))
		if err != nil {
			panic(err)
		}
		it.dir = dir
		cfg := config.NewDefaultConfig()
		cfg.Sentinel.Log.Dir = dir
		it.pid, it.app = false, defaultApp
		for _, o := range t[3:] {
			if o == "pid" {
				it.pid = true
			} else if strings.HasPrefix(o, "app=") {
				it.app = resOfTok(o[4:])
			} else {
				return "bad-op"
			}
		}
		cfg.Sentinel.App.Name = it.app
		cfg.Sentinel.Log.UsePid = it.pid
		config.ResetGlobalConfig(cfg)
		w, err := metric.NewDefaultMetricLogWriter(maxSize, uint32(maxFiles)) // app name from the config
		if err != nil {
			return "err"
		}
		it.w = w
		return "ok"
	case "log.reopen":
		// a restart: the old writer is closed, a new one is constructed on the SAME directory
		if it.w == nil || it.closed {
			return "bad-op"
		}
		maxSize, maxFiles := vh.U(t[1]), vh.U(t[2])
		it.closeWriter()
		w, err := metric.NewDefaultMetricLogWriterOfApp(maxSize, uint32(maxFiles), it.app)
		if err != nil {
			return "err"
		}
		it.w = w
		return "ok"
	case "log.end":
		it.drop()
		return ""
	case "log.write":
		if it.w == nil {
			return "bad-op"
		}
		if it.closed {
			return "closed" // the writer died with the cut
		}
		ts, n := vh.U(t[1]), int(vh.U(t[2]))
		if n != len(t)-3 {
			return "bad-op"
		}
		items := make([]*base.MetricItem, 0, n)
		for _, tok := range t[3:] {
			items = append(items, parseItem(tok))
		}
		if err := it.w.Write(ts, items); err != nil {
			return "err"
		}
		return ""
	case "log.cut":
		if it.w == nil {
			return "bad-op"
		}
		it.die()
		k := vh.U(t[2])
		switch t[1] {
		case "data":
			cutTo(it.lastData, it.origData, k)
		case "idx":
			cutTo(it.lastData+".idx", it.origIdx, k)
		default:
			return "bad-op"
		}
		return ""
	case "log.raw":
		// corruption other than truncation: garbage appended to the last data / idx file
		if it.w == nil || len(t) != 3 {
			return "bad-op"
		}
		bs, err := hex.DecodeString(t[2])
		if err != nil {
			return "bad-op"
		}
		it.die()
		switch t[1] {
		case "data":
			appendTo(it.lastData, bs)
		case "idx":
			if _, err := os.Stat(it.lastData + ".idx"); err != nil {
				return "bad-op"
			}
			appendTo(it.lastData+".idx", bs)
		default:
			return "bad-op"
		}
		return ""
	case "log.rmidx":
		if it.w == nil {
			return "bad-op"
		}
		it.die()
		_ = os.Remove(it.lastData + ".idx")
		return ""
	case "log.touch":
		if it.w == nil {
			return "bad-op"
		}
		if err := os.WriteFile(filepath.Join(it.dir, t[1]), nil, 0o644); err != nil {
			panic(err)
		}
		return ""
	case "log.mkdir":
		if it.w == nil {
			return "bad-op"
		}
		if err := os.MkdirAll(filepath.Join(it.dir, t[1]), 0o755); err != nil {
			panic(err)
		}
		return ""
	case "log.badsearcher":
		_, e1 := metric.NewDefaultMetricSearcher("", "x")
		_, e2 := metric.NewDefaultMetricSearcher("/tmp", "")
		r := func(e error) string {
			if e != nil {
				return "err"
			}
			return "ok"
		}
		return r(e1) + " " + r(e2)
	case "log.files":
		if it.w == nil {
			return "bad-op"
		}
		es, err := os.ReadDir(it.dir)
		if err != nil {
			panic(err)
		}
		xs := []string{}
		for _, e := range es {
			st, err := e.Info()
			if err != nil {
				panic(err)
			}
			name := pidRe.ReplaceAllString(e.Name(), ".pidN")
			if e.IsDir() {
				xs = append(xs, name+"/:0")
			} else {
				xs = append(xs, fmt.Sprintf("%s:%d", name, st.Size()))
			}
		}
		return vh.List(xs)
	case "log.find":
		if it.w == nil {
			return "bad-op"
		}
		res := t[4]
		if res == "*" {
			res = ""
		} else {
			res = resOfTok(res)
		}
		return showItems(it.searcher(t[1]).FindByTimeAndResource(vh.U(t[2]), vh.U(t[3]), res))
	case "log.from":
		if it.w == nil {
			return "bad-op"
		}
		return showItems(it.searcher(t[1]).FindFromTimeWithMaxLines(vh.U(t[2]), uint32(vh.U(t[3]))))
	}
	return "bad-op"
}
