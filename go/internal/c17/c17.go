// Package c17 interprets the C17 op language against the real packages (stub).
package c17

import "verifharness/internal/vh"

// New returns the interpreter for C17.
func New() vh.Interp { return nil }
