package c13

import (
	_ "unsafe" // go:linkname

	cb "github.com/alibaba/sentinel-golang/core/circuitbreaker"
	"github.com/alibaba/sentinel-golang/core/flow"
	"github.com/alibaba/sentinel-golang/core/hotspot"
)

// The managers expose the controller objects in force only through package-internal getters (the ones the
// slots call on every request); the harness reads the same getters to compare object identities.

//go:linkname flowTcs github.com/alibaba/sentinel-golang/core/flow.getTrafficControllerListFor
func flowTcs(name string) []*flow.TrafficShapingController

//go:linkname hotTcs github.com/alibaba/sentinel-golang/core/hotspot.getTrafficControllersFor
func hotTcs(res string) []hotspot.TrafficShapingController

//go:linkname cbBreakers github.com/alibaba/sentinel-golang/core/circuitbreaker.getBreakersOfResource
func cbBreakers(res string) []cb.CircuitBreaker
