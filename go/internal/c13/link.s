// empty: allows the body-less go:linkname declarations in link.go
