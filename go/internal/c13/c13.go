// Package c13 interprets the C13 op language against the real rule managers (flow, isolation, hotspot,
// circuit breaker, system, outlier) and probes the enforced rules with real traffic through api.Entry.
//
// Every load builds freshly allocated rule objects from the op line (the property's callers do so).
package c13

import (
	"errors"
	"fmt"
	"math/big"
	"reflect"
	"sort"
	"strconv"
	"strings"

	sentinel "github.com/alibaba/sentinel-golang/api"
	"github.com/alibaba/sentinel-golang/core/base"
	cb "github.com/alibaba/sentinel-golang/core/circuitbreaker"
	"github.com/alibaba/sentinel-golang/core/flow"
	"github.com/alibaba/sentinel-golang/core/hotspot"
	"github.com/alibaba/sentinel-golang/core/isolation"
	"github.com/alibaba/sentinel-golang/core/outlier"
	"github.com/alibaba/sentinel-golang/core/stat"
	"github.com/alibaba/sentinel-golang/core/system"
	"github.com/alibaba/sentinel-golang/core/system_metric"
	"verifharness/internal/vh"
)

// the harness' own generators: flow (TokenCalculateStrategy 7, ControlBehavior 9), circuit breaker Strategy 7.
// genMode says what they do at the moment: "ok" builds a controller, "fail" returns an error, "panic" panics.
const (
	customTcs = flow.TokenCalculateStrategy(7)
	customCb  = flow.ControlBehavior(9)
	customCbS = cb.Strategy(7)
)

// passBreaker is the breaker the custom generator yields: always closed.
type passBreaker struct{ r *cb.Rule }

func (b *passBreaker) BoundRule() *cb.Rule            { return b.r }
func (b *passBreaker) BoundStat() interface{}         { return nil }
func (b *passBreaker) TryPass(*base.EntryContext) bool { return true }
func (b *passBreaker) CurrentState() cb.State         { return cb.Closed }
func (b *passBreaker) OnRequestComplete(uint64, error) {}

// mkFlowGen builds a flow.TrafficControllerGenFunc although its second parameter type (*standaloneStatistic) is
// unexported: the type argument is inferred from a (nil) value of the exported function type.
func mkFlowGen[S any](_ func(*flow.Rule, S) (*flow.TrafficShapingController, error), it *Interp) func(*flow.Rule, S) (*flow.TrafficShapingController, error) {
	return func(r *flow.Rule, s S) (*flow.TrafficShapingController, error) {
		switch it.genMode["flow"] {
		case "fail":
			return nil, errors.New("custom generator fails")
		case "panic":
			panic("custom generator panics")
		}
		// a controller bound to a zero statistic (the probes never send traffic to a resource with such a rule)
		st := reflect.New(reflect.TypeOf(s).Elem())
		out := reflect.ValueOf(flow.NewTrafficShapingController).Call([]reflect.Value{reflect.ValueOf(r), st})
		return out[0].Interface().(*flow.TrafficShapingController), nil
	}
}

func registerFlowGen(it *Interp) error {
	var genType flow.TrafficControllerGenFunc
	return flow.SetTrafficShapingGenerator(customTcs, customCb, mkFlowGen(genType, it))
}

// reuseSlice copies rs into the slice kept for key (same backing array when it is large enough), as a caller does who
// fills one slice again for every load of a resource.
func reuseSlice[T any](it *Interp, key string, rs []T) []T {
	if !it.reuse {
		return rs
	}
	old, _ := it.slices[key].([]T)
	out := append(old[:0], rs...)
	it.slices[key] = out
	return out
}

type Interp struct {
	genMode map[string]string
	reuse   bool
	slices  map[string]interface{} // loadresx: one rule slice per (module, resource), reused by consecutive loads
	clk *vh.Clock
	reg map[string][]interface{} // per module: controller objects in the order ctrlhist first showed them
}

func New() vh.Interp {
	vh.Silence()
	it := &Interp{clk: vh.NewClock(1_900_000_000_000), genMode: map[string]string{}}
	if err := registerFlowGen(it); err != nil {
		panic(err)
	}
	if err := cb.SetCircuitBreakerGenerator(customCbS, func(r *cb.Rule, _ interface{}) (cb.CircuitBreaker, error) {
		switch it.genMode["cb"] {
		case "fail":
			return nil, errors.New("custom generator fails")
		case "panic":
			panic("custom generator panics")
		}
		return &passBreaker{r}, nil
	}); err != nil {
		panic(err)
	}
	return it
}

const idleMs = 100_000

func (it *Interp) idle() { it.clk.Ns += idleMs * 1e6 }

func (it *Interp) Reset() {
	it.genMode = map[string]string{}
	it.slices = map[string]interface{}{}
	it.reg = map[string][]interface{}{}
	_ = flow.ClearRules()
	_ = isolation.ClearRules()
	_ = hotspot.ClearRules()
	_ = cb.ClearRules()
	_ = system.ClearRules()
	_ = outlier.ClearRules()
	stat.ResetResourceNodeMap()
	system_metric.SetSystemLoad(4)
	system_metric.SetSystemCpuUsage(0.75)
	system_metric.SetSystemMemoryUsage(1 << 40) // above every high water mark: a memory-adaptive threshold is HighMemUsageThreshold
	it.idle()
}

func str(s string) string {
	if s == "_" {
		return ""
	}
	return s
}

func ustr(s string) string {
	if s == "" {
		return "_"
	}
	return s
}

func half(s string) float64 { return float64(vh.I(s)) / 2 }

// halves prints a float that is a multiple of 1/2 as the integer number of halves.
func halves(f float64) string { return strconv.FormatInt(int64(f*2), 10) }

// qToF converts a threshold given as an exact integer number of 2^-60 units into the float64 it denotes.
func qToF(s string) float64 {
	n, ok := new(big.Int).SetString(s, 10)
	if !ok {
		panic("bad threshold " + s)
	}
	f := new(big.Float).SetPrec(256).SetInt(n)
	f.SetMantExp(f, -60)
	v, acc := f.Float64()
	if acc != big.Exact {
		panic("threshold is not a float64: " + s)
	}
	return v
}

// fToQ prints a float64 as the exact integer number of 2^-60 units (every value the harness loads is one).
func fToQ(v float64) string {
	f := new(big.Float).SetPrec(256).SetFloat64(v)
	f.SetMantExp(f, 60)
	n, acc := f.Int(nil)
	if acc != big.Exact {
		return "inexact:" + strconv.FormatFloat(v, 'g', -1, 64)
	}
	return n.String()
}

func parseFlow(s string) *flow.Rule {
	f := strings.Split(s, ",")
	if len(f) != 15 {
		panic("bad flow rule " + s)
	}
	return &flow.Rule{ID: str(f[14]), Resource: str(f[0]), TokenCalculateStrategy: flow.TokenCalculateStrategy(vh.I(f[1])),
		ControlBehavior: flow.ControlBehavior(vh.I(f[2])), Threshold: qToF(f[3]), RelationStrategy: flow.RelationStrategy(vh.I(f[4])),
		RefResource: str(f[5]), MaxQueueingTimeMs: uint32(vh.U(f[6])), WarmUpPeriodSec: uint32(vh.U(f[7])), WarmUpColdFactor: uint32(vh.U(f[8])),
		StatIntervalInMs: uint32(vh.U(f[9])), LowMemUsageThreshold: vh.I(f[10]), HighMemUsageThreshold: vh.I(f[11]),
		MemLowWaterMarkBytes: vh.I(f[12]), MemHighWaterMarkBytes: vh.I(f[13])}
}

func showFlow(r *flow.Rule) string {
	return fmt.Sprintf("%s,%d,%d,%s,%d,%s,%d,%d,%d,%d,%d,%d,%d,%d,%s", ustr(r.Resource), r.TokenCalculateStrategy, r.ControlBehavior, fToQ(r.Threshold),
		r.RelationStrategy, ustr(r.RefResource), r.MaxQueueingTimeMs, r.WarmUpPeriodSec, r.WarmUpColdFactor, r.StatIntervalInMs,
		r.LowMemUsageThreshold, r.HighMemUsageThreshold, r.MemLowWaterMarkBytes, r.MemHighWaterMarkBytes, ustr(r.ID))
}

func parseIso(s string) *isolation.Rule {
	f := strings.Split(s, ",")
	if len(f) != 4 {
		panic("bad isolation rule " + s)
	}
	return &isolation.Rule{ID: str(f[3]), Resource: str(f[0]), MetricType: isolation.MetricType(vh.I(f[1])), Threshold: uint32(vh.U(f[2]))}
}

func showIso(r *isolation.Rule) string {
	return fmt.Sprintf("%s,%d,%d,%s", ustr(r.Resource), r.MetricType, r.Threshold, ustr(r.ID))
}

func parseHot(s string) *hotspot.Rule {
	f := strings.Split(s, ",")
	if len(f) != 12 {
		panic("bad hotspot rule " + s)
	}
	r := &hotspot.Rule{ID: str(f[11]), Resource: str(f[0]), MetricType: hotspot.MetricType(vh.I(f[1])), ControlBehavior: hotspot.ControlBehavior(vh.I(f[2])),
		ParamIndex: int(vh.I(f[3])), ParamKey: str(f[4]), Threshold: vh.I(f[5]), MaxQueueingTimeMs: vh.I(f[6]), BurstCount: vh.I(f[7]),
		DurationInSec: vh.I(f[8]), ParamsMaxCapacity: vh.I(f[9])}
	switch it := vh.U(f[10]); it {
	case 0:
	case 1:
		r.SpecificItems = map[interface{}]int64{}
	default:
		r.SpecificItems = map[interface{}]int64{int(it - 2): 1}
	}
	return r
}

func showHot(r *hotspot.Rule) string {
	items := "0"
	if r.SpecificItems != nil {
		items = "1"
		if len(r.SpecificItems) == 1 {
			for k := range r.SpecificItems {
				items = strconv.Itoa(k.(int) + 2)
			}
		} else if len(r.SpecificItems) > 1 {
			items = "many"
		}
	}
	return fmt.Sprintf("%s,%d,%d,%d,%s,%d,%d,%d,%d,%d,%s,%s", ustr(r.Resource), r.MetricType, r.ControlBehavior, r.ParamIndex, ustr(r.ParamKey),
		r.Threshold, r.MaxQueueingTimeMs, r.BurstCount, r.DurationInSec, r.ParamsMaxCapacity, items, ustr(r.ID))
}

func parseCb(s string) *cb.Rule {
	f := strings.Split(s, ",")
	if len(f) != 10 {
		panic("bad circuit breaker rule " + s)
	}
	return &cb.Rule{Id: str(f[9]), Resource: str(f[0]), Strategy: cb.Strategy(vh.U(f[1])), RetryTimeoutMs: uint32(vh.U(f[2])), MinRequestAmount: vh.U(f[3]),
		StatIntervalMs: uint32(vh.U(f[4])), StatSlidingWindowBucketCount: uint32(vh.U(f[5])), MaxAllowedRtMs: vh.U(f[6]),
		Threshold: qToF(f[7]), ProbeNum: vh.U(f[8])}
}

func showCb(r *cb.Rule) string {
	return fmt.Sprintf("%s,%d,%d,%d,%d,%d,%d,%s,%d,%s", ustr(r.Resource), r.Strategy, r.RetryTimeoutMs, r.MinRequestAmount, r.StatIntervalMs,
		r.StatSlidingWindowBucketCount, r.MaxAllowedRtMs, fToQ(r.Threshold), r.ProbeNum, ustr(r.Id))
}

func parseSys(s string) *system.Rule {
	f := strings.Split(s, ",")
	if len(f) != 4 {
		panic("bad system rule " + s)
	}
	return &system.Rule{ID: str(f[3]), MetricType: system.MetricType(vh.U(f[0])), TriggerCount: half(f[1]), Strategy: system.AdaptiveStrategy(vh.I(f[2]))}
}

func showSys(r *system.Rule) string {
	return fmt.Sprintf("%d,%s,%d,%s", r.MetricType, halves(r.TriggerCount), r.Strategy, ustr(r.ID))
}

func parseOut(s string) *outlier.Rule {
	f := strings.Split(s, ";")
	if len(f) != 6 {
		panic("bad outlier rule " + s)
	}
	r := &outlier.Rule{MaxEjectionPercent: half(f[0]), RecoveryIntervalMs: uint32(vh.U(f[1])), EnableActiveRecovery: f[2] == "1",
		RecycleIntervalS: uint32(vh.U(f[3])), MaxRecoveryAttempts: uint32(vh.U(f[4]))}
	if f[5] != "-" {
		r.Rule = parseCb(f[5])
	}
	return r
}

func showOut(r *outlier.Rule) string {
	in := "-"
	if r.Rule != nil {
		in = showCb(r.Rule)
	}
	act := 0
	if r.EnableActiveRecovery {
		act = 1
	}
	return fmt.Sprintf("%s;%d;%d;%d;%d;%s", halves(r.MaxEjectionPercent), r.RecoveryIntervalMs, act, r.RecycleIntervalS, r.MaxRecoveryAttempts, in)
}

func outcome(ch bool, err error) string {
	switch {
	case ch && err == nil:
		return "changed"
	case !ch && err == nil:
		return "unchanged"
	case !ch:
		return "err"
	default:
		return "changed-err"
	}
}

func okErr(err error) string {
	if err != nil {
		return "err"
	}
	return "ok"
}

// ruleToks returns the n rule tokens following t[i] (= n).
func ruleToks(t []string, i int) []string {
	n := int(vh.U(t[i]))
	if len(t) != i+1+n {
		panic("bad rule count")
	}
	return t[i+1:]
}

func (it *Interp) Step(t []string, op string) string {
	switch t[0] {
	case "load":
		return it.load(t[1], "", ruleToks(t, 2), false)
	case "loadres":
		return it.load(t[1], str(t[2]), ruleToks(t, 3), true)
	case "loadresx":
		it.reuse = true
		defer func() { it.reuse = false }()
		return it.load(t[1], str(t[2]), ruleToks(t, 3), true)
	case "genmode":
		it.genMode[t[1]] = t[2]
		return ""
	case "clear":
		switch t[1] {
		case "flow":
			return okErr(flow.ClearRules())
		case "iso":
			return okErr(isolation.ClearRules())
		case "hot":
			return okErr(hotspot.ClearRules())
		case "cb":
			return okErr(cb.ClearRules())
		case "sys":
			return okErr(system.ClearRules())
		case "out":
			return okErr(outlier.ClearRules())
		}
	case "clearres":
		res := str(t[2])
		switch t[1] {
		case "flow":
			return okErr(flow.ClearRulesOfResource(res))
		case "iso":
			return okErr(isolation.ClearRulesOfResource(res))
		case "hot":
			return okErr(hotspot.ClearRulesOfResource(res))
		case "cb":
			return okErr(cb.ClearRulesOfResource(res))
		case "out":
			return okErr(outlier.ClearRuleOfResource(res))
		}
	case "get":
		var xs []string
		switch t[1] {
		case "flow":
			for _, r := range flow.GetRules() {
				r := r
				xs = append(xs, showFlow(&r))
			}
		case "iso":
			for _, r := range isolation.GetRules() {
				r := r
				xs = append(xs, showIso(&r))
			}
		case "hot":
			for _, r := range hotspot.GetRules() {
				r := r
				xs = append(xs, showHot(&r))
			}
		case "cb":
			for _, r := range cb.GetRules() {
				r := r
				xs = append(xs, showCb(&r))
			}
		case "sys":
			for _, r := range system.GetRules() {
				r := r
				xs = append(xs, showSys(&r))
			}
		case "out":
			for _, r := range outlier.GetRules() {
				r := r
				xs = append(xs, showOut(&r))
			}
		default:
			panic("bad module")
		}
		return vh.SortedList(xs)
	case "getord":
		// GetRules grouped by resource (sorted), the order within a resource kept
		type kv struct{ k, v string }
		var xs []kv
		switch t[1] {
		case "flow":
			for _, r := range flow.GetRules() {
				r := r
				xs = append(xs, kv{r.Resource, showFlow(&r)})
			}
		case "iso":
			for _, r := range isolation.GetRules() {
				r := r
				xs = append(xs, kv{r.Resource, showIso(&r)})
			}
		case "hot":
			for _, r := range hotspot.GetRules() {
				r := r
				xs = append(xs, kv{r.Resource, showHot(&r)})
			}
		case "cb":
			for _, r := range cb.GetRules() {
				r := r
				xs = append(xs, kv{r.Resource, showCb(&r)})
			}
		case "sys":
			for _, r := range system.GetRules() {
				r := r
				xs = append(xs, kv{strconv.Itoa(int(r.MetricType)), showSys(&r)})
			}
		default:
			panic("bad module")
		}
		sort.SliceStable(xs, func(i, j int) bool { return xs[i].k < xs[j].k })
		out := make([]string, len(xs))
		for i, x := range xs {
			out[i] = x.v
		}
		return vh.List(out)
	case "getres":
		res := str(t[2])
		var xs []string
		switch t[1] {
		case "flow":
			for _, r := range flow.GetRulesOfResource(res) {
				r := r
				xs = append(xs, showFlow(&r))
			}
		case "iso":
			for _, r := range isolation.GetRulesOfResource(res) {
				r := r
				xs = append(xs, showIso(&r))
			}
		case "hot":
			for _, r := range hotspot.GetRulesOfResource(res) {
				r := r
				xs = append(xs, showHot(&r))
			}
		case "cb":
			for _, r := range cb.GetRulesOfResource(res) {
				r := r
				xs = append(xs, showCb(&r))
			}
		default:
			panic("bad module")
		}
		return vh.List(xs)
	case "ctrlids", "ctrlhist":
		res := str(t[2])
		var objs []interface{}
		switch t[1] {
		case "flow":
			for _, c := range flowTcs(res) {
				objs = append(objs, c)
			}
		case "hot":
			for _, c := range hotTcs(res) {
				objs = append(objs, c)
			}
		case "cb":
			for _, c := range cbBreakers(res) {
				objs = append(objs, c)
			}
		default:
			panic("bad module")
		}
		// identity classes in first-appearance order (ctrlhist: over the whole case)
		var firsts []interface{}
		if t[0] == "ctrlhist" {
			key := t[1] + "/" + res
			firsts = it.reg[key]
			defer func() { it.reg[key] = firsts }()
		}
		var xs []string
		for _, o := range objs {
			k := -1
			for i, f := range firsts {
				if f == o {
					k = i
					break
				}
			}
			if k < 0 {
				k = len(firsts)
				firsts = append(firsts, o)
			}
			xs = append(xs, strconv.Itoa(k))
		}
		return vh.List(xs)
	case "probe":
		return it.probe(t)
	case "probeseq":
		return it.probeSeq(t)
	}
	panic("bad op " + op)
}

func (it *Interp) load(mod, res string, toks []string, perRes bool) string {
	switch mod {
	case "flow":
		var rs []*flow.Rule
		for _, x := range toks {
			if x == "-" {
				rs = append(rs, nil)
			} else {
				rs = append(rs, parseFlow(x))
			}
		}
		if perRes {
			return outcome(flow.LoadRulesOfResource(res, reuseSlice(it, "flow/"+res, rs)))
		}
		return outcome(flow.LoadRules(rs))
	case "iso":
		var rs []*isolation.Rule
		for _, x := range toks {
			if x == "-" {
				rs = append(rs, nil)
			} else {
				rs = append(rs, parseIso(x))
			}
		}
		if perRes {
			return outcome(isolation.LoadRulesOfResource(res, reuseSlice(it, "iso/"+res, rs)))
		}
		return outcome(isolation.LoadRules(rs))
	case "hot":
		var rs []*hotspot.Rule
		for _, x := range toks {
			if x == "-" {
				rs = append(rs, nil)
			} else {
				rs = append(rs, parseHot(x))
			}
		}
		if perRes {
			return outcome(hotspot.LoadRulesOfResource(res, reuseSlice(it, "hot/"+res, rs)))
		}
		return outcome(hotspot.LoadRules(rs))
	case "cb":
		var rs []*cb.Rule
		for _, x := range toks {
			if x == "-" {
				rs = append(rs, nil)
			} else {
				rs = append(rs, parseCb(x))
			}
		}
		if perRes {
			return outcome(cb.LoadRulesOfResource(res, reuseSlice(it, "cb/"+res, rs)))
		}
		return outcome(cb.LoadRules(rs))
	case "sys":
		var rs []*system.Rule
		for _, x := range toks {
			if x == "-" {
				rs = append(rs, nil)
			} else {
				rs = append(rs, parseSys(x))
			}
		}
		if perRes {
			panic("system has no per-resource path")
		}
		return outcome(system.LoadRules(rs))
	case "out":
		var rs []*outlier.Rule
		for _, x := range toks {
			if x == "-" {
				rs = append(rs, nil)
			} else {
				rs = append(rs, parseOut(x))
			}
		}
		if perRes {
			if len(rs) > 1 {
				panic("outlier takes one rule per resource")
			}
			var r *outlier.Rule
			if len(rs) == 1 {
				r = rs[0]
			}
			return outcome(outlier.LoadRuleOfResource(res, r))
		}
		return outcome(outlier.LoadRules(rs))
	}
	panic("bad module " + mod)
}

func entry(res string, batch uint32, tt base.TrafficType) string {
	e, b := sentinel.Entry(res, sentinel.WithBatchCount(batch), sentinel.WithTrafficType(tt))
	if b != nil {
		return "block"
	}
	e.Exit()
	return "pass"
}

// probe sends real traffic after an idle gap (all windows empty, nothing in flight, every retry timeout over).
func (it *Interp) probe(t []string) string {
	it.idle()
	switch t[1] {
	case "flow":
		res := str(t[2])
		for _, r := range flow.GetRulesOfResource(res) {
			if r.TokenCalculateStrategy != flow.Direct || r.RelationStrategy != flow.CurrentResource || r.StatIntervalInMs > 90000 {
				return "?" // warm-up / memory-adaptive / associated decisions are not modelled by C13
			}
		}
		return entry(res, uint32(vh.U(t[3])), base.Outbound)
	case "iso":
		return entry(str(t[2]), uint32(vh.U(t[3])), base.Outbound)
	case "cb":
		res := str(t[2])
		for _, r := range cb.GetRulesOfResource(res) {
			if r.StatIntervalMs > 90000 {
				return "?" // the breaker's window outlives the idle gap: what earlier probes left behind still counts
			}
		}
		e, b := sentinel.Entry(res, sentinel.WithTrafficType(base.Outbound))
		if b != nil {
			return "block" // a breaker that is still open (retry timeout longer than the idle gap)
		}
		sentinel.TraceError(e, errors.New("probe"))
		it.clk.Ns += 50 * 1e6
		e.Exit()
		return entry(res, 1, base.Outbound)
	case "sys":
		return entry("sysprobe", 1, base.Inbound)
	}
	panic("bad probe")
}

// probeSeq sends a short sequence of requests at one instant after the idle gap: one letter per request,
// p pass, b block, w the request had to sleep (the virtual clock moved: the sequence stops).
func (it *Interp) probeSeq(t []string) string {
	if t[1] != "flow" {
		panic("probeseq: flow only")
	}
	it.idle()
	res := str(t[2])
	for _, r := range flow.GetRulesOfResource(res) {
		known := r.RelationStrategy == flow.CurrentResource && r.StatIntervalInMs <= 90000 // a longer window outlives the idle gap
		switch r.TokenCalculateStrategy {
		case flow.Direct, flow.MemoryAdaptive:
		case flow.WarmUp:
			// cold threshold T/coldFactor: modelled when it is not an integer (and T is)
			// cold threshold T/coldFactor: modelled when T is an integer ≤ 2^40, T/coldFactor is not an integer and
			// maxToken > warningToken (else the slope is +Inf: C11 warmup-nan)
			T := int64(r.Threshold)
			cf := int64(r.WarmUpColdFactor)
			known = known && r.ControlBehavior == flow.Reject && r.Threshold >= 0 && r.Threshold <= 1<<40 && float64(T) == r.Threshold &&
				cf != 0 && T%cf != 0 && r.WarmUpPeriodSec <= 1000000 && cf <= 1000000 && 2*int64(r.WarmUpPeriodSec)*T >= 1+cf
		default:
			known = false
		}
		if !known {
			return "?"
		}
	}
	var sb strings.Builder
	for _, b := range t[3:] {
		sleeps := len(it.clk.Sleeps)
		e, blk := sentinel.Entry(res, sentinel.WithBatchCount(uint32(vh.U(b))), sentinel.WithTrafficType(base.Outbound))
		if blk == nil {
			e.Exit()
		}
		if len(it.clk.Sleeps) != sleeps {
			sb.WriteByte('w')
			break
		}
		if blk != nil {
			sb.WriteByte('b')
		} else {
			sb.WriteByte('p')
		}
	}
	return sb.String()
}
