// Package c13 interprets the C13 op language against the real packages (stub).
package c13

import "verifharness/internal/vh"

// New returns the interpreter for C13.
func New() vh.Interp { return nil }
