// Package c02 interprets the C02 op language against the real packages: flow.LoadRules + api.Entry
// under a virtual clock; `par` parks goroutines at the yield point chain.between-check-and-stat.
package c02

import (
	"errors"
	"fmt"
	"runtime"
	"runtime/debug"
	"strings"

	sentinel "github.com/alibaba/sentinel-golang/api"
	"github.com/alibaba/sentinel-golang/core/base"
	"github.com/alibaba/sentinel-golang/core/flow"
	"github.com/alibaba/sentinel-golang/core/stat"
	"github.com/alibaba/sentinel-golang/util/verifhook"
	"verifharness/internal/vh"
)

const hookPoint = "chain.between-check-and-stat"

type thread struct {
	resume chan struct{}
	parked chan struct{}
	done   chan string
	state  int // 0 = not started, 1 = parked after the check phase, 2 = finished
	result string
}

type Interp struct {
	clk    *vh.Clock
	rules  []*flow.Rule
	loaded bool
	cur    *thread // the goroutine currently allowed to run (nil outside `par`)
	inside []string // results of the requests issued by the custom generator from inside a rebuild
}

// the (strategy, behaviour) pair of the harness' own generator (must lie outside the built-in ranges)
const (
	customStrategy  = flow.TokenCalculateStrategy(120)
	customBehaviour = flow.ControlBehavior(121)
)

func New() vh.Interp {
	// one P and no GC: sync.Pool hands the pooled EntryOptions / EntryContext straight back to the next entry,
	// so state leaking from one entry into the next (e.g. a batch count that is not reset) shows deterministically
	runtime.GOMAXPROCS(1)
	debug.SetGCPercent(-1)
	vh.Silence()
	it := &Interp{clk: vh.NewClock(1_900_000_000_000)}
	// rules with the custom pair are "built" by this generator, which never yields a controller: Rule.ID says what it
	// does instead (fail / panic / issue a request from inside the rebuild)
	var genType flow.TrafficControllerGenFunc
	if err := flow.SetTrafficShapingGenerator(customStrategy, customBehaviour, adapt(genType, it.generate)); err != nil {
		panic(err)
	}
	verifhook.Sched = func(point string) {
		if point != hookPoint || it.cur == nil {
			return
		}
		t := it.cur
		t.parked <- struct{}{}
		<-t.resume
	}
	return it
}

func (it *Interp) Reset() {
	if _, err := flow.LoadRules(nil); err != nil {
		panic(err)
	}
	stat.ResetResourceNodeMap()
	it.clk.Ns = 0 // `clock` only moves forward within a case
	it.rules = nil
	it.inside = nil
	it.loaded = false
	it.cur = nil
}

func resName(s string) string { return "r" + s }

// adapt builds a flow.TrafficControllerGenFunc although its second parameter type is unexported: the type argument is
// inferred from a (nil) value of the exported function type.
func adapt[S any](_ func(*flow.Rule, S) (*flow.TrafficShapingController, error),
	body func(*flow.Rule) (*flow.TrafficShapingController, error)) func(*flow.Rule, S) (*flow.TrafficShapingController, error) {
	return func(r *flow.Rule, _ S) (*flow.TrafficShapingController, error) { return body(r) }
}

// generate is the harness' controller generator. Rule.ID = "fail" | "panic" | "e<res>.<batch>".
func (it *Interp) generate(r *flow.Rule) (*flow.TrafficShapingController, error) {
	switch {
	case r.ID == "panic":
		panic("custom generator panics")
	case strings.HasPrefix(r.ID, "e"):
		f := strings.Split(r.ID[1:], ".")
		var opts []sentinel.EntryOption
		if f[1] != "-" {
			opts = append(opts, sentinel.WithBatchCount(uint32(vh.U(f[1]))))
		}
		t0 := it.clk.Ns
		e, b := sentinel.Entry(resName(f[0]), opts...)
		it.inside = append(it.inside, it.withSleep(it.decision(e, b), t0))
	}
	return nil, errors.New("custom rule: no controller")
}

// loadResult prints what a load left behind: ok/err, the number of controllers in force, and the results of the
// requests the custom generator issued from inside the rebuild.
func (it *Interp) loadResult(err error) string {
	r := fmt.Sprintf("ok %d", len(flow.GetRules()))
	if err != nil {
		r = fmt.Sprintf("err %d", len(flow.GetRules()))
	}
	if len(it.inside) > 0 {
		r += " [" + strings.Join(it.inside, ",") + "]"
	}
	it.inside = nil
	return r
}

var resTypes = map[string]base.ResourceType{
	"common": base.ResTypeCommon, "web": base.ResTypeWeb, "rpc": base.ResTypeRPC, "gateway": base.ResTypeAPIGateway,
	"dbsql": base.ResTypeDBSQL, "cache": base.ResTypeCache, "mq": base.ResTypeMQ,
}

// typeOpts turns the optional trailing token `type=<t>[,<t>…]` into one entry-option list per caller
// (no token: api.Entry is called without WithResourceType).
func typeOpts(tok string, n int) [][]sentinel.EntryOption {
	out := make([][]sentinel.EntryOption, n)
	if tok == "" {
		return out
	}
	if !strings.HasPrefix(tok, "type=") {
		panic("bad type token " + tok)
	}
	names := strings.Split(tok[5:], ",")
	if len(names) != n {
		panic("bad type token " + tok)
	}
	for i, nm := range names {
		t, ok := resTypes[nm]
		if !ok {
			panic("bad resource type " + nm)
		}
		out[i] = []sentinel.EntryOption{sentinel.WithResourceType(t)}
	}
	return out
}

func parseRule(s string) *flow.Rule {
	if s == "nil" { // a nil rule in the list
		return nil
	}
	f := strings.Split(s, ",")
	if len(f) != 4 && len(f) != 5 {
		panic("bad rule " + s)
	}
	thr, ok := vh.ParseFBits(f[1])
	if !ok {
		panic("bad threshold " + f[1])
	}
	resource := resName(f[0])
	if f[0] == "_" { // invalid: empty Resource
		resource = ""
	}
	r := &flow.Rule{
		Resource:               resource,
		TokenCalculateStrategy: flow.Direct,
		ControlBehavior:        flow.Reject,
		Threshold:              thr,
		StatIntervalInMs:       uint32(vh.U(f[2])),
	}
	switch f[3] {
	case "-":
	case "_": // invalid: associated with an empty RefResource
		r.RelationStrategy = flow.AssociatedResource
	case "?": // invalid: undefined RelationStrategy
		r.RelationStrategy = flow.RelationStrategy(7)
	default:
		r.RelationStrategy = flow.AssociatedResource
		r.RefResource = resName(f[3])
	}
	if len(f) == 5 {
		switch {
		case strings.HasPrefix(f[4], "q"): // q<MaxQueueingTimeMs>: a throttling rule
			r.ControlBehavior = flow.Throttling
			r.MaxQueueingTimeMs = uint32(vh.U(f[4][1:]))
		case strings.HasPrefix(f[4], "x"): // x<mode>: a rule of the harness' custom generator
			r.TokenCalculateStrategy = customStrategy
			r.ControlBehavior = customBehaviour
			r.ID = f[4][1:]
		default:
			panic("bad rule " + s)
		}
	}
	return r
}

func (it *Interp) decision(e *base.SentinelEntry, b *base.BlockError) string {
	if b == nil {
		if e != nil {
			e.Exit()
		}
		return "pass"
	}
	if b.BlockType() != base.BlockTypeFlow {
		return "block " + b.BlockType().String()
	}
	if b.TriggeredRule() == nil {
		return "block flow -"
	}
	idx := -1
	for i, r := range it.rules { // every rule object ever loaded in this case, in load order
		if base.SentinelRule(r) == b.TriggeredRule() {
			idx = i
		}
	}
	return fmt.Sprintf("block flow %d", idx)
}

// withSleep appends the time slept inside the flow slot (virtual clock advance), if any: `pass +<ns>`.
func (it *Interp) withSleep(r string, t0 uint64) string {
	if it.clk.Ns > t0 {
		return fmt.Sprintf("%s +%d", r, it.clk.Ns-t0)
	}
	return r
}

func (it *Interp) Step(t []string, op string) string {
	switch t[0] {
	case "clock":
		// the clock never goes back behind what the sleeps of the flow slot already made of it
		if ms := vh.U(t[1]); ms*1e6 > it.clk.Ns {
			it.clk.SetMs(ms)
		}
		return ""
	case "load":
		n := int(vh.U(t[1]))
		if len(t) != 2+n {
			panic("bad load")
		}
		rules := make([]*flow.Rule, 0, n)
		for _, s := range t[2:] {
			rules = append(rules, parseRule(s))
		}
		it.rules = append(it.rules, rules...)
		it.loaded = true
		var err error
		if n == 0 {
			err = flow.ClearRules()
		} else {
			_, err = flow.LoadRules(rules)
		}
		return it.loadResult(err)
	case "loadres":
		n := int(vh.U(t[2]))
		if len(t) != 3+n {
			panic("bad loadres")
		}
		rules := make([]*flow.Rule, 0, n)
		for _, s := range t[3:] {
			rules = append(rules, parseRule(s))
		}
		it.rules = append(it.rules, rules...)
		res := resName(t[1])
		if t[1] == "_" { // empty resource name: an error, nothing is looked at
			res = ""
		}
		var err error
		if n == 0 && res != "" {
			err = flow.ClearRulesOfResource(res)
		} else {
			_, err = flow.LoadRulesOfResource(res, rules)
		}
		return it.loadResult(err)
	case "entry":
		tok := ""
		if len(t) > 3 {
			tok = t[3]
		}
		opts := typeOpts(tok, 1)[0]
		if t[2] != "-" { // `-`: a plain api.Entry(res) without WithBatchCount (batch 1 by default)
			opts = append(opts, sentinel.WithBatchCount(uint32(vh.U(t[2]))))
		}
		t0 := it.clk.Ns
		e, b := sentinel.Entry(resName(t[1]), opts...)
		return it.withSleep(it.decision(e, b), t0)
	case "par":
		tok := ""
		if len(t) > 4 {
			tok = t[4]
		}
		bs := strings.Split(t[2], ",")
		t0 := it.clk.Ns
		return it.withSleep(it.par(resName(t[1]), bs, strings.Split(t[3], ","), typeOpts(tok, len(bs))), t0)
	case "sum":
		n := stat.GetResourceNode(resName(t[1]))
		if n == nil {
			return "0" // no node yet: nothing admitted (canonical form)
		}
		return fmt.Sprint(n.GetSum(base.MetricEventPass))
	}
	panic("bad op " + op)
}

// par runs len(bs) entries of res as goroutines under the given schedule: the first occurrence of a
// thread id lets that goroutine run its prepare and rule-check slots (it parks at the yield point), the
// second lets it run the statistic slots and Exit.
func (it *Interp) par(res string, bs, sched []string, topts [][]sentinel.EntryOption) string {
	ths := make([]*thread, len(bs))
	for i := range bs {
		th := &thread{resume: make(chan struct{}), parked: make(chan struct{}), done: make(chan string)}
		ths[i] = th
		opts := topts[i]
		if bs[i] != "-" {
			opts = append(opts, sentinel.WithBatchCount(uint32(vh.U(bs[i]))))
		}
		go func() {
			<-th.resume
			e, b := sentinel.Entry(res, opts...)
			th.done <- it.decision(e, b)
		}()
	}
	for _, s := range sched {
		i := int(vh.U(s))
		if i >= len(ths) {
			panic("bad schedule")
		}
		th := ths[i]
		switch th.state {
		case 0:
			it.cur = th
			th.resume <- struct{}{}
			select {
			case <-th.parked:
				th.state = 1
			case r := <-th.done: // the hook was not reached (should not happen)
				th.result = r + "!nohook"
				th.state = 2
			}
			it.cur = nil
		case 1:
			it.cur = nil
			th.resume <- struct{}{}
			th.result = <-th.done
			th.state = 2
		default:
			panic("bad schedule")
		}
	}
	out := make([]string, len(ths))
	for i, th := range ths {
		if th.state != 2 {
			panic("bad schedule: unfinished thread")
		}
		out[i] = th.result
	}
	return "[" + strings.Join(out, ",") + "]"
}
