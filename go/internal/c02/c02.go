// Package c02 interprets the C02 op language against the real packages (stub).
package c02

import "verifharness/internal/vh"

// New returns the interpreter for C02.
func New() vh.Interp { return nil }
