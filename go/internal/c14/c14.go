// Package c14 interprets the C14 op language against the real rule managers and the global slot chain.
//
// A case has two phases separated by `phase B`: the same traffic, once with the `*.reload*` ops and once
// without.  `phase B` clears every module (rules, resource nodes) and the recorded sleeps; the ops carry
// absolute virtual times, so both phases see the same clock.  A requested Sleep (throttling) is recorded
// and reported, it does not advance the clock: the traffic schedule is given by the ops alone.
package c14

import (
	"errors"
	"fmt"
	"reflect"
	"runtime"
	"runtime/debug"
	"strconv"
	"strings"
	"time"

	sentinel "github.com/alibaba/sentinel-golang/api"
	"github.com/alibaba/sentinel-golang/core/base"
	"github.com/alibaba/sentinel-golang/core/circuitbreaker"
	"github.com/alibaba/sentinel-golang/core/flow"
	"github.com/alibaba/sentinel-golang/core/hotspot"
	"github.com/alibaba/sentinel-golang/core/stat"
	"github.com/alibaba/sentinel-golang/core/system_metric"
	"github.com/alibaba/sentinel-golang/util"
	"verifharness/internal/vh"
)

// clock: like vh.Clock but Sleep only records.
type clock struct {
	ns    uint64
	slept time.Duration
}

func (c *clock) Now() time.Time            { return time.Unix(0, int64(c.ns)) }
func (c *clock) Sleep(d time.Duration)     { c.slept += d }
func (c *clock) CurrentTimeMillis() uint64 { return c.ns / 1e6 }
func (c *clock) CurrentTimeNano() uint64   { return c.ns }

type Interp struct {
	clk  *clock
	rec  [][]string                     // the ops of phase A that are not reloads: `phase B` runs them again
	live map[uint64]*base.SentinelEntry // entries in flight (`in h …` … `out h …`)
}

const baseMs = 1900000000000

var errTraffic = errors.New("biz error")

func New() vh.Interp {
	runtime.GOMAXPROCS(1)
	debug.SetGCPercent(-1)
	vh.Silence()
	c := &clock{ns: baseMs * 1e6}
	util.SetClock(c)
	return &Interp{clk: c}
}

func (it *Interp) Reset() {
	it.rec = nil
	it.clear()
}

func (it *Interp) clear() {
	it.live = map[uint64]*base.SentinelEntry{} // entries still in flight are simply dropped with their phase
	it.clk.ns = baseMs * 1e6                   // every phase starts at the same virtual time
	system_metric.SetSystemMemoryUsage(system_metric.NotRetrievedMemoryValue)
	_ = flow.ClearRules()
	_ = circuitbreaker.ClearRules()
	_ = hotspot.ClearRules()
	circuitbreaker.ClearStateChangeListeners()
	stat.ResetResourceNodeMap()
	it.clk.slept = 0
	debug.FreeOSMemory()
}

func nums(s string) []uint64 {
	parts := strings.Split(s, ":")
	out := make([]uint64, len(parts))
	for i, p := range parts {
		out[i] = vh.U(p)
	}
	return out
}

func resName(x uint64) string { return "r" + strconv.FormatUint(x, 10) }

func split(arg string) []string {
	if arg == "-" {
		return nil
	}
	return strings.Split(arg, ",")
}

// freshly allocated rule objects on every load, as a caller decoding a configuration would pass them
func cbRules(arg string) []*circuitbreaker.Rule {
	var rs []*circuitbreaker.Rule
	for _, s := range split(arg) {
		n := nums(s)
		if len(n) != 10 {
			panic("bad cb rule " + s)
		}
		rs = append(rs, &circuitbreaker.Rule{
			Id: strconv.FormatUint(n[0], 10), Resource: resName(n[1]), Strategy: circuitbreaker.Strategy(n[2]),
			RetryTimeoutMs: uint32(n[3]), MinRequestAmount: n[4], StatIntervalMs: uint32(n[5]),
			StatSlidingWindowBucketCount: uint32(n[6]), MaxAllowedRtMs: n[7], Threshold: float64(n[8]), ProbeNum: n[9],
		})
	}
	return rs
}

func flowRules(arg string) []*flow.Rule {
	var rs []*flow.Rule
	for _, s := range split(arg) {
		n := nums(s)
		if len(n) != 11 && len(n) != 15 {
			panic("bad flow rule " + s)
		}
		if len(n) == 11 {
			n = append(n, 0, 0, 0, 0)
		}
		ref := ""
		if n[6] != 0 {
			ref = resName(n[6])
		}
		rs = append(rs, &flow.Rule{
			ID: strconv.FormatUint(n[0], 10), Resource: resName(n[1]), TokenCalculateStrategy: flow.TokenCalculateStrategy(n[2]),
			ControlBehavior: flow.ControlBehavior(n[3]), Threshold: float64(n[4]), RelationStrategy: flow.RelationStrategy(n[5]),
			RefResource: ref, MaxQueueingTimeMs: uint32(n[7]), WarmUpPeriodSec: uint32(n[8]), WarmUpColdFactor: uint32(n[9]),
			StatIntervalInMs:     uint32(n[10]),
			LowMemUsageThreshold: int64(n[11]), HighMemUsageThreshold: int64(n[12]),
			MemLowWaterMarkBytes: int64(n[13]), MemHighWaterMarkBytes: int64(n[14]),
		})
	}
	return rs
}

func hotRules(arg string) []*hotspot.Rule {
	var rs []*hotspot.Rule
	for _, s := range split(arg) {
		n := nums(s)
		if len(n) != 13 && len(n) != 14 {
			panic("bad hotspot rule " + s)
		}
		key := ""
		if len(n) == 14 && n[13] != 0 {
			key = "k" + strconv.FormatUint(n[13], 10)
		}
		idx := int(n[4]) // 1000+k stands for -k
		if n[4] >= 1000 {
			idx = -int(n[4] - 1000)
		}
		var items map[interface{}]int64
		switch n[10] {
		case 1:
			items = map[interface{}]int64{}
		case 2:
			items = map[interface{}]int64{int(n[11]): int64(n[12])}
		}
		rs = append(rs, &hotspot.Rule{
			ID: strconv.FormatUint(n[0], 10), Resource: resName(n[1]), MetricType: hotspot.MetricType(n[2]),
			ControlBehavior: hotspot.ControlBehavior(n[3]), ParamIndex: idx, ParamKey: key, Threshold: int64(n[5]),
			MaxQueueingTimeMs: int64(n[6]), BurstCount: int64(n[7]), DurationInSec: int64(n[8]), ParamsMaxCapacity: int64(n[9]),
			SpecificItems: items,
		})
	}
	return rs
}

// reqOpts turns the request token `a.b.c@k=v@k=v` (`0` = no arguments) into entry options
func reqOpts(tok string) []sentinel.EntryOption {
	parts := strings.Split(tok, "@")
	var opts []sentinel.EntryOption
	if parts[0] != "0" && parts[0] != "" {
		var args []interface{}
		for _, a := range strings.Split(parts[0], ".") {
			args = append(args, int(vh.U(a)))
		}
		opts = append(opts, sentinel.WithArgs(args...))
	}
	for _, kv := range parts[1:] {
		p := strings.Split(kv, "=")
		if len(p) != 2 {
			panic("bad attachment " + kv)
		}
		opts = append(opts, sentinel.WithAttachment("k"+strconv.FormatUint(vh.U(p[0]), 10), int(vh.U(p[1]))))
	}
	return opts
}

func fieldNames(v interface{}) string {
	t := reflect.TypeOf(v)
	var xs []string
	for i := 0; i < t.NumField(); i++ {
		xs = append(xs, t.Field(i).Name)
	}
	return strings.Join(xs, ",")
}

func blockText(b *base.BlockError) string {
	id := "-"
	switch r := b.TriggeredRule().(type) {
	case *flow.Rule:
		id = r.ID
	case *circuitbreaker.Rule:
		id = r.Id
	case *hotspot.Rule:
		id = r.ID
	}
	kind := "other"
	switch b.BlockType().String() {
	case "BlockTypeFlowControl":
		kind = "flow"
	case "BlockTypeCircuitBreaking":
		kind = "cb"
	case "BlockTypeHotSpotParamFlow":
		kind = "hot"
	}
	return fmt.Sprintf("block %s %s", kind, id)
}

func (it *Interp) Step(t []string, op string) string {
	if t[0] == "phase" {
		// the same traffic once more, from scratch, without the reloads
		it.clear()
		var out []string
		for _, o := range it.rec {
			r := it.step(o, strings.Join(o, " "))
			if o[0] == "e" || o[0] == "in" {
				out = append(out, r)
			}
		}
		if len(out) == 0 {
			return "-"
		}
		return strings.Join(out, ";")
	}
	r := it.step(t, op)
	if !strings.Contains(t[0], ".reload") {
		it.rec = append(it.rec, append([]string(nil), t...))
	}
	return r
}

func (it *Interp) step(t []string, op string) string {
	switch t[0] {
	case "t":
		it.clk.ns = vh.U(t[1]) * 1e6
		return ""
	case "cb.load", "cb.reload":
		if _, err := circuitbreaker.LoadRules(cbRules(t[1])); err != nil {
			return "err"
		}
		return ""
	case "cb.loadres", "cb.reloadres":
		if _, err := circuitbreaker.LoadRulesOfResource(resName(vh.U(t[1])), cbRules(t[2])); err != nil {
			return "err"
		}
		return ""
	case "flow.load", "flow.reload":
		if _, err := flow.LoadRules(flowRules(t[1])); err != nil {
			return "err"
		}
		return ""
	case "flow.loadres", "flow.reloadres":
		if _, err := flow.LoadRulesOfResource(resName(vh.U(t[1])), flowRules(t[2])); err != nil {
			return "err"
		}
		return ""
	case "hot.load", "hot.reload":
		if _, err := hotspot.LoadRules(hotRules(t[1])); err != nil {
			return "err"
		}
		return ""
	case "hot.loadres", "hot.reloadres":
		if _, err := hotspot.LoadRulesOfResource(resName(vh.U(t[1])), hotRules(t[2])); err != nil {
			return "err"
		}
		return ""
	case "fields":
		switch t[1] {
		case "cb":
			return fieldNames(circuitbreaker.Rule{})
		case "flow":
			return fieldNames(flow.Rule{})
		case "hot":
			return fieldNames(hotspot.Rule{})
		}
		panic("bad op " + op)
	case "flow.rules":
		var xs []string
		for _, r := range flow.GetRulesOfResource(resName(vh.U(t[1]))) {
			xs = append(xs, r.ID)
		}
		return vh.List(xs)
	case "hot.rules":
		var xs []string
		for _, r := range hotspot.GetRulesOfResource(resName(vh.U(t[1]))) {
			xs = append(xs, r.ID)
		}
		return vh.List(xs)
	case "mem":
		system_metric.SetSystemMemoryUsage(int64(vh.U(t[1])))
		return ""
	case "in":
		it.clk.slept = 0
		e, b := sentinel.Entry(resName(vh.U(t[2])), reqOpts(t[3])...)
		if b != nil {
			return blockText(b)
		}
		it.live[vh.U(t[1])] = e
		if it.clk.slept > 0 {
			return fmt.Sprintf("pass wait %d", int64(it.clk.slept))
		}
		return "pass"
	case "out":
		e := it.live[vh.U(t[1])]
		if e == nil {
			return "none"
		}
		delete(it.live, vh.U(t[1]))
		if t[2] != "0" {
			sentinel.TraceError(e, errTraffic)
		}
		e.Exit()
		return "done"
	case "e":
		it.clk.slept = 0
		var opts []sentinel.EntryOption
		if len(t) > 3 {
			opts = reqOpts(t[3])
		}
		e, b := sentinel.Entry(resName(vh.U(t[1])), opts...)
		if len(t) > 4 {
			// the request takes that long (refused or not, so that both phases keep the same clock); the clock stays there
			it.clk.ns += vh.U(t[4]) * 1e6
		}
		if b != nil {
			return blockText(b)
		}
		if t[2] != "0" {
			sentinel.TraceError(e, errTraffic)
		}
		e.Exit()
		if it.clk.slept > 0 {
			return fmt.Sprintf("pass wait %d", int64(it.clk.slept))
		}
		return "pass"
	}
	panic("bad op " + op)
}
