// Package c14 interprets the C14 op language against the real packages (stub).
package c14

import "verifharness/internal/vh"

// New returns the interpreter for C14.
func New() vh.Interp { return nil }
