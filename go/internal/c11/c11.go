// Package c11 interprets the C11 op language against the real packages (stub).
package c11

import "verifharness/internal/vh"

// New returns the interpreter for C11.
func New() vh.Interp { return nil }
