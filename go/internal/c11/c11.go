// Package c11 interprets the C11 op language against the real packages: flow.LoadRules with the
// WarmUp / MemoryAdaptive token calculators + Reject behaviour, api.Entry under a virtual clock,
// system_metric.SetSystemMemoryUsage as the injected memory reading.
package c11

import (
	"fmt"
	"strings"
	"sync"

	sentinel "github.com/alibaba/sentinel-golang/api"
	"github.com/alibaba/sentinel-golang/core/base"
	"github.com/alibaba/sentinel-golang/core/flow"
	"github.com/alibaba/sentinel-golang/core/stat"
	"github.com/alibaba/sentinel-golang/core/system_metric"
	"verifharness/internal/vh"
)

const res = "c11-res"

type Interp struct {
	clk    *vh.Clock
	loaded bool
	soakN  int
	comp   string // "none" | "pre" | "post": a generous Direct+Reject rule on the default statistic listed before / after the adaptive rule
}

func New() vh.Interp {
	vh.Silence()
	return &Interp{clk: vh.NewClock(1_900_000_000_000)}
}

func (it *Interp) Reset() {
	if _, err := flow.LoadRules(nil); err != nil {
		panic(err)
	}
	stat.ResetResourceNodeMap()
	system_metric.SetSystemMemoryUsage(system_metric.NotRetrievedMemoryValue)
	it.loaded = false
	it.comp = "none"
	it.clk.Sleeps = nil
}

func (it *Interp) load(r *flow.Rule) string {
	// a later load in the same case reloads the resource's rules (fresh *flow.Rule objects every time)
	it.loaded = true
	rules := []*flow.Rule{r}
	plain := &flow.Rule{Resource: res, TokenCalculateStrategy: flow.Direct, ControlBehavior: flow.Reject, Threshold: 1e9}
	switch it.comp {
	case "pre":
		rules = []*flow.Rule{plain, r}
	case "post":
		rules = []*flow.Rule{r, plain}
	}
	if _, err := flow.LoadRules(rules); err != nil {
		return "ok 0"
	}
	n := 0
	for _, x := range flow.GetRulesOfResource(res) {
		if x.TokenCalculateStrategy != flow.Direct {
			n++
		}
	}
	return fmt.Sprintf("ok %d", n)
}

// soak: sequential single-token requests against a MemoryAdaptive+Reject rule (1 s window, clock frozen) while `flippers`
// goroutines keep overwriting the memory gauge with readings between the water marks, far below the low and far above
// the high one. Whatever reading a request sees, the threshold is within [highT, lowT], so at most lowT requests fit into
// the window. Only the verdict is printed (the admitted count depends on the interleaving).
func (it *Interp) soak(lowT, highT, lowM, highM int64, nreq, flippers int) string {
	it.soakN++
	name := fmt.Sprintf("c11-soak-%d", it.soakN)
	rule := &flow.Rule{Resource: name, TokenCalculateStrategy: flow.MemoryAdaptive, ControlBehavior: flow.Reject,
		LowMemUsageThreshold: lowT, HighMemUsageThreshold: highT, MemLowWaterMarkBytes: lowM, MemHighWaterMarkBytes: highM}
	if _, err := flow.LoadRulesOfResource(name, []*flow.Rule{rule}); err != nil {
		panic(err)
	}
	if len(flow.GetRulesOfResource(name)) != 1 {
		panic("soak rule not in force")
	}
	prev := system_metric.CurrentMemoryUsage()
	vals := []int64{(lowM + highM) / 2, 0, lowM + 1, highM * 100, highM - 1}
	stop := make(chan struct{})
	var wg sync.WaitGroup
	for f := 0; f < flippers; f++ {
		wg.Add(1)
		go func(f int) {
			defer wg.Done()
			for i := f; ; i++ {
				select {
				case <-stop:
					return
				default:
				}
				system_metric.SetSystemMemoryUsage(vals[i%len(vals)])
			}
		}(f)
	}
	admitted := int64(0)
	func() {
		defer func() {
			close(stop)
			wg.Wait()
			system_metric.SetSystemMemoryUsage(prev)
			_, _ = flow.LoadRulesOfResource(name, nil)
		}()
		for i := 0; i < nreq; i++ {
			e, blk := sentinel.Entry(name)
			if blk == nil {
				admitted++
				e.Exit()
			}
		}
	}()
	if admitted > lowT {
		return fmt.Sprintf("cap=exceeded admitted=%d cap=%d", admitted, lowT)
	}
	return "cap=ok"
}

func (it *Interp) Step(t []string, op string) string {
	// a trailing q=<ms> on a load selects ControlBehavior Throttling with that MaxQueueingTimeMs
	behav, maxQ := flow.Reject, uint32(0)
	if last := t[len(t)-1]; strings.HasPrefix(last, "q=") {
		behav, maxQ = flow.Throttling, uint32(vh.U(last[2:]))
		t = t[:len(t)-1]
	}
	switch t[0] {
	case "companion":
		it.comp = t[1]
		return ""
	case "probe":
		before := len(it.clk.Sleeps)
		e, blk := sentinel.Entry(res, sentinel.WithBatchCount(uint32(vh.U(t[1]))))
		if blk != nil {
			if blk.BlockType() != base.BlockTypeFlow {
				panic("blocked by " + blk.BlockType().String())
			}
			return "block"
		}
		e.Exit()
		w := int64(0)
		for _, d := range it.clk.Sleeps[before:] {
			w += int64(d)
		}
		it.clk.Sleeps = it.clk.Sleeps[:0]
		if w > 0 {
			return fmt.Sprintf("wait %d", w)
		}
		return "pass"
	case "soak":
		return it.soak(vh.I(t[1]), vh.I(t[2]), vh.I(t[3]), vh.I(t[4]), int(vh.U(t[5])), int(vh.U(t[6])))
	case "clock":
		it.clk.SetMs(vh.U(t[1]))
		return ""
	case "load":
		switch t[1] {
		case "wu":
			thr, ok := vh.ParseFBits(t[2])
			if !ok {
				panic("bad threshold " + t[2])
			}
			return it.load(&flow.Rule{
				Resource:               res,
				TokenCalculateStrategy: flow.WarmUp,
				ControlBehavior:        behav,
				MaxQueueingTimeMs:      maxQ,
				Threshold:              thr,
				WarmUpPeriodSec:        uint32(vh.U(t[3])),
				WarmUpColdFactor:       uint32(vh.U(t[4])),
				StatIntervalInMs:       uint32(vh.U(t[5])),
			})
		case "ma":
			return it.load(&flow.Rule{
				Resource:               res,
				TokenCalculateStrategy: flow.MemoryAdaptive,
				ControlBehavior:        behav,
				MaxQueueingTimeMs:      maxQ,
				LowMemUsageThreshold:   vh.I(t[2]),
				HighMemUsageThreshold:  vh.I(t[3]),
				MemLowWaterMarkBytes:   vh.I(t[4]),
				MemHighWaterMarkBytes:  vh.I(t[5]),
				StatIntervalInMs:       uint32(vh.U(t[6])),
			})
		}
	case "mem":
		system_metric.SetSystemMemoryUsage(vh.I(t[1]))
		return ""
	case "req":
		n, b := int(vh.U(t[1])), uint32(vh.U(t[2]))
		admitted := 0
		for i := 0; i < n; i++ {
			e, blk := sentinel.Entry(res, sentinel.WithBatchCount(b))
			if blk == nil {
				admitted++
				e.Exit()
			} else if blk.BlockType() != base.BlockTypeFlow {
				panic("blocked by " + blk.BlockType().String())
			}
		}
		return fmt.Sprint(admitted)
	case "sum":
		n := stat.GetResourceNode(res)
		if n == nil {
			return "-"
		}
		return fmt.Sprint(n.GetSum(base.MetricEventPass))
	}
	panic("bad op " + op)
}
