// Package c11 interprets the C11 op language against the real packages: flow.LoadRules with the
// WarmUp / MemoryAdaptive token calculators + Reject behaviour, api.Entry under a virtual clock,
// system_metric.SetSystemMemoryUsage as the injected memory reading.
package c11

import (
	"fmt"

	sentinel "github.com/alibaba/sentinel-golang/api"
	"github.com/alibaba/sentinel-golang/core/base"
	"github.com/alibaba/sentinel-golang/core/flow"
	"github.com/alibaba/sentinel-golang/core/stat"
	"github.com/alibaba/sentinel-golang/core/system_metric"
	"verifharness/internal/vh"
)

const res = "c11-res"

type Interp struct {
	clk    *vh.Clock
	loaded bool
}

func New() vh.Interp {
	vh.Silence()
	return &Interp{clk: vh.NewClock(1_900_000_000_000)}
}

func (it *Interp) Reset() {
	if _, err := flow.LoadRules(nil); err != nil {
		panic(err)
	}
	stat.ResetResourceNodeMap()
	system_metric.SetSystemMemoryUsage(system_metric.NotRetrievedMemoryValue)
	it.loaded = false
}

func (it *Interp) load(r *flow.Rule) string {
	// a later load in the same case reloads the resource's rule (a fresh *flow.Rule object every time)
	it.loaded = true
	if _, err := flow.LoadRules([]*flow.Rule{r}); err != nil {
		return "ok 0"
	}
	return fmt.Sprintf("ok %d", len(flow.GetRulesOfResource(res)))
}

func (it *Interp) Step(t []string, op string) string {
	switch t[0] {
	case "clock":
		it.clk.SetMs(vh.U(t[1]))
		return ""
	case "load":
		switch t[1] {
		case "wu":
			thr, ok := vh.ParseFBits(t[2])
			if !ok {
				panic("bad threshold " + t[2])
			}
			return it.load(&flow.Rule{
				Resource:               res,
				TokenCalculateStrategy: flow.WarmUp,
				ControlBehavior:        flow.Reject,
				Threshold:              thr,
				WarmUpPeriodSec:        uint32(vh.U(t[3])),
				WarmUpColdFactor:       uint32(vh.U(t[4])),
				StatIntervalInMs:       uint32(vh.U(t[5])),
			})
		case "ma":
			return it.load(&flow.Rule{
				Resource:               res,
				TokenCalculateStrategy: flow.MemoryAdaptive,
				ControlBehavior:        flow.Reject,
				LowMemUsageThreshold:   vh.I(t[2]),
				HighMemUsageThreshold:  vh.I(t[3]),
				MemLowWaterMarkBytes:   vh.I(t[4]),
				MemHighWaterMarkBytes:  vh.I(t[5]),
				StatIntervalInMs:       uint32(vh.U(t[6])),
			})
		}
	case "mem":
		system_metric.SetSystemMemoryUsage(vh.I(t[1]))
		return ""
	case "req":
		n, b := int(vh.U(t[1])), uint32(vh.U(t[2]))
		admitted := 0
		for i := 0; i < n; i++ {
			e, blk := sentinel.Entry(res, sentinel.WithBatchCount(b))
			if blk == nil {
				admitted++
				e.Exit()
			} else if blk.BlockType() != base.BlockTypeFlow {
				panic("blocked by " + blk.BlockType().String())
			}
		}
		return fmt.Sprint(admitted)
	case "sum":
		n := stat.GetResourceNode(res)
		if n == nil {
			return "-"
		}
		return fmt.Sprint(n.GetSum(base.MetricEventPass))
	}
	panic("bad op " + op)
}
