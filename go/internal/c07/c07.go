// Package c07 interprets the C07 op language against the real packages: system rules through
// system.LoadRules, load / cpu readings through the system_metric test injection, traffic through
// api.Entry on the default global slot chain (no other rules are ever loaded, so every block is
// attributable to the system slot), statistics read from stat.InboundNode().
//
// The inbound node is a package-level object created at init with the real clock and cannot be
// recreated.  Cases carry absolute virtual times (≥ 1.9e12 ms, i.e. after the wall clock); when several
// cases run in one process the interpreter shifts the times of a case by a multiple of the whole array
// interval (10 000 ms) so that the case starts more than one array interval after everything recorded
// before — every old bucket is then deprecated and the slot alignment (t/500 mod 20) is unchanged.
// A single-case run (every replay) is not shifted at all.  The concurrency gauge is not time based:
// Reset exits every entry that is still live.
package c07

import (
	"errors"
	"fmt"
	"runtime"
	"runtime/debug"
	"sort"
	"strconv"
	"strings"

	sentinel "github.com/alibaba/sentinel-golang/api"
	"github.com/alibaba/sentinel-golang/core/base"
	"github.com/alibaba/sentinel-golang/core/config"
	"github.com/alibaba/sentinel-golang/core/stat"
	"github.com/alibaba/sentinel-golang/core/system"
	"github.com/alibaba/sentinel-golang/core/system_metric"
	"verifharness/internal/vh"
)

const arrayIntervalMs = 10000

var errBiz = errors.New("biz")

type Interp struct {
	clk       *vh.Clock
	live      map[string]*base.SentinelEntry
	started   bool
	caseNow   uint64 // case time (unshifted)
	shift     uint64
	last      uint64 // last real virtual time used, 0 = none yet
	lastRules []*system.Rule
	manySeq   int
}

func New() vh.Interp {
	// deterministic sync.Pool reuse (EntryOptions, EntryContext, TokenResult are pooled): one P, one OS thread, no GC
	runtime.GOMAXPROCS(1)
	runtime.LockOSThread()
	debug.SetGCPercent(-1)
	vh.Silence()
	c := vh.NewClock(1_900_000_000_000)
	return &Interp{clk: c, live: map[string]*base.SentinelEntry{}}
}

func (it *Interp) Reset() {
	ids := make([]string, 0, len(it.live))
	for id := range it.live {
		ids = append(ids, id)
	}
	sort.Strings(ids)
	for _, id := range ids {
		it.live[id].Exit()
	}
	it.live = map[string]*base.SentinelEntry{}
	_ = system.ClearRules()
	system_metric.SetSystemLoad(system_metric.NotRetrievedLoadValue)
	system_metric.SetSystemCpuUsage(system_metric.NotRetrievedCpuUsageValue)
	stat.ResetResourceNodeMap()
	it.lastRules = nil
	it.manySeq = 0
	config.ResetGlobalConfig(config.NewDefaultConfig())
	it.started = false
	it.caseNow = 0
	it.shift = 0
}

func parseRules(toks []string) ([]*system.Rule, bool) {
	rules := make([]*system.Rule, 0, len(toks))
	for _, t := range toks {
		if t == "nil" {
			rules = append(rules, nil)
			continue
		}
		p := strings.Split(t, "/")
		if len(p) != 3 {
			return nil, false
		}
		m, err1 := strconv.ParseUint(p[0], 10, 32)
		s, err2 := strconv.ParseInt(p[1], 10, 32)
		f, ok := vh.ParseFBits(p[2])
		if err1 != nil || err2 != nil || !ok {
			return nil, false
		}
		rules = append(rules, &system.Rule{MetricType: system.MetricType(m), Strategy: system.AdaptiveStrategy(s), TriggerCount: f})
	}
	return rules, true
}

func (it *Interp) Step(t []string, op string) string {
	switch t[0] {
	case "clock":
		if len(t) != 2 {
			return "bad-op"
		}
		ms, err := strconv.ParseUint(t[1], 10, 64)
		if err != nil || ms == 0 {
			return "bad-op"
		}
		if !it.started {
			it.shift = 0
			if it.last != 0 && ms < it.last+arrayIntervalMs+1 {
				d := it.last + arrayIntervalMs + 1 - ms
				it.shift = (d + arrayIntervalMs - 1) / arrayIntervalMs * arrayIntervalMs
			}
			it.started = true
		} else if ms < it.caseNow {
			return "bad-op"
		}
		it.caseNow = ms
		it.last = ms + it.shift
		it.clk.SetMs(it.last)
		return ""
	case "load":
		rules, ok := parseRules(t[1:])
		if !ok {
			return "bad-op"
		}
		it.lastRules = rules
		_, _ = system.LoadRules(rules)
		return ""
	case "remod":
		// the caller changes one of the rule objects it loaded last in place and loads the same slice again
		if len(t) != 3 {
			return "bad-op"
		}
		i, err := strconv.Atoi(t[1])
		nr, ok := parseRules(t[2:])
		if err != nil || !ok || i < 0 || i >= len(it.lastRules) || it.lastRules[i] == nil || nr[0] == nil {
			return "bad-op"
		}
		// only where it is a plain reload for the property: the object was in force and stays valid
		if system.IsValidSystemRule(it.lastRules[i]) != nil || system.IsValidSystemRule(nr[0]) != nil {
			return "bad-op"
		}
		*it.lastRules[i] = *nr[0]
		_, _ = system.LoadRules(it.lastRules)
		return ""
	case "sys":
		if len(t) != 3 {
			return "bad-op"
		}
		if t[1] == "mem" {
			m, err := strconv.ParseInt(t[2], 10, 64)
			if err != nil {
				return "bad-op"
			}
			system_metric.SetSystemMemoryUsage(m)
			if system_metric.CurrentMemoryUsage() != m {
				return "PANIC memory usage not stored"
			}
			return ""
		}
		f, ok := vh.ParseFBits(t[2])
		if !ok {
			return "bad-op"
		}
		switch t[1] {
		case "load":
			system_metric.SetSystemLoad(f)
		case "cpu":
			system_metric.SetSystemCpuUsage(f)
		default:
			return "bad-op"
		}
		return ""
	case "entry":
		if len(t) != 5 || !it.started {
			return "bad-op"
		}
		if _, dup := it.live[t[1]]; dup {
			return "bad-op"
		}
		// `default` = no WithTrafficType option at all (documented default: Outbound); batch `-` = no WithBatchCount
		// option (default 1): the options object is pooled, so what an earlier call set must not leak into this one
		opts := make([]sentinel.EntryOption, 0, 2)
		switch t[3] {
		case "in":
			opts = append(opts, sentinel.WithTrafficType(base.Inbound))
		case "out":
			opts = append(opts, sentinel.WithTrafficType(base.Outbound))
		case "default":
		default:
			return "bad-op"
		}
		if t[4] != "-" {
			b, err := strconv.ParseUint(t[4], 10, 32)
			if err != nil {
				return "bad-op"
			}
			opts = append(opts, sentinel.WithBatchCount(uint32(b)))
		}
		e, blk := sentinel.Entry(t[2], opts...)
		if blk != nil {
			if blk.BlockType() == base.BlockTypeSystemFlow {
				return "block sys"
			}
			return "block other:" + blk.BlockType().String()
		}
		it.live[t[1]] = e
		return "pass"
	case "exit":
		if !(len(t) == 2 || (len(t) == 3 && t[2] == "err")) || !it.started {
			return "bad-op"
		}
		if e, ok := it.live[t[1]]; ok {
			if len(t) == 3 {
				e.Exit(base.WithError(errBiz))
			} else {
				e.Exit()
			}
			delete(it.live, t[1])
		}
		return ""
	case "many":
		// n fresh resource names (per case), each entered with the default traffic type and exited at once:
		// the resource node map grows past base.DefaultMaxResourceAmount when n is large enough
		if len(t) != 2 || !it.started {
			return "bad-op"
		}
		n, err := strconv.Atoi(t[1])
		if err != nil || n < 0 {
			return "bad-op"
		}
		for k := 0; k < n; k++ {
			e, blk := sentinel.Entry("many-" + strconv.Itoa(it.manySeq))
			it.manySeq++
			if blk != nil {
				return "PANIC outbound entry of `many` blocked: " + blk.BlockType().String()
			}
			e.Exit()
		}
		return ""
	case "config":
		// another valid metric statistic shape in the global configuration (what InitWithConfig would leave behind)
		if len(t) != 3 {
			return "bad-op"
		}
		sc, err1 := strconv.ParseUint(t[1], 10, 32)
		iv, err2 := strconv.ParseUint(t[2], 10, 32)
		if err1 != nil || err2 != nil {
			return "bad-op"
		}
		cfg := config.NewDefaultConfig()
		cfg.Sentinel.Stat.MetricStatisticSampleCount = uint32(sc)
		cfg.Sentinel.Stat.MetricStatisticIntervalMs = uint32(iv)
		if base.CheckValidityForReuseStatistic(uint32(sc), uint32(iv), cfg.Sentinel.Stat.GlobalStatisticSampleCountTotal, cfg.Sentinel.Stat.GlobalStatisticIntervalMsTotal) != nil {
			return "bad-op"
		}
		config.ResetGlobalConfig(cfg)
		return ""
	case "rules":
		if len(t) != 1 {
			return "bad-op"
		}
		rs := system.GetRules()
		xs := make([]string, 0, len(rs))
		for _, r := range rs {
			xs = append(xs, fmt.Sprintf("%d/%d/%s", uint32(r.MetricType), int32(r.Strategy), vh.FBits(r.TriggerCount)))
		}
		return vh.SortedList(xs)
	case "stat":
		if len(t) != 1 || !it.started {
			return "bad-op"
		}
		n := stat.InboundNode()
		return fmt.Sprintf("[p=%d b=%d c=%d e=%d conc=%d avgrt=%s minrt=%s qps=%s maxavg=%s]",
			n.GetSum(base.MetricEventPass), n.GetSum(base.MetricEventBlock), n.GetSum(base.MetricEventComplete), n.GetSum(base.MetricEventError),
			n.CurrentConcurrency(), vh.FBits(n.AvgRT()), vh.FBits(n.MinRT()),
			vh.FBits(n.GetQPS(base.MetricEventPass)), vh.FBits(n.GetMaxAvg(base.MetricEventComplete)))
	}
	return "bad-op"
}
