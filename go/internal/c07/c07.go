// Package c07 interprets the C07 op language against the real packages (stub).
package c07

import "verifharness/internal/vh"

// New returns the interpreter for C07.
func New() vh.Interp { return nil }
