// Package c06 interprets the C06 op language (hot-parameter concurrency) against the real packages:
// hotspot.LoadRules + api.Entry(WithArgs/WithAttachments) + Exit, through the global slot chain.
package c06

import (
	"errors"
	"fmt"
	"os"
	"runtime"
	"runtime/debug"
	"strconv"
	"strings"
	"sync"
	"sync/atomic"
	"time"

	sentinel "github.com/alibaba/sentinel-golang/api"
	"github.com/alibaba/sentinel-golang/core/base"
	"github.com/alibaba/sentinel-golang/core/circuitbreaker"
	"github.com/alibaba/sentinel-golang/core/flow"
	"github.com/alibaba/sentinel-golang/core/hotspot"
	"github.com/alibaba/sentinel-golang/core/isolation"
	"github.com/alibaba/sentinel-golang/core/stat"
	"github.com/alibaba/sentinel-golang/core/system"
	"github.com/alibaba/sentinel-golang/util/verifhook"
	"verifharness/internal/vh"
)

const startMs = 1_900_000_000_000

var errBusiness = errors.New("business error")

type Interp struct {
	clk     *vh.Clock
	caseNo  uint64
	entries map[string]*base.SentinelEntry
	fb      []string
	steps   uint64
	inStep  uint32
	parked  map[string]*parked
	arming  *parked
	stormNo int
}

// parked is an api.Entry call running on its own goroutine and held at the yield point
// "chain.between-check-and-stat" of SlotChain.Entry.
type parked struct {
	reached chan struct{} // closed by the goroutine when it arrives at the yield point
	resume  chan struct{} // closed by the interpreter to let it continue
	done    chan string   // the result of the call
	entry   *base.SentinelEntry
}

func New() vh.Interp {
	// sync.Pool is LIFO on one P: with these three pins the reuse of pooled EntryOptions / EntryContext
	// objects is deterministic, so a regression of the args-copy repair shows on every run
	runtime.GOMAXPROCS(1)
	runtime.LockOSThread()
	debug.SetGCPercent(-1)
	vh.Silence()
	it := &Interp{clk: vh.NewClock(startMs), entries: map[string]*base.SentinelEntry{}, parked: map[string]*parked{}}
	// the scheduler hook: only the goroutine that was just launched by `pentry` stops (at the one yield point
	// between the rule-check loop and the statistic loop); every other yield is a no-op
	verifhook.Sched = func(point string) {
		if p := it.arming; p != nil && point == "chain.between-check-and-stat" {
			it.arming = nil
			close(p.reached)
			<-p.resume
		}
	}
	// watchdog (real time): a step that does not return (e.g. a spin loop in a mutated tree) must end the run
	// with an error instead of hanging the check
	go func() {
		last, same := uint64(0), 0
		for {
			time.Sleep(2 * time.Second)
			cur := atomic.LoadUint64(&it.steps)
			if cur == last && atomic.LoadUint32(&it.inStep) == 1 {
				same++
				if same >= 10 {
					fmt.Fprintln(os.Stderr, "c06: a step has not returned for 20 s (hang in the code under test)")
					os.Exit(3)
				}
			} else {
				same = 0
			}
			last = cur
		}
	}()
	return it
}

func (it *Interp) Reset() {
	// leave no entry of the previous case alive (their contexts go back to the pool)
	for id := range it.parked {
		it.finish(id)
	}
	for _, e := range it.entries {
		e.Exit()
	}
	it.entries = map[string]*base.SentinelEntry{}
	it.fb = nil
	_ = hotspot.ClearRules()
	_ = flow.ClearRules()
	_ = isolation.ClearRules()
	_ = circuitbreaker.ClearRules()
	_ = system.ClearRules()
	stat.ResetResourceNodeMap()
	it.caseNo++
	// time never goes back between cases (throttling rules make the code sleep on the virtual clock)
	next := it.clk.CurrentTimeMillis() + 20_000
	if base := uint64(startMs) + it.caseNo*20_000; base > next {
		next = base
	}
	it.clk.SetMs(next)
}

func parseVal(s string) interface{} {
	switch {
	case s == "nil":
		return nil
	case strings.HasPrefix(s, "i:"):
		return int(vh.I(s[2:]))
	case strings.HasPrefix(s, "l:"):
		return int64(vh.I(s[2:]))
	case strings.HasPrefix(s, "s:"):
		return s[2:]
	case s == "b:1":
		return true
	case s == "b:0":
		return false
	}
	panic("bad value " + s)
}

func showVal(v interface{}) string {
	switch x := v.(type) {
	case nil:
		return "nil"
	case int:
		return "i:" + strconv.Itoa(x)
	case int64:
		return "l:" + strconv.FormatInt(x, 10)
	case string:
		return "s:" + x
	case bool:
		if x {
			return "b:1"
		}
		return "b:0"
	}
	return fmt.Sprintf("?%T", v)
}

func parseRule(s string) *hotspot.Rule {
	p := strings.Split(s, ";")
	if len(p) != 7 {
		panic("bad rule " + s)
	}
	r := &hotspot.Rule{
		Resource:          p[0],
		ParamIndex:        int(vh.I(p[2])),
		ParamKey:          p[3],
		Threshold:         vh.I(p[4]),
		ParamsMaxCapacity: vh.I(p[5]),
		SpecificItems:     map[interface{}]int64{},
	}
	switch p[1] {
	case "c":
		// DurationInSec is legal and ignored for a Concurrency rule; 1 like the QPS rules of this op language, so that a
		// reload that only switches the MetricType keeps every field IsStatReusable looks at apart from the MetricType
		r.MetricType = hotspot.Concurrency
		r.DurationInSec = 1
	case "ct":
		// legal and documented as irrelevant: ControlBehavior of a Concurrency rule
		r.MetricType = hotspot.Concurrency
		r.ControlBehavior = hotspot.Throttling
		r.DurationInSec = 1
	case "q":
		// a QPS rule that never blocks within a case (the clock does not move): C05 is about those
		r.MetricType = hotspot.QPS
		r.ControlBehavior = hotspot.Reject
		r.DurationInSec = 1
		r.Threshold = 1_000_000_000
		r.ParamsMaxCapacity = 0
	case "t":
		// a QPS rule in throttling mode that queues (one token per second and value: a request closer than `batch`
		// seconds to the previous one for the value gets ShouldWait, the slot sleeps on the virtual clock and goes on)
		// and never blocks (queueing time far beyond anything a case accumulates)
		r.MetricType = hotspot.QPS
		r.ControlBehavior = hotspot.Throttling
		r.DurationInSec = 1
		r.Threshold = 1
		r.MaxQueueingTimeMs = 1_000_000_000
		r.ParamsMaxCapacity = 0
	default:
		panic("bad rule kind " + s)
	}
	if p[6] != "" {
		for _, it := range strings.Split(p[6], ",") {
			kv := strings.Split(it, "=")
			if len(kv) != 2 {
				panic("bad item " + it)
			}
			r.SpecificItems[parseVal(kv[0])] = vh.I(kv[1])
		}
	}
	if p[1] != "c" && p[1] != "ct" {
		r.SpecificItems = map[interface{}]int64{}
	}
	return r
}

// doEntry parses the arguments of an entry op and calls api.Entry.
func doEntry(t []string) (*base.SentinelEntry, string) {
	res := t[2]
	var args []interface{}
	var groups [][]interface{} // `+` closes a WithArgs option and starts the next one
	var atts map[interface{}]interface{}
	batch := int64(-1)
	for _, s := range t[3:] {
		if s == "+" {
			groups = append(groups, args)
			args = nil
		} else if strings.HasPrefix(s, "#") {
			batch = int64(vh.U(s[1:]))
		} else if strings.HasPrefix(s, "@") {
			kv := strings.SplitN(s[1:], "=", 2)
			if len(kv) != 2 {
				panic("bad attachment " + s)
			}
			if atts == nil {
				atts = map[interface{}]interface{}{}
			}
			atts[kv[0]] = parseVal(kv[1])
		} else {
			args = append(args, parseVal(s))
		}
	}
	var opts []sentinel.EntryOption
	if batch >= 0 {
		// the two spellings of the batch count, and two options no slot of this chain reads
		if batch%2 == 1 {
			opts = append(opts, sentinel.WithAcquireCount(uint32(batch)), sentinel.WithFlag(int32(batch)))
		} else {
			opts = append(opts, sentinel.WithBatchCount(uint32(batch)), sentinel.WithResourceType(base.ResTypeWeb))
		}
	}
	for _, g := range groups {
		opts = append(opts, sentinel.WithArgs(g...))
	}
	if len(args) > 0 {
		opts = append(opts, sentinel.WithArgs(args...))
	}
	if len(atts) == 1 {
		for k, v := range atts {
			opts = append(opts, sentinel.WithAttachment(k, v))
		}
	} else if atts != nil {
		opts = append(opts, sentinel.WithAttachments(atts))
	}
	e, b := sentinel.Entry(res, opts...)
	if b != nil {
		switch b.BlockType() {
		case base.BlockTypeHotSpotParamFlow:
			return nil, "block hot"
		case base.BlockTypeFlow:
			return nil, "block flow"
		}
		return nil, "block " + b.BlockType().String()
	}
	return e, "pass"
}

// storm: real parallelism. Per round a fresh value; g goroutines call api.Entry(res, value) at once; when all have
// decided, the admitted ones exit; then a sequential probe admits entries for the value until the first refusal (at most
// g+8) and exits them. Returns the least / greatest number of entries the probe admitted over all rounds: on correct
// code the cells are back at 0 after the exits whatever the schedule, so this is one fixed number.
// With x2 the admitted entries are exited by the workers, every entry by two of them at the same moment (Exit must be
// idempotent under overlap: exactly one of the two calls releases the unit).
func (it *Interp) storm(res, kind string, g, rounds int, x2 bool) string {
	it.stormNo++
	procs := runtime.NumCPU()
	if procs > 16 {
		procs = 16
	}
	if procs < 2 {
		procs = 2
	}
	old := runtime.GOMAXPROCS(procs)
	defer runtime.GOMAXPROCS(old)
	lo, hi := -1, -1
	got := make([]*base.SentinelEntry, g)
	probe := make([]*base.SentinelEntry, 0, g+8)
	// g persistent workers; a round starts for all of them at once when `gen` reaches its number (they spin on it, so
	// that the calls really overlap), and is over when `decided` has counted g more decisions
	var gen, decided, xgen, exited int64
	var stop int32
	var cur interface{}
	// wall-clock budget (real time): on an overloaded machine the spinning barriers get slow; the observation does not
	// depend on how many rounds were run, so the op simply ends early (0.4 ms per round asked for, at least 1 s)
	budget := time.Duration(rounds) * 400 * time.Microsecond
	if budget < time.Second {
		budget = time.Second
	}
	deadline := time.Now().Add(budget)
	yield := procs <= g
	var wg sync.WaitGroup
	wg.Add(g)
	for i := 0; i < g; i++ {
		go func(i int) {
			defer wg.Done()
			for r := int64(1); r <= int64(rounds); r++ {
				for n := 0; atomic.LoadInt64(&gen) < r; n++ {
					if atomic.LoadInt32(&stop) != 0 {
						return
					}
					if yield || n&31 == 31 {
						runtime.Gosched()
					}
				}
				e, _ := sentinel.Entry(res, sentinel.WithArgs(cur))
				got[i] = e
				atomic.AddInt64(&decided, 1)
				if x2 {
					for n := 0; atomic.LoadInt64(&xgen) < r; n++ {
						if yield || n&31 == 31 {
							runtime.Gosched()
						}
					}
					// worker i and worker i-1 both exit entry i
					if e := got[i]; e != nil {
						e.Exit()
					}
					if e := got[(i+1)%g]; e != nil {
						e.Exit()
					}
					atomic.AddInt64(&exited, 1)
				}
			}
		}(i)
	}
	for r := 1; r <= rounds; r++ {
		if r&15 == 0 && time.Now().After(deadline) {
			break
		}
		var v interface{}
		if kind == "s" {
			v = "w" + strconv.Itoa(it.stormNo) + "_" + strconv.Itoa(r)
		} else {
			v = 1000000 + it.stormNo*100000000 + r
		}
		cur = v
		atomic.StoreInt64(&gen, int64(r))
		for n := 0; atomic.LoadInt64(&decided) < int64(r)*int64(g); n++ {
			if yield || n&31 == 31 {
				runtime.Gosched()
			}
		}
		if x2 {
			atomic.StoreInt64(&xgen, int64(r))
			for n := 0; atomic.LoadInt64(&exited) < int64(r)*int64(g); n++ {
				if yield || n&31 == 31 {
					runtime.Gosched()
				}
			}
			for i := range got {
				got[i] = nil
			}
		} else {
			for i, e := range got {
				if e != nil {
					e.Exit()
					got[i] = nil
				}
			}
		}
		probe = probe[:0]
		for len(probe) < g+8 {
			e, b := sentinel.Entry(res, sentinel.WithArgs(v))
			if b != nil {
				break
			}
			probe = append(probe, e)
		}
		n := len(probe)
		for _, e := range probe {
			e.Exit()
		}
		atomic.AddUint64(&it.steps, 1) // progress for the watchdog: a round, not the whole op, must end within its patience
		if lo < 0 || n < lo {
			lo = n
		}
		if n > hi {
			hi = n
		}
	}
	atomic.StoreInt32(&stop, 1)
	wg.Wait()
	return fmt.Sprintf("lo=%d hi=%d", lo, hi)
}

// finish lets a parked entry run to completion and returns its result.
func (it *Interp) finish(id string) string {
	p := it.parked[id]
	delete(it.parked, id)
	close(p.resume)
	r := <-p.done
	if p.entry != nil {
		it.entries[id] = p.entry
	}
	return r
}

func (it *Interp) Step(t []string, op string) string {
	atomic.StoreUint32(&it.inStep, 1)
	defer func() {
		atomic.AddUint64(&it.steps, 1)
		atomic.StoreUint32(&it.inStep, 0)
	}()
	switch t[0] {
	case "load":
		rules := make([]*hotspot.Rule, 0, len(t)-1)
		for _, s := range t[1:] {
			rules = append(rules, parseRule(s))
		}
		if err := hotspot.ClearRules(); err != nil {
			return "err"
		}
		if _, err := hotspot.LoadRules(rules); err != nil {
			return "err"
		}
		return ""
	case "reload":
		rules := make([]*hotspot.Rule, 0, len(t)-1)
		for _, s := range t[1:] {
			rules = append(rules, parseRule(s))
		}
		if _, err := hotspot.LoadRules(rules); err != nil {
			return "err"
		}
		return ""
	case "storm":
		return it.storm(t[1], t[2], int(vh.U(t[3])), int(vh.U(t[4])), len(t) > 5 && t[5] == "x2")
	case "reloadres":
		rules := make([]*hotspot.Rule, 0, len(t)-2)
		for _, s := range t[2:] {
			rules = append(rules, parseRule(s))
		}
		if _, err := hotspot.LoadRulesOfResource(t[1], rules); err != nil {
			return "err"
		}
		return ""
	case "trace":
		if e, ok := it.entries[t[1]]; ok {
			sentinel.TraceError(e, errBusiness)
		}
		return ""
	case "flowblock":
		it.fb = append(it.fb, t[1])
		rules := make([]*flow.Rule, 0, len(it.fb))
		seen := map[string]bool{}
		for _, r := range it.fb {
			if seen[r] {
				continue
			}
			seen[r] = true
			rules = append(rules, &flow.Rule{Resource: r, Threshold: 0,
				TokenCalculateStrategy: flow.Direct, ControlBehavior: flow.Reject})
		}
		if _, err := flow.LoadRules(rules); err != nil {
			return "err"
		}
		return ""
	case "entry":
		id := t[1]
		if _, dup := it.entries[id]; dup {
			panic("duplicate entry id " + id)
		}
		e, r := doEntry(t)
		if e != nil {
			it.entries[id] = e
		}
		return r
	case "pentry":
		id := t[1]
		if _, dup := it.entries[id]; dup {
			panic("duplicate entry id " + id)
		}
		if _, dup := it.parked[id]; dup {
			panic("duplicate entry id " + id)
		}
		p := &parked{reached: make(chan struct{}), resume: make(chan struct{}), done: make(chan string, 1)}
		it.arming = p
		go func() {
			defer func() {
				if x := recover(); x != nil {
					p.done <- fmt.Sprintf("PANIC %v", x)
				}
			}()
			e, r := doEntry(t)
			p.entry = e
			p.done <- r
		}()
		select {
		case <-p.reached:
			it.parked[id] = p
		case r := <-p.done:
			// the call ended without passing the yield point (cannot happen on the unchanged tree)
			it.arming = nil
			return "unparked " + r
		}
		return ""
	case "resume":
		if _, ok := it.parked[t[1]]; !ok {
			return "none"
		}
		return it.finish(t[1])
	case "exit":
		if e, ok := it.entries[t[1]]; ok {
			if len(t) > 2 && t[2] == "err" {
				e.Exit(base.WithError(errBusiness))
			} else {
				e.Exit()
			}
			delete(it.entries, t[1])
		}
		return ""
	case "args":
		e, ok := it.entries[t[1]]
		if !ok {
			return "none"
		}
		xs := e.Context().Input.Args
		out := make([]string, len(xs))
		for i, x := range xs {
			out[i] = showVal(x)
		}
		return vh.List(out)
	}
	panic("bad op " + op)
}
