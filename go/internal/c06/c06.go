// Package c06 interprets the C06 op language against the real packages (stub).
package c06

import "verifharness/internal/vh"

// New returns the interpreter for C06.
func New() vh.Interp { return nil }
