// Command extract15 is the C15 translator: it reads the Go source of the sentinel packages and emits the
// access table the Lean theorems of Sentinel.Props.C15 are about (lean/Sentinel/Gen/Access.lean) plus a
// JSON copy of the same rows for the check module (mapping race-detector reports to rows).
//
//	extract15 -repo /repo -lean out/Access.lean -json out/access.json
//
// What it extracts (DESIGN.md 6.C15):
//   - every read / write site of every package-level variable of the API packages, classified by object
//     class (depth 0 = the variable cell, 1 = the map/slice it points to, 2 = inner maps/slices ...), with the
//     package-level mutexes provably held (lexical Lock/RLock..Unlock tracking, `defer Unlock`, and a
//     package-local greatest fix-point for "held on entry"); local aliases of map/slice type are tracked, also
//     through package-local calls (callee re-analysed with the parameter bound to the class);
//   - every field / variable passed to sync/atomic and every plain use of the same field / variable;
//   - nested lock acquisitions (directly and through calls, across the analysed packages);
//   - per slot phase (Check / Prepare / OnEntryPassed / OnEntryBlocked / OnCompleted): how many critical
//     sections of each package-level RW mutex it enters.
//
// It fails closed: a construct it does not interpret becomes an `unknown` row, which the theorem rejects.
package main

import (
	"encoding/json"
	"flag"
	"fmt"
	"go/ast"
	"go/build"
	"go/importer"
	"go/parser"
	"go/token"
	"go/types"
	"io"
	"os"
	"os/exec"
	"path/filepath"
	"sort"
	"strings"
)

const module = "github.com/alibaba/sentinel-golang/"

// packages whose package-level variables are tracked
var varPkgs = []string{"api", "core/base", "core/stat", "core/flow", "core/isolation", "core/hotspot",
	"core/circuitbreaker", "core/system", "core/outlier"}

// additional packages analysed for atomic-field discipline and lock order
var morePkgs = []string{"core/stat/base", "core/hotspot/cache", "util"}

// Exported functions that are registration / start-up API, not part of the property's statement
// ("Entry, Exit, TraceError, every module's rule loading/clearing/getter functions and the statistics
// getters").  Sites reachable only from these are phase `setup`.  Anything not listed is `live`.
var setupOnly = map[string]bool{
	"core/flow.SetTrafficShapingGenerator":              true,
	"core/flow.RemoveTrafficShapingGenerator":           true,
	"core/hotspot.SetTrafficShapingGenerator":           true,
	"core/hotspot.RemoveTrafficShapingGenerator":        true,
	"core/circuitbreaker.RegisterStateChangeListeners":  true, // documented "not thread-safe"
	"core/circuitbreaker.ClearStateChangeListeners":     true, // documented "not thread-safe"
	"core/circuitbreaker.SetCircuitBreakerGenerator":    true,
	"core/circuitbreaker.RemoveCircuitBreakerGenerator": true,
	"api.InitDefault":                true,
	"api.InitWithParser":             true,
	"api.InitWithConfig":             true,
	"api.InitWithConfigFile":         true,
	"core/base.RegistryBlockType":    true,
	"core/stat.ResetResourceNodeMap": true, // test helper ("for test"), swaps the map under the write lock anyway
}

var slotPhases = map[string]bool{"Check": true, "Prepare": true, "OnEntryPassed": true, "OnEntryBlocked": true, "OnCompleted": true}

// external callees that only read their arguments
func readOnlyCallee(pkgPath, name string) bool {
	switch pkgPath {
	case "fmt", "errors", "github.com/pkg/errors", "reflect", module + "logging", "strings", "strconv", "encoding/json":
		return true
	}
	return false
}

type Class struct {
	Pkg   string `json:"pkg"`
	Var   string `json:"var"`
	Depth int    `json:"depth"`
}

func (c Class) String() string { return c.Pkg + "." + c.Var + strings.Repeat("[*]", c.Depth) }

type Held struct {
	Mu string `json:"mu"`
	W  bool   `json:"w"`
}

type Row struct {
	Class string `json:"class"`
	Write bool   `json:"write"`
	Held  []Held `json:"held"`
	Phase string `json:"phase"`
	Fn    string `json:"fn"`
	Pos   string `json:"pos"`
	Via   string `json:"via,omitempty"`
}

type Plain struct {
	Field string `json:"field"`
	Write bool   `json:"write"`
	Phase string `json:"phase"`
	Fn    string `json:"fn"`
	Pos   string `json:"pos"`
}

type Edge struct {
	Outer string `json:"outer"`
	Inner string `json:"inner"`
	Fn    string `json:"fn"`
	Pos   string `json:"pos"`
}

type Shape struct {
	Slot     string `json:"slot"`
	Mu       string `json:"mu"`
	Sections int    `json:"sections"`
	InLoop   bool   `json:"inLoop"`
}

type Insert struct {
	Class     string   `json:"class"`
	Key       string   `json:"key"`
	Guards    []string `json:"guards"`
	Rechecked bool     `json:"recheckedUnderWriteLock"`
	Phase     string   `json:"phase"`
	Fn        string   `json:"fn"`
	Pos       string   `json:"pos"`
}

// Risky: an operation that can panic on caller-controlled data, inside a critical section opened in the same function
type Risky struct {
	Mu       string `json:"mu"`
	Op       string `json:"op"`
	Deferred bool   `json:"unlockDeferred"`
	Phase    string `json:"phase"`
	Fn       string `json:"fn"`
	Pos      string `json:"pos"`
}

// CallerStore: a struct field of map/slice type is set to a parameter of an exported function without copying
type CallerStore struct {
	Field string `json:"field"`
	Param string `json:"param"`
	Phase string `json:"phase"`
	Fn    string `json:"fn"`
	Pos   string `json:"pos"`
}

// FieldWrite: an in-place write through a struct field of map/slice type
type FieldWrite struct {
	Field string `json:"field"`
	Op    string `json:"op"`
	Phase string `json:"phase"`
	Fn    string `json:"fn"`
	Pos   string `json:"pos"`
}

// OnceFact: a method whose effects on its receiver run inside `recv.<once>.Do(func(){...})`
type OnceFact struct {
	Fn      string `json:"fn"`
	Once    string `json:"once"`
	Inside  int    `json:"effectsInside"`
	Outside int    `json:"effectsOutside"`
	Pos     string `json:"pos"`
}

type Unknown struct {
	Phase string `json:"phase"`
	Fn    string `json:"fn"`
	Pos   string `json:"pos"`
	What  string `json:"what"`
}

type Out struct {
	Repo      string        `json:"repo"`
	Accesses  []Row         `json:"accesses"`
	Atomics   []string      `json:"atomicFields"`
	AtomicUse int           `json:"atomicUses"`
	Plains    []Plain       `json:"plainUses"`
	Edges     []Edge        `json:"lockEdges"`
	Shapes    []Shape       `json:"slotShapes"`
	Unknowns  []Unknown     `json:"unknowns"`
	Inserts   []Insert      `json:"inserts"`
	Risky     []Risky       `json:"riskyOps"`
	Stores    []CallerStore `json:"callerStores"`
	FWrites   []FieldWrite  `json:"fieldWrites"`
	Onces     []OnceFact    `json:"onceFacts"`
	SetupOnly []string      `json:"setupOnly"`
	Vars      []string      `json:"vars"`
	CallSites []CallJ       `json:"callSites"`
	MutexIDs  []string      `json:"mutexNames"` // index = id used in the Lean table
}

type CallJ struct {
	Caller string `json:"caller"`
	Callee string `json:"callee"`
	Pos    string `json:"pos"`
}

// ---------------------------------------------------------------------------------------------------

type Pkg struct {
	rel   string
	path  string
	dir   string
	files []*ast.File
	info  *types.Info
	tpkg  *types.Package
	funcs map[string]*FuncInfo // key: funcKey
	byObj map[*types.Func]*FuncInfo
	track bool // package-level variables tracked
}

type FuncInfo struct {
	pkg      *Pkg
	key      string // rel.Name or rel.Type.Name
	name     string
	decl     *ast.FuncDecl
	obj      *types.Func
	phase    string
	root     bool            // may be entered from outside the package-local call graph
	entry    map[string]bool // held on entry: mutex -> write mode
	entryTop bool
	sites    []map[string]bool // held sets at package-local call sites (this iteration)
	refs     map[string]bool   // package-local functions referenced from the body
	direct   []acq             // direct acquisitions
	calls    []callSite        // resolved static calls (any analysed package)
}

type acq struct {
	mu     string
	w      bool
	inLoop bool
	pos    string
}

type callSite struct {
	callee string // global key
	held   map[string]bool
	inLoop bool
	pos    string
}

type ref struct {
	ok  bool
	cls Class
	via bool // reached through a parameter alias (inline analysis)
}

type World struct {
	fset     *token.FileSet
	repo     string
	pkgs     map[string]*Pkg // by import path
	order    []*Pkg
	rows     []Row
	unknowns []Unknown
	inserts  []Insert
	risky    []Risky
	panMemo  map[*FuncInfo]string
	panBusy  map[*FuncInfo]bool
	edges    []Edge
	plains   []Plain
	atomics  map[string]bool // field key
	atomicN  int
	atomObj  map[types.Object]string
	atomArgs map[ast.Expr]bool // selector / ident expressions that are the operand of an atomic call
	record   bool
	retMemo  map[*FuncInfo][]ref
	secMemo  map[*FuncInfo]map[string]int
	mutMemo  map[*FuncInfo]bool
	retBusy  map[*FuncInfo]bool
}

func main() {
	repo := flag.String("repo", "/repo", "repository root")
	leanOut := flag.String("lean", "", "Lean output file")
	jsonOut := flag.String("json", "", "JSON output file")
	flag.Parse()
	w := &World{fset: token.NewFileSet(), repo: *repo, pkgs: map[string]*Pkg{}, atomics: map[string]bool{},
		atomObj: map[types.Object]string{}, atomArgs: map[ast.Expr]bool{}}
	if err := w.load(); err != nil {
		fmt.Fprintln(os.Stderr, "extract15:", err)
		os.Exit(2)
	}
	w.mutMemo = map[*FuncInfo]bool{}
	w.panMemo, w.panBusy = map[*FuncInfo]string{}, map[*FuncInfo]bool{}
	w.run()
	out := w.output()
	lean := leanText(out)
	if *jsonOut != "" {
		b, _ := json.MarshalIndent(out, "", " ")
		if err := os.WriteFile(*jsonOut, b, 0o644); err != nil {
			fmt.Fprintln(os.Stderr, err)
			os.Exit(2)
		}
	}
	if *leanOut != "" {
		if err := os.WriteFile(*leanOut, []byte(lean), 0o644); err != nil {
			fmt.Fprintln(os.Stderr, err)
			os.Exit(2)
		}
	}
	fmt.Printf("extract15: %d accesses, %d atomic fields (%d atomic uses, %d plain uses), %d lock edges, %d slot shapes, %d unknowns\n",
		len(out.Accesses), len(out.Atomics), out.AtomicUse, len(out.Plains), len(out.Edges), len(out.Shapes), len(out.Unknowns))
}

type srcImporter struct {
	imp types.ImporterFrom
	dir string
}

func (i srcImporter) Import(path string) (*types.Package, error) {
	return i.imp.ImportFrom(path, i.dir, 0)
}

func (w *World) load() error {
	imp := w.exportImporter()
	if imp == nil {
		imp = importer.ForCompiler(w.fset, "source", nil).(types.ImporterFrom)
	}
	bctx := build.Default
	bctx.BuildTags = []string{"verif"}
	all := append(append([]string{}, varPkgs...), morePkgs...)
	for _, rel := range all {
		dir := filepath.Join(w.repo, rel)
		bp, err := bctx.ImportDir(dir, 0)
		if err != nil {
			return fmt.Errorf("%s: %v", rel, err)
		}
		p := &Pkg{rel: rel, path: module + rel, dir: dir, funcs: map[string]*FuncInfo{}, byObj: map[*types.Func]*FuncInfo{}}
		for _, v := range varPkgs {
			if v == rel {
				p.track = true
			}
		}
		for _, f := range bp.GoFiles {
			af, err := parser.ParseFile(w.fset, filepath.Join(dir, f), nil, 0)
			if err != nil {
				return err
			}
			p.files = append(p.files, af)
		}
		p.info = &types.Info{Uses: map[*ast.Ident]types.Object{}, Defs: map[*ast.Ident]types.Object{},
			Types: map[ast.Expr]types.TypeAndValue{}, Selections: map[*ast.SelectorExpr]*types.Selection{}}
		var terr error
		conf := types.Config{Importer: srcImporter{imp, dir}, Error: func(err error) {
			if terr == nil {
				terr = err
			}
		}}
		p.tpkg, _ = conf.Check(p.path, w.fset, p.files, p.info)
		if terr != nil {
			return fmt.Errorf("type-check %s: %v", rel, terr)
		}
		w.pkgs[p.path] = p
		w.order = append(w.order, p)
		for _, f := range p.files {
			for _, d := range f.Decls {
				fd, ok := d.(*ast.FuncDecl)
				if !ok || fd.Body == nil {
					continue
				}
				obj := p.info.Defs[fd.Name].(*types.Func)
				fi := &FuncInfo{pkg: p, decl: fd, obj: obj, name: fd.Name.Name, key: funcKey(obj)}
				if fd.Name.Name == "init" {
					fi.key = fmt.Sprintf("%s.init#%d", rel, len(p.funcs))
				}
				p.funcs[fi.key] = fi
				p.byObj[obj] = fi
			}
		}
	}
	return nil
}

// exportImporter resolves imports from compiler export data listed by one `go list -export -deps` call in the
// repository (fast when the build cache is warm); nil if that does not work (then the source importer is used).
func (w *World) exportImporter() types.ImporterFrom {
	args := []string{"list", "-export", "-deps", "-tags", "verif", "-f", "{{.ImportPath}}\t{{.Export}}"}
	for _, rel := range append(append([]string{}, varPkgs...), morePkgs...) {
		args = append(args, "./"+rel)
	}
	cmd := exec.Command("go", args...)
	cmd.Dir = w.repo
	out, err := cmd.Output()
	if err != nil {
		fmt.Fprintln(os.Stderr, "extract15: go list -export failed, falling back to the source importer:", err)
		return nil
	}
	files := map[string]string{}
	for _, l := range strings.Split(string(out), "\n") {
		f := strings.Split(l, "\t")
		if len(f) == 2 && f[1] != "" {
			files[f[0]] = f[1]
		}
	}
	lookup := func(path string) (io.ReadCloser, error) {
		if f, ok := files[path]; ok {
			return os.Open(f)
		}
		return nil, fmt.Errorf("no export data for %s", path)
	}
	imp, ok := importer.ForCompiler(w.fset, "gc", lookup).(types.ImporterFrom)
	if !ok {
		return nil
	}
	return imp
}

func relPath(path string) string { return strings.TrimPrefix(path, module) }

func funcKey(f *types.Func) string {
	sig := f.Type().(*types.Signature)
	pk := ""
	if f.Pkg() != nil {
		pk = relPath(f.Pkg().Path())
	}
	if r := sig.Recv(); r != nil {
		t := r.Type()
		if pt, ok := t.(*types.Pointer); ok {
			t = pt.Elem()
		}
		if nt, ok := t.(*types.Named); ok {
			return pk + "." + nt.Obj().Name() + "." + f.Name()
		}
	}
	return pk + "." + f.Name()
}

func (w *World) pos(p token.Pos) string {
	pp := w.fset.Position(p)
	r, err := filepath.Rel(w.repo, pp.Filename)
	if err != nil {
		r = pp.Filename
	}
	return fmt.Sprintf("%s:%d", r, pp.Line)
}

// ---------------------------------------------------------------------------------------------------
// phases and the fix-point
// ---------------------------------------------------------------------------------------------------

func (w *World) run() {
	for _, p := range w.order {
		w.findAtomics(p)
	}
	for _, p := range w.order {
		w.phases(p)
	}
	// greatest fix-point of "held on entry"
	for _, p := range w.order {
		for _, f := range p.funcs {
			f.entryTop = !f.root
			f.entry = map[string]bool{}
		}
	}
	for iter := 0; iter < 12; iter++ {
		w.rows, w.unknowns, w.edges, w.inserts, w.risky = nil, nil, nil, nil, nil
		w.retMemo, w.retBusy, w.secMemo = map[*FuncInfo][]ref{}, map[*FuncInfo]bool{}, map[*FuncInfo]map[string]int{}
		w.record = true
		for _, p := range w.order {
			for _, f := range sortedFuncs(p) {
				f.sites, f.direct, f.calls = nil, nil, nil
			}
		}
		for _, p := range w.order {
			for _, f := range sortedFuncs(p) {
				a := &an{w: w, p: p, fn: f, rec: true}
				st := newState()
				if !f.entryTop {
					for k, v := range f.entry {
						st.held[k] = v
					}
				}
				a.top = f.entryTop
				a.funcBody(f.decl, st)
			}
			// package-level variable initialisers
			w.varInits(p)
		}
		changed := false
		for _, p := range w.order {
			for _, f := range sortedFuncs(p) {
				if f.root {
					continue
				}
				var ne map[string]bool
				top := true
				for _, s := range f.sites {
					if top {
						ne, top = copyHeld(s), false
					} else {
						ne = meet(ne, s)
					}
				}
				if top != f.entryTop || !sameHeld(ne, f.entry) {
					changed = true
				}
				f.entryTop, f.entry = top, ne
				if f.entry == nil {
					f.entry = map[string]bool{}
				}
			}
		}
		if !changed {
			break
		}
	}
	w.callEdges()
	w.plainUses()
	// a package-level variable of a tracked package that is accessed with sync/atomic is module-wide lock-free state:
	// the lock discipline says nothing about how one resource's updates of it influence another resource's decisions
	// ... and so is a package-level sync/atomic.Value / atomic.IntNN / atomic.Pointer (a lazily rebuilt cache, a counter)
	for _, p := range w.order {
		if !p.track {
			continue
		}
		sc := p.tpkg.Scope()
		for _, n := range sc.Names() {
			v, ok := sc.Lookup(n).(*types.Var)
			if !ok {
				continue
			}
			t := v.Type()
			if pt, ok := t.(*types.Pointer); ok {
				t = pt.Elem()
			}
			if nt, ok := t.(*types.Named); ok && nt.Obj().Pkg() != nil && nt.Obj().Pkg().Path() == "sync/atomic" {
				w.unknowns = append(w.unknowns, Unknown{Phase: "live", Fn: p.rel + "." + n, Pos: w.pos(v.Pos()),
					What: "package-level variable " + p.rel + "." + n + " of type sync/atomic." + nt.Obj().Name() + ": module-wide lock-free state (cache / counter) is outside the lock-discipline and one-snapshot model (a request may re-publish a replaced rule list; one resource's updates may change another's decisions)"})
			}
		}
	}
	for obj, k := range w.atomObj {
		v, ok := obj.(*types.Var)
		if !ok || v.IsField() || v.Pkg() == nil {
			continue
		}
		if p := w.pkgs[v.Pkg().Path()]; p != nil && p.track {
			w.unknowns = append(w.unknowns, Unknown{Phase: "live", Fn: k, Pos: w.pos(v.Pos()),
				What: "package-level variable " + k + " is accessed with sync/atomic: module-wide lock-free state shared by the paths of all resources is outside the lock-discipline model (one resource's rule updates may change another resource's decisions)"})
		}
	}
}

func sortedFuncs(p *Pkg) []*FuncInfo {
	ks := make([]string, 0, len(p.funcs))
	for k := range p.funcs {
		ks = append(ks, k)
	}
	sort.Strings(ks)
	r := make([]*FuncInfo, len(ks))
	for i, k := range ks {
		r[i] = p.funcs[k]
	}
	return r
}

func copyHeld(h map[string]bool) map[string]bool {
	r := map[string]bool{}
	for k, v := range h {
		r[k] = v
	}
	return r
}

func meet(a, b map[string]bool) map[string]bool {
	r := map[string]bool{}
	for k, v := range a {
		if v2, ok := b[k]; ok {
			r[k] = v && v2
		}
	}
	return r
}

func sameHeld(a, b map[string]bool) bool {
	if len(a) != len(b) {
		return false
	}
	for k, v := range a {
		if v2, ok := b[k]; !ok || v != v2 {
			return false
		}
	}
	return true
}

// phases: which functions are live / setup / init / test (package-local reachability over references)
func (w *World) phases(p *Pkg) {
	// names of methods invoked through interfaces anywhere in the package (dynamic dispatch roots)
	dyn := map[string]bool{}
	for sel, s := range p.info.Selections {
		if s.Kind() == types.MethodVal || s.Kind() == types.MethodExpr {
			if _, ok := s.Recv().Underlying().(*types.Interface); ok {
				dyn[sel.Sel.Name] = true
			}
		}
	}
	for _, f := range p.funcs {
		f.refs = map[string]bool{}
		ast.Inspect(f.decl.Body, func(n ast.Node) bool {
			if id, ok := n.(*ast.Ident); ok {
				if fo, ok := p.info.Uses[id].(*types.Func); ok {
					if g := p.byObj[fo]; g != nil {
						f.refs[g.key] = true
					}
				}
			}
			return true
		})
	}
	// references from package-level variable initialisers count as init
	initRefs := map[string]bool{}
	for _, file := range p.files {
		for _, d := range file.Decls {
			gd, ok := d.(*ast.GenDecl)
			if !ok || gd.Tok != token.VAR {
				continue
			}
			ast.Inspect(gd, func(n ast.Node) bool {
				if id, ok := n.(*ast.Ident); ok {
					if fo, ok := p.info.Uses[id].(*types.Func); ok {
						if g := p.byObj[fo]; g != nil {
							initRefs[g.key] = true
						}
					}
				}
				return true
			})
		}
	}
	// functions referenced from a `go` statement run concurrently with everything, even when started by init
	goRefs := map[string]bool{}
	for _, file := range p.files {
		ast.Inspect(file, func(n ast.Node) bool {
			gs, ok := n.(*ast.GoStmt)
			if !ok {
				return true
			}
			ast.Inspect(gs, func(m ast.Node) bool {
				if id, ok := m.(*ast.Ident); ok {
					if fo, ok := p.info.Uses[id].(*types.Func); ok {
						if g := p.byObj[fo]; g != nil {
							goRefs[g.key] = true
						}
					}
				}
				return true
			})
			return true
		})
	}
	reach := func(seed func(*FuncInfo) bool) map[string]bool {
		seen := map[string]bool{}
		var stack []string
		for k, f := range p.funcs {
			if seed(f) {
				seen[k] = true
				stack = append(stack, k)
			}
		}
		for len(stack) > 0 {
			k := stack[len(stack)-1]
			stack = stack[:len(stack)-1]
			for r := range p.funcs[k].refs {
				if !seen[r] {
					seen[r] = true
					stack = append(stack, r)
				}
			}
		}
		return seen
	}
	isMethod := func(f *FuncInfo) bool { return f.decl.Recv != nil }
	liveSeed := func(f *FuncInfo) bool {
		if f.name == "init" || setupOnly[f.key] {
			return false
		}
		if ast.IsExported(f.name) {
			if isMethod(f) {
				return true
			}
			return true
		}
		return goRefs[f.key] || (isMethod(f) && dyn[f.name])
	}
	live := reach(liveSeed)
	setup := reach(func(f *FuncInfo) bool { return setupOnly[f.key] })
	ini := reach(func(f *FuncInfo) bool { return f.name == "init" || initRefs[f.key] })
	for k, f := range p.funcs {
		switch {
		case live[k]:
			f.phase = "live"
		case setup[k]:
			f.phase = "setup"
		case ini[k]:
			f.phase = "init"
		default:
			f.phase = "test"
		}
		// roots: functions that can be entered with nothing known about the caller
		f.root = ast.IsExported(f.name) || f.name == "init" || (isMethod(f) && dyn[f.name])
	}
	// a function whose value is taken (not just called) is a root as well
	for _, f := range p.funcs {
		ast.Inspect(f.decl.Body, func(n ast.Node) bool {
			ce, ok := n.(*ast.CallExpr)
			if ok {
				// visit args and fun separately: the callee identifier in call position is not a value use
				for _, a := range ce.Args {
					markValueUses(p, a)
				}
				if _, isLit := ce.Fun.(*ast.FuncLit); isLit {
					return true
				}
				return true
			}
			return true
		})
	}
}

func markValueUses(p *Pkg, e ast.Expr) {
	switch x := e.(type) {
	case *ast.Ident:
		if fo, ok := p.info.Uses[x].(*types.Func); ok {
			if g := p.byObj[fo]; g != nil {
				g.root = true
			}
		}
	case *ast.SelectorExpr:
		if fo, ok := p.info.Uses[x.Sel].(*types.Func); ok {
			if g := p.byObj[fo]; g != nil {
				g.root = true
			}
		}
	}
}

// ---------------------------------------------------------------------------------------------------
// the abstract interpreter of one function body
// ---------------------------------------------------------------------------------------------------

type state struct {
	held  map[string]bool
	alias map[types.Object]ref
	sec   map[string]int // critical sections entered so far on this path: "mu|R" / "mu|W" (>= loopMark: inside a loop)
	// for every mutex acquired in this function and still held: the map lookups "class|key" performed since its
	// acquisition on every path (must-set) — the re-check a get-or-create insert needs
	secReads map[string]map[string]bool
	defers   map[string]bool // mutexes (acquired in this function) whose unlock has been deferred so far
	dead     bool
}

const loopMark = 100

func newState() *state {
	return &state{held: map[string]bool{}, alias: map[types.Object]ref{}, sec: map[string]int{}, secReads: map[string]map[string]bool{}, defers: map[string]bool{}}
}

func maxSec(a, b map[string]int) map[string]int {
	r := map[string]int{}
	for k, v := range a {
		r[k] = v
	}
	for k, v := range b {
		if v > r[k] {
			r[k] = v
		}
	}
	return r
}

func (s *state) clone() *state {
	n := newState()
	for k, v := range s.held {
		n.held[k] = v
	}
	for k, v := range s.alias {
		n.alias[k] = v
	}
	for k, v := range s.sec {
		n.sec[k] = v
	}
	for k, v := range s.defers {
		n.defers[k] = v
	}
	for k, v := range s.secReads {
		m := map[string]bool{}
		for kk := range v {
			m[kk] = true
		}
		n.secReads[k] = m
	}
	n.dead = s.dead
	return n
}

// join the states of alternative branches into s
func (s *state) join(bs ...*state) {
	var liveBs []*state
	for _, b := range bs {
		if !b.dead {
			liveBs = append(liveBs, b)
		}
	}
	if len(liveBs) == 0 {
		s.dead = true
		return
	}
	h := copyHeld(liveBs[0].held)
	for _, b := range liveBs[1:] {
		h = meet(h, b.held)
	}
	s.held = h
	s.dead = false
	sec := map[string]int{}
	for _, b := range liveBs {
		sec = maxSec(sec, b.sec)
	}
	s.sec = sec
	sr := map[string]map[string]bool{}
	for mu, set := range liveBs[0].secReads {
		m := map[string]bool{}
		for k := range set {
			all := true
			for _, b := range liveBs[1:] {
				if !b.secReads[mu][k] {
					all = false
				}
			}
			if all {
				m[k] = true
			}
		}
		sr[mu] = m
	}
	s.secReads = sr
	df := map[string]bool{}
	for k := range liveBs[0].defers {
		all := true
		for _, b := range liveBs[1:] {
			if !b.defers[k] {
				all = false
			}
		}
		if all {
			df[k] = true
		}
	}
	s.defers = df
	al := map[types.Object]ref{}
	for _, b := range liveBs {
		for k, v := range b.alias {
			if _, ok := al[k]; !ok {
				al[k] = v
			}
		}
	}
	s.alias = al
}

type an struct {
	w      *World
	p      *Pkg
	fn     *FuncInfo
	rec    bool // record rows of every class (base analysis)
	inline bool // inline analysis: record only rows reached through parameter aliases
	top    bool // entry state unknown-all-held (unreached function): record nothing
	depth  int
	loop   int
	rets   [][]ref
	exits  map[string]int // max section counts over the return points seen so far
	via    string
	// receiver of the method being analysed, when its type is a struct with a mutex field ("guarded struct")
	recvObj  types.Object
	recvT    *types.Named
	noInsert bool
	paramsOf *ast.FuncDecl
	paramsM  map[types.Object]bool
}

// riskOfExpr: can evaluating this one expression node panic on caller-controlled data?  (not transitive)
//   - map index with an interface-typed key (a dynamic key of unhashable type panics in the hash function)
//   - slice / array / string index by a parameter of the enclosing function
//   - type assertion without comma-ok
func riskOfExpr(p *Pkg, e ast.Expr, params map[types.Object]bool) string {
	switch x := e.(type) {
	case *ast.IndexExpr:
		if tv, ok := p.info.Types[x.X]; ok && tv.IsType() {
			return ""
		}
		t := p.info.TypeOf(x.X)
		if t == nil {
			return ""
		}
		if tu, ok := t.(*types.Tuple); ok && tu.Len() > 0 {
			t = tu.At(0).Type()
		}
		switch u := t.Underlying().(type) {
		case *types.Map:
			if _, isIface := u.Key().Underlying().(*types.Interface); isIface {
				return "map index with interface-typed key"
			}
		case *types.Slice, *types.Array, *types.Basic, *types.Pointer:
			if id, ok := ast.Unparen(x.Index).(*ast.Ident); ok && params[p.info.Uses[id]] {
				return "index by parameter " + id.Name
			}
		}
	case *ast.TypeAssertExpr:
		if x.Type == nil {
			return ""
		}
		if _, commaOk := p.info.TypeOf(x).(*types.Tuple); commaOk {
			return ""
		}
		// v.Load().(*T) on a sync/atomic.Value the package fills itself: not caller-controlled
		if ce, ok := ast.Unparen(x.X).(*ast.CallExpr); ok {
			if sel, ok := ce.Fun.(*ast.SelectorExpr); ok && sel.Sel.Name == "Load" && selfSync(p.info.TypeOf(sel.X)) {
				return ""
			}
		}
		return "type assertion without comma-ok"
	}
	return ""
}

func paramSet(p *Pkg, fd *ast.FuncDecl) map[types.Object]bool {
	m := map[types.Object]bool{}
	if fd == nil || fd.Type.Params == nil {
		return m
	}
	for _, f := range fd.Type.Params.List {
		for _, n := range f.Names {
			if o := p.info.Defs[n]; o != nil {
				m[o] = true
			}
		}
	}
	return m
}

// mayPanic: "" or why a call of f can panic on caller-controlled data (syntactic, transitive over static calls into
// the analysed packages; function literals are not entered)
func (w *World) mayPanic(f *FuncInfo) string {
	if r, ok := w.panMemo[f]; ok {
		return r
	}
	if w.panBusy[f] {
		return ""
	}
	w.panBusy[f] = true
	p := f.pkg
	params := paramSet(p, f.decl)
	why := ""
	ast.Inspect(f.decl.Body, func(n ast.Node) bool {
		if why != "" {
			return false
		}
		switch x := n.(type) {
		case *ast.FuncLit:
			return false
		case *ast.IndexExpr, *ast.TypeAssertExpr:
			if r := riskOfExpr(p, x.(ast.Expr), params); r != "" {
				why = r + " @ " + w.pos(n.Pos())
			}
		case *ast.CallExpr:
			if r := w.riskOfCall(p, x); r != "" {
				why = r
			}
		}
		return true
	})
	w.panBusy[f] = false
	w.panMemo[f] = why
	return why
}

// riskOfCall: delete with interface key, explicit panic, call through a function value, call of an analysed function
// that may panic
func (w *World) riskOfCall(p *Pkg, ce *ast.CallExpr) string {
	if tv, ok := p.info.Types[ce.Fun]; ok && tv.IsType() {
		return ""
	}
	if id, ok := ast.Unparen(ce.Fun).(*ast.Ident); ok {
		if _, isB := p.info.Uses[id].(*types.Builtin); isB {
			switch id.Name {
			case "panic":
				return "explicit panic @ " + w.pos(ce.Pos())
			case "delete":
				if t := p.info.TypeOf(ce.Args[0]); t != nil {
					if m, ok := t.Underlying().(*types.Map); ok {
						if _, isIface := m.Key().Underlying().(*types.Interface); isIface {
							return "delete from a map with interface-typed key @ " + w.pos(ce.Pos())
						}
					}
				}
			}
			return ""
		}
	}
	if _, isLit := ast.Unparen(ce.Fun).(*ast.FuncLit); isLit {
		return ""
	}
	var fo *types.Func
	switch f := ast.Unparen(ce.Fun).(type) {
	case *ast.Ident:
		fo, _ = p.info.Uses[f].(*types.Func)
	case *ast.SelectorExpr:
		fo, _ = p.info.Uses[f.Sel].(*types.Func)
	}
	if fo == nil {
		if _, isSig := p.info.TypeOf(ce.Fun).(*types.Signature); isSig {
			return "call through a function value @ " + w.pos(ce.Pos())
		}
		return ""
	}
	if g := w.funcOf(fo); g != nil {
		if r := w.mayPanic(g); r != "" {
			if strings.HasPrefix(r, "call of ") {
				return r
			}
			return "call of " + g.key + " (" + r + ")"
		}
	}
	return ""
}

// risk records a panic-capable operation for every critical section that was opened in this function and is still open
func (a *an) risk(st *state, why string, pos token.Pos) {
	if why == "" || a.top || !a.rec {
		return
	}
	for mu := range st.secReads { // the mutexes acquired in this function and still held
		if _, held := st.held[mu]; !held {
			continue
		}
		a.w.risky = append(a.w.risky, Risky{Mu: mu, Op: why, Deferred: st.defers[mu], Phase: a.phase(), Fn: a.fn.key, Pos: a.w.pos(pos)})
	}
}

// insert records a map insertion `G[k] = v` (lost-insert rule): `guards` are the mutexes held in write mode here whose
// critical section either spans the whole function (held on entry) or contains, on every path, a lookup of the same
// element G[k] — the re-check under the lock.  An insert with no guard that all writers of the class share is a
// check-then-act across two critical sections (or no check at all) that concurrent callers can interleave.
func (a *an) insert(st *state, c ref, key string, pos token.Pos) {
	if !c.ok || a.top || !(a.rec || (a.inline && c.via)) {
		return
	}
	if p := a.w.pkgs[module+c.cls.Pkg]; p == nil || !(p.track || strings.Contains(c.cls.Var, ".")) {
		return
	}
	guards := []string{}
	k := c.cls.String() + "|" + key
	for _, h := range heldList(st.held, c.cls) {
		if !h.W {
			continue
		}
		if set, acquiredHere := st.secReads[h.Mu]; acquiredHere && !set[k] {
			continue
		}
		guards = append(guards, h.Mu)
	}
	a.w.inserts = append(a.w.inserts, Insert{Class: c.cls.String(), Key: key, Guards: guards, Rechecked: len(guards) > 0,
		Phase: a.phase(), Fn: a.fn.key, Pos: a.w.pos(pos)})
}

// guardFields: names of the fields of struct type t whose type is (a pointer to / a wrapper embedding) a sync mutex
func guardFields(t types.Type) []string {
	if pt, ok := t.(*types.Pointer); ok {
		t = pt.Elem()
	}
	st, ok := t.Underlying().(*types.Struct)
	if !ok {
		return nil
	}
	var r []string
	for i := 0; i < st.NumFields(); i++ {
		f := st.Field(i)
		if isMutexType(f.Type()) || embedsMutex(f.Type()) {
			r = append(r, f.Name())
		}
	}
	return r
}

func isMutexType(t types.Type) bool {
	if pt, ok := t.(*types.Pointer); ok {
		t = pt.Elem()
	}
	if nt, ok := t.(*types.Named); ok && nt.Obj().Pkg() != nil && nt.Obj().Pkg().Path() == "sync" {
		return nt.Obj().Name() == "Mutex" || nt.Obj().Name() == "RWMutex"
	}
	return false
}

// setRecv records the receiver of fd if its type is a guarded struct
func (a *an) setRecv(fd *ast.FuncDecl) {
	a.recvObj, a.recvT = nil, nil
	if fd == nil || fd.Recv == nil || len(fd.Recv.List) != 1 || len(fd.Recv.List[0].Names) != 1 {
		return
	}
	obj := a.p.info.Defs[fd.Recv.List[0].Names[0]]
	if obj == nil {
		return
	}
	t := obj.Type()
	if pt, ok := t.(*types.Pointer); ok {
		t = pt.Elem()
	}
	nt, ok := t.(*types.Named)
	if !ok || len(guardFields(nt)) == 0 {
		return
	}
	a.recvObj, a.recvT = obj, nt
}

// recvField: is e `r.f` with r the receiver of a guarded struct and f a direct data field of it?
func (a *an) recvField(e ast.Expr) (*types.Var, Class, bool) {
	if a.recvObj == nil {
		return nil, Class{}, false
	}
	sel, ok := ast.Unparen(e).(*ast.SelectorExpr)
	if !ok {
		return nil, Class{}, false
	}
	id, ok := ast.Unparen(sel.X).(*ast.Ident)
	if !ok || a.p.info.Uses[id] != a.recvObj {
		return nil, Class{}, false
	}
	s, ok := a.p.info.Selections[sel]
	if !ok || s.Kind() != types.FieldVal || len(s.Index()) != 1 {
		return nil, Class{}, false
	}
	fv := s.Obj().(*types.Var)
	if isMutexType(fv.Type()) || embedsMutex(fv.Type()) || selfSync(fv.Type()) {
		return nil, Class{}, false
	}
	if _, isAtomic := a.w.atomObj[fv]; isAtomic {
		return nil, Class{}, false
	}
	pk := ""
	if a.recvT.Obj().Pkg() != nil {
		pk = relPath(a.recvT.Obj().Pkg().Path())
	}
	return fv, Class{Pkg: pk, Var: a.recvT.Obj().Name() + "." + fv.Name()}, true
}

func (a *an) params() map[types.Object]bool {
	if a.paramsOf != a.fn.decl || a.paramsM == nil {
		a.paramsOf, a.paramsM = a.fn.decl, paramSet(a.p, a.fn.decl)
	}
	return a.paramsM
}

func (a *an) isOwnRecv(e ast.Expr) bool {
	id, ok := ast.Unparen(e).(*ast.Ident)
	return ok && a.recvObj != nil && a.p.info.Uses[id] == a.recvObj
}

var pureMethodNames = map[string]bool{"Len": true, "Back": true, "Front": true, "Prev": true, "Next": true, "Contains": true,
	"Peek": true, "Keys": true, "String": true, "Load": true, "Name": true}

// mutates: may a call of method f change the state reachable from its receiver?  (syntactic, conservative)
func (w *World) mutates(f *FuncInfo) bool {
	if v, ok := w.mutMemo[f]; ok {
		return v
	}
	w.mutMemo[f] = true // recursion: assume the worst
	fd := f.decl
	res := false
	if fd.Recv == nil || len(fd.Recv.List) != 1 || len(fd.Recv.List[0].Names) != 1 {
		w.mutMemo[f] = true
		return true
	}
	p := f.pkg
	recv := p.info.Defs[fd.Recv.List[0].Names[0]]
	var rooted func(e ast.Expr) bool
	rooted = func(e ast.Expr) bool {
		switch x := ast.Unparen(e).(type) {
		case *ast.Ident:
			return p.info.Uses[x] == recv
		case *ast.SelectorExpr:
			return rooted(x.X)
		case *ast.IndexExpr:
			return rooted(x.X)
		case *ast.StarExpr:
			return rooted(x.X)
		case *ast.SliceExpr:
			return rooted(x.X)
		}
		return false
	}
	ast.Inspect(fd.Body, func(n ast.Node) bool {
		if res {
			return false
		}
		switch x := n.(type) {
		case *ast.AssignStmt:
			for _, l := range x.Lhs {
				if _, isId := ast.Unparen(l).(*ast.Ident); !isId && rooted(l) {
					res = true
				}
			}
		case *ast.IncDecStmt:
			if _, isId := ast.Unparen(x.X).(*ast.Ident); !isId && rooted(x.X) {
				res = true
			}
		case *ast.CallExpr:
			if id, ok := ast.Unparen(x.Fun).(*ast.Ident); ok {
				if _, isB := p.info.Uses[id].(*types.Builtin); isB {
					if (id.Name == "delete" || id.Name == "clear" || id.Name == "copy") && len(x.Args) > 0 && rooted(x.Args[0]) {
						res = true
					}
					return true
				}
			}
			if sel, ok := ast.Unparen(x.Fun).(*ast.SelectorExpr); ok && rooted(sel.X) {
				if _, isSel := p.info.Selections[sel]; isSel {
					if s := p.info.Selections[sel]; s.Kind() == types.FieldVal {
						res = true // calling a function-valued field: unknown effect
						return true
					}
					if pureMethodNames[sel.Sel.Name] {
						return true
					}
					if fo, ok := p.info.Uses[sel.Sel].(*types.Func); ok {
						if g := w.funcOf(fo); g != nil {
							if w.mutates(g) {
								res = true
							}
							return true
						}
					}
					res = true
					return true
				}
			}
			for _, arg := range x.Args {
				if rooted(arg) {
					if tv, ok := p.info.Types[arg]; ok && tv.Type != nil {
						switch tv.Type.Underlying().(type) {
						case *types.Pointer, *types.Map, *types.Slice, *types.Interface, *types.Chan:
							res = true // receiver state handed to other code
						}
					}
				}
			}
		}
		return true
	})
	w.mutMemo[f] = res
	return res
}

func (w *World) funcOf(fo *types.Func) *FuncInfo {
	if fo == nil || fo.Pkg() == nil {
		return nil
	}
	p := w.pkgs[fo.Pkg().Path()]
	if p == nil {
		return nil
	}
	if g := p.byObj[fo]; g != nil {
		return g
	}
	return p.funcs[funcKey(fo)]
}

func (a *an) addSec(st *state, key string, n int) {
	if a.loop > 0 {
		n += loopMark
	}
	st.sec[key] += n
}

func (a *an) noteExit(st *state) {
	if !st.dead {
		a.exits = maxSec(a.exits, st.sec)
	}
}

func (a *an) phase() string { return a.fn.phase }

func (a *an) unknown(pos token.Pos, what string) {
	if a.top || !(a.rec || a.inline) {
		return
	}
	a.w.unknowns = append(a.w.unknowns, Unknown{Phase: a.phase(), Fn: a.fn.key, Pos: a.w.pos(pos), What: what})
}

// heldList: the mutexes that count as protection of class c: package-level mutexes always; the mutex fields of the
// receiver (keys "#field:T.g", produced only for `recv.g`) only for the data fields of that same receiver.
func heldList(h map[string]bool, c Class) []Held {
	r := []Held{}
	own := ""
	if i := strings.Index(c.Var, "."); i > 0 {
		own = "#field:" + c.Pkg + "." + c.Var[:i] + "."
	}
	for k, v := range h {
		if strings.HasPrefix(k, "#field:") && (own == "" || !strings.HasPrefix(k, own) || strings.HasSuffix(k, "@other")) {
			continue
		}
		r = append(r, Held{k, v})
	}
	sort.Slice(r, func(i, j int) bool { return r[i].Mu < r[j].Mu })
	return r
}

func (a *an) access(st *state, r ref, write bool, pos token.Pos) {
	if !r.ok || a.top {
		return
	}
	if !(a.rec || (a.inline && r.via)) {
		return
	}
	if p := a.w.pkgs[module+r.cls.Pkg]; p == nil || !(p.track || strings.Contains(r.cls.Var, ".")) {
		return
	}
	a.w.rows = append(a.w.rows, Row{Class: r.cls.String(), Write: write, Held: heldList(st.held, r.cls), Phase: a.phase(),
		Fn: a.fn.key, Pos: a.w.pos(pos), Via: a.via})
}

func isContainer(t types.Type) bool {
	if t == nil {
		return false
	}
	switch t.Underlying().(type) {
	case *types.Map, *types.Slice:
		return true
	}
	return false
}

func elemType(t types.Type) types.Type {
	if t == nil {
		return nil
	}
	switch u := t.Underlying().(type) {
	case *types.Map:
		return u.Elem()
	case *types.Slice:
		return u.Elem()
	case *types.Array:
		return u.Elem()
	case *types.Pointer:
		if ar, ok := u.Elem().Underlying().(*types.Array); ok {
			return ar.Elem()
		}
	}
	return nil
}

// self-synchronised or immutable types: their package-level variables are not data classes
func selfSync(t types.Type) bool {
	if pt, ok := t.(*types.Pointer); ok {
		t = pt.Elem()
	}
	if nt, ok := t.(*types.Named); ok && nt.Obj().Pkg() != nil {
		switch nt.Obj().Pkg().Path() + "." + nt.Obj().Name() {
		case "sync.Mutex", "sync.RWMutex", "sync.Once", "sync.Pool", "sync.Map", "sync.WaitGroup", "sync/atomic.Value":
			return true
		}
	}
	if _, ok := t.Underlying().(*types.Chan); ok {
		return true
	}
	return false
}

func (a *an) globalVar(id *ast.Ident) (*types.Var, bool) {
	obj := a.p.info.Uses[id]
	if obj == nil {
		obj = a.p.info.Defs[id]
	}
	v, ok := obj.(*types.Var)
	if !ok || v.Pkg() == nil || v.IsField() {
		return nil, false
	}
	if v.Parent() != v.Pkg().Scope() {
		return nil, false
	}
	return v, true
}

func (a *an) classOfGlobal(v *types.Var, depth int) Class {
	return Class{Pkg: relPath(v.Pkg().Path()), Var: v.Name(), Depth: depth}
}

func (a *an) typeOf(e ast.Expr) types.Type {
	t := a.p.info.TypeOf(e)
	if tu, ok := t.(*types.Tuple); ok && tu.Len() > 0 { // comma-ok forms: v, ok := m[k]
		return tu.At(0).Type()
	}
	return t
}

// deep read: the value is handed to code that may read everything reachable through containers
func (a *an) deepRead(st *state, r ref, t types.Type, pos token.Pos) {
	for i := 0; r.ok && isContainer(t) && i < 4; i++ {
		a.access(st, r, false, pos)
		t = elemType(t)
		r.cls.Depth++
	}
}

// refOf evaluates e: emits the reads it performs and returns the container class its value points to.
func (a *an) refOf(st *state, e ast.Expr) ref {
	switch x := e.(type) {
	case nil:
		return ref{}
	case *ast.ParenExpr:
		return a.refOf(st, x.X)
	case *ast.Ident:
		if v, ok := a.globalVar(x); ok {
			if selfSync(v.Type()) || a.w.atomArgs[x] {
				return ref{}
			}
			if _, isAtomic := a.w.atomObj[v]; isAtomic {
				return ref{} // plain use of an atomic variable: reported by plainUses
			}
			cell := ref{ok: true, cls: a.classOfGlobal(v, 0)}
			a.access(st, cell, false, x.Pos())
			if isContainer(v.Type()) {
				return ref{ok: true, cls: a.classOfGlobal(v, 1)}
			}
			return ref{}
		}
		if obj := a.p.info.Uses[x]; obj != nil {
			if r, ok := st.alias[obj]; ok {
				return r
			}
		}
		return ref{}
	case *ast.SelectorExpr:
		if id, ok := x.X.(*ast.Ident); ok {
			if _, isPkg := a.p.info.Uses[id].(*types.PkgName); isPkg {
				if v, ok := a.globalVar(x.Sel); ok {
					if selfSync(v.Type()) {
						return ref{}
					}
					cell := ref{ok: true, cls: a.classOfGlobal(v, 0)}
					a.access(st, cell, false, x.Pos())
					if isContainer(v.Type()) {
						return ref{ok: true, cls: a.classOfGlobal(v, 1)}
					}
				}
				return ref{}
			}
		}
		if fv, cls, ok := a.recvField(x); ok {
			a.access(st, ref{ok: true, cls: cls}, false, x.Pos())
			if isContainer(fv.Type()) {
				cls.Depth = 1
				return ref{ok: true, cls: cls}
			}
			return ref{}
		}
		a.refOf(st, x.X)
		return ref{}
	case *ast.IndexExpr:
		if tv, ok := a.p.info.Types[x.X]; ok && tv.IsType() {
			return ref{}
		}
		if _, isFn := a.typeOf(x.X).(*types.Signature); isFn {
			return ref{}
		}
		c := a.refOf(st, x.X)
		a.refOf(st, x.Index)
		a.risk(st, riskOfExpr(a.p, x, a.params()), x.Pos())
		if c.ok {
			a.access(st, c, false, x.Pos())
			if _, isMap := a.typeOf(x.X).Underlying().(*types.Map); isMap {
				k := c.cls.String() + "|" + types.ExprString(x.Index)
				for mu := range st.secReads {
					st.secReads[mu][k] = true
				}
			}
			if isContainer(a.typeOf(x)) {
				c.cls.Depth++
				return c
			}
		}
		return ref{}
	case *ast.SliceExpr:
		c := a.refOf(st, x.X)
		a.refOf(st, x.Low)
		a.refOf(st, x.High)
		a.refOf(st, x.Max)
		return c
	case *ast.StarExpr:
		a.refOf(st, x.X)
		return ref{}
	case *ast.UnaryExpr:
		if x.Op == token.AND {
			switch y := ast.Unparen(x.X).(type) {
			case *ast.CompositeLit:
				a.refOf(st, y)
				return ref{}
			case *ast.Ident:
				if v, ok := a.globalVar(y); ok && !selfSync(v.Type()) && !a.w.atomArgs[y] {
					a.unknown(x.Pos(), "address of package-level variable "+v.Name()+" taken")
				}
				return ref{}
			case *ast.IndexExpr:
				c := a.refOf(st, y.X)
				a.refOf(st, y.Index)
				if c.ok && !a.w.atomArgs[ast.Unparen(x.X)] {
					a.unknown(x.Pos(), "address of an element of tracked container "+c.cls.String()+" taken")
				}
				return ref{}
			}
			a.refOf(st, x.X)
			return ref{}
		}
		if x.Op == token.ARROW {
			a.refOf(st, x.X)
			return ref{}
		}
		a.refOf(st, x.X)
		return ref{}
	case *ast.BinaryExpr:
		a.refOf(st, x.X)
		a.refOf(st, x.Y)
		return ref{}
	case *ast.KeyValueExpr:
		a.refOf(st, x.Key)
		return a.refOf(st, x.Value)
	case *ast.TypeAssertExpr:
		a.refOf(st, x.X)
		a.risk(st, riskOfExpr(a.p, x, a.params()), x.Pos())
		return ref{}
	case *ast.CompositeLit:
		for _, el := range x.Elts {
			v := el
			if kv, ok := el.(*ast.KeyValueExpr); ok {
				if _, isStruct := a.typeOf(x).Underlying().(*types.Struct); !isStruct {
					a.refOf(st, kv.Key)
				}
				v = kv.Value
			}
			if r := a.refOf(st, v); r.ok {
				a.unknown(v.Pos(), "alias of "+r.cls.String()+" stored in a composite literal")
			}
		}
		return ref{}
	case *ast.FuncLit:
		// a function value: runs at an unknown time, with no lock known to be held
		a.funcLit(st, x, false)
		return ref{}
	case *ast.CallExpr:
		rs := a.call(st, x, false)
		if len(rs) > 0 {
			return rs[0]
		}
		return ref{}
	case *ast.BasicLit, *ast.ArrayType, *ast.MapType, *ast.StructType, *ast.FuncType, *ast.InterfaceType, *ast.ChanType, *ast.Ellipsis:
		return ref{}
	}
	a.unknown(e.Pos(), fmt.Sprintf("expression form %T", e))
	return ref{}
}

func (a *an) funcLit(st *state, fl *ast.FuncLit, immediate bool) {
	inner := st.clone()
	if !immediate {
		inner.held = map[string]bool{}
	}
	sub := *a
	sub.rets = nil
	sub.loop = 0
	sub.block(inner, fl.Body.List)
}

// mutexKey names the mutex a Lock/Unlock call is applied to; "" if it is not one.
func (a *an) mutexOp(ce *ast.CallExpr) (key, op string) {
	sel, ok := ce.Fun.(*ast.SelectorExpr)
	if !ok {
		return "", ""
	}
	switch sel.Sel.Name {
	case "Lock", "Unlock", "RLock", "RUnlock", "TryLock", "TryRLock":
	default:
		return "", ""
	}
	fo, ok := a.p.info.Uses[sel.Sel].(*types.Func)
	if !ok {
		return "", ""
	}
	recvNamed := ""
	if r := fo.Type().(*types.Signature).Recv(); r != nil {
		t := r.Type()
		if pt, ok := t.(*types.Pointer); ok {
			t = pt.Elem()
		}
		if nt, ok := t.(*types.Named); ok && nt.Obj().Pkg() != nil {
			recvNamed = nt.Obj().Pkg().Path() + "." + nt.Obj().Name()
		}
	}
	custom := false
	if recvNamed != "sync.Mutex" && recvNamed != "sync.RWMutex" {
		// a wrapper type embedding sync.Mutex with its own TryLock (core/stat/base.mutex)
		if sel.Sel.Name != "TryLock" || !embedsMutex(a.typeOf(sel.X)) {
			return "", ""
		}
		custom = true
	}
	_ = custom
	return a.mutexName(sel.X), sel.Sel.Name
}

func embedsMutex(t types.Type) bool {
	if t == nil {
		return false
	}
	if pt, ok := t.Underlying().(*types.Pointer); ok {
		t = pt.Elem()
	}
	st, ok := t.Underlying().(*types.Struct)
	if !ok {
		return false
	}
	for i := 0; i < st.NumFields(); i++ {
		f := st.Field(i)
		if f.Embedded() && selfSync(f.Type()) {
			return true
		}
	}
	return false
}

func (a *an) mutexName(e ast.Expr) string {
	switch x := ast.Unparen(e).(type) {
	case *ast.Ident:
		if v, ok := a.globalVar(x); ok {
			return relPath(v.Pkg().Path()) + "." + v.Name()
		}
		// a local / receiver variable whose type embeds the mutex
		if t := a.typeOf(x); t != nil {
			return "#field:" + typeName(t) + ".(embedded)"
		}
	case *ast.SelectorExpr:
		if id, ok := x.X.(*ast.Ident); ok {
			if _, isPkg := a.p.info.Uses[id].(*types.PkgName); isPkg {
				if v, ok := a.globalVar(x.Sel); ok {
					return relPath(v.Pkg().Path()) + "." + v.Name()
				}
			}
		}
		if s, ok := a.p.info.Selections[x]; ok && s.Kind() == types.FieldVal {
			k := "#field:" + typeName(s.Recv()) + "." + x.Sel.Name
			if a.recvObj != nil && !a.isOwnRecv(x.X) {
				k += "@other" // some other instance's mutex: never protects the receiver's fields
			}
			return k
		}
	case *ast.StarExpr:
		return a.mutexName(x.X)
	}
	return "?"
}

func typeName(t types.Type) string {
	if pt, ok := t.(*types.Pointer); ok {
		t = pt.Elem()
	}
	if nt, ok := t.(*types.Named); ok {
		pk := ""
		if nt.Obj().Pkg() != nil {
			pk = relPath(nt.Obj().Pkg().Path()) + "."
		}
		return pk + nt.Obj().Name()
	}
	return t.String()
}

func (a *an) acquire(st *state, mu string, wmode bool, pos token.Pos) {
	if mu == "?" {
		a.unknown(pos, "lock operation on a mutex expression the extractor cannot name")
		return
	}
	if a.rec && !a.top {
		for h := range st.held {
			a.w.edges = append(a.w.edges, Edge{Outer: h, Inner: mu, Fn: a.fn.key, Pos: a.w.pos(pos)})
		}
		a.fn.direct = append(a.fn.direct, acq{mu: mu, w: wmode, inLoop: a.loop > 0, pos: a.w.pos(pos)})
	}
	st.held[mu] = wmode
	st.secReads[mu] = map[string]bool{}
	delete(st.defers, mu)
	if wmode {
		a.addSec(st, mu+"|W", 1)
	} else {
		a.addSec(st, mu+"|R", 1)
	}
}

func (a *an) release(st *state, mu string, pos token.Pos) {
	if mu == "?" {
		a.unknown(pos, "unlock of a mutex expression the extractor cannot name")
		return
	}
	if _, ok := st.held[mu]; !ok {
		if !a.top {
			a.unknown(pos, "unlock of "+mu+" which is not lexically held here")
		}
		return
	}
	delete(st.held, mu)
	delete(st.secReads, mu)
}

func (a *an) calleeOf(ce *ast.CallExpr) *types.Func {
	switch f := ast.Unparen(ce.Fun).(type) {
	case *ast.Ident:
		fo, _ := a.p.info.Uses[f].(*types.Func)
		return fo
	case *ast.SelectorExpr:
		fo, _ := a.p.info.Uses[f.Sel].(*types.Func)
		return fo
	}
	return nil
}

func (a *an) atomicCall(st *state, ce *ast.CallExpr) {
	for i, arg := range ce.Args {
		if i == 0 {
			// the operand: evaluate sub-expressions but not the atomic cell itself
			a.atomicOperand(st, arg)
			continue
		}
		a.refOf(st, arg)
	}
}

func (a *an) atomicOperand(st *state, e ast.Expr) {
	e = ast.Unparen(e)
	if u, ok := e.(*ast.UnaryExpr); ok && u.Op == token.AND {
		switch y := ast.Unparen(u.X).(type) {
		case *ast.SelectorExpr:
			a.refOf(st, y.X)
			return
		case *ast.IndexExpr:
			if s, ok := ast.Unparen(y.X).(*ast.SelectorExpr); ok {
				a.refOf(st, s.X)
			}
			a.refOf(st, y.Index)
			return
		case *ast.Ident:
			return
		}
	}
	// pointer-valued operands (locals, conversions): evaluated normally
	if c, ok := e.(*ast.CallExpr); ok && len(c.Args) == 1 {
		if tv, ok := a.p.info.Types[c.Fun]; ok && tv.IsType() {
			a.atomicOperand(st, c.Args[0])
			return
		}
	}
	a.refOf(st, e)
}

// call interprets a call expression; returns the refs of its results.
func (a *an) call(st *state, ce *ast.CallExpr, deferred bool) []ref {
	// conversion
	if tv, ok := a.p.info.Types[ce.Fun]; ok && tv.IsType() {
		if len(ce.Args) == 1 {
			return []ref{a.refOf(st, ce.Args[0])}
		}
		return nil
	}
	if !deferred {
		a.risk(st, a.w.riskOfCall(a.p, ce), ce.Pos())
	}
	// immediately invoked function literal
	if fl, ok := ast.Unparen(ce.Fun).(*ast.FuncLit); ok {
		for _, arg := range ce.Args {
			a.refOf(st, arg)
		}
		a.funcLit(st, fl, !deferred)
		return nil
	}
	// builtins
	if id, ok := ast.Unparen(ce.Fun).(*ast.Ident); ok {
		if _, isB := a.p.info.Uses[id].(*types.Builtin); isB {
			return a.builtin(st, id.Name, ce)
		}
	}
	// mutex operations
	if mu, op := a.mutexOp(ce); op != "" {
		switch op {
		case "Lock":
			a.acquire(st, mu, true, ce.Pos())
		case "RLock":
			a.acquire(st, mu, false, ce.Pos())
		case "Unlock", "RUnlock":
			if !deferred {
				a.release(st, mu, ce.Pos())
			} else {
				st.defers[mu] = true
			}
		default:
			a.unknown(ce.Pos(), "TryLock outside an `if` condition")
		}
		return nil
	}
	fo := a.calleeOf(ce)
	if fo != nil && fo.Pkg() != nil && fo.Pkg().Path() == "sync/atomic" {
		a.atomicCall(st, ce)
		return nil
	}
	// receiver and arguments
	var recv ref
	var recvT types.Type
	ownRecvCall := false
	if sel, ok := ast.Unparen(ce.Fun).(*ast.SelectorExpr); ok {
		if s, isSel := a.p.info.Selections[sel]; isSel {
			recv = a.refOf(st, sel.X)
			recvT = s.Recv()
			ownRecvCall = a.isOwnRecv(sel.X)
			// a method called on a (non-container) data field of the guarded receiver acts on the object it holds
			if fv, cls, isF := a.recvField(sel.X); isF && !isContainer(fv.Type()) && s.Kind() == types.MethodVal {
				write := !pureMethodNames[sel.Sel.Name]
				if write {
					if g := a.w.funcOf(fo); g != nil {
						write = a.w.mutates(g)
					}
				}
				cls.Depth = 1
				a.access(st, ref{ok: true, cls: cls}, false, ce.Pos())
				if write {
					a.access(st, ref{ok: true, cls: cls}, true, ce.Pos())
				}
			}
		}
	} else if _, ok := ast.Unparen(ce.Fun).(*ast.Ident); !ok {
		a.refOf(st, ce.Fun)
	}
	args := make([]ref, len(ce.Args))
	anyRef := recv.ok
	for i, arg := range ce.Args {
		args[i] = a.refOf(st, arg)
		anyRef = anyRef || args[i].ok
	}
	var callee *FuncInfo
	if fo != nil && fo.Pkg() != nil {
		if p := a.w.pkgs[fo.Pkg().Path()]; p != nil {
			if p == a.p {
				callee = p.byObj[fo]
			} else {
				callee = p.funcs[funcKey(fo)]
			}
		}
	}
	if callee != nil && a.rec && !a.top {
		h := copyHeld(st.held)
		if deferred {
			h = map[string]bool{}
		}
		hs := copyHeld(h)
		if !ownRecvCall { // the callee's receiver is another object: this receiver's field mutexes say nothing about it
			for k := range hs {
				if strings.HasPrefix(k, "#field:") {
					delete(hs, k)
				}
			}
		}
		if callee.pkg == a.p {
			callee.sites = append(callee.sites, hs)
		}
		a.fn.calls = append(a.fn.calls, callSite{callee: callee.key, held: h, inLoop: a.loop > 0, pos: a.w.pos(ce.Pos())})
	}
	if callee != nil && !deferred {
		for k, v := range a.w.secSummary(callee) {
			a.addSec(st, k, v)
		}
	}
	if callee != nil && callee.pkg == a.p {
		if anyRef {
			return a.inlineCall(st, callee, recv, args, ce)
		}
		return a.w.retRefs(callee)
	}
	// external (or other-package) callee
	if anyRef {
		ro := false
		if fo != nil && fo.Pkg() != nil {
			ro = readOnlyCallee(fo.Pkg().Path(), fo.Name())
		}
		if !ro {
			name := "a function value"
			if fo != nil {
				name = fo.FullName()
			}
			a.unknown(ce.Pos(), "tracked container passed to "+name+" (not known to be read-only)")
		}
		if recv.ok {
			a.deepRead(st, recv, recvT, ce.Pos())
		}
		for i, r := range args {
			a.deepRead(st, r, a.typeOf(ce.Args[i]), ce.Args[i].Pos())
		}
	}
	return nil
}

func (a *an) builtin(st *state, name string, ce *ast.CallExpr) []ref {
	switch name {
	case "len", "cap":
		c := a.refOf(st, ce.Args[0])
		a.access(st, c, false, ce.Pos())
		return nil
	case "append":
		first := a.refOf(st, ce.Args[0])
		if first.ok {
			// may write in place into the backing array beyond len: an in-place write of the class
			a.access(st, first, false, ce.Pos())
			a.access(st, first, true, ce.Pos())
		}
		for i, arg := range ce.Args[1:] {
			r := a.refOf(st, arg)
			if r.ok {
				if ce.Ellipsis.IsValid() && i == len(ce.Args)-2 {
					a.access(st, r, false, arg.Pos())
				} else {
					a.unknown(arg.Pos(), "alias of "+r.cls.String()+" appended into another container")
				}
			}
		}
		return []ref{first}
	case "copy":
		d := a.refOf(st, ce.Args[0])
		s := a.refOf(st, ce.Args[1])
		a.access(st, d, true, ce.Pos())
		a.access(st, s, false, ce.Pos())
		return nil
	case "delete", "clear":
		c := a.refOf(st, ce.Args[0])
		for _, arg := range ce.Args[1:] {
			a.refOf(st, arg)
		}
		a.access(st, c, true, ce.Pos())
		return nil
	default:
		for _, arg := range ce.Args {
			if tv, ok := a.p.info.Types[arg]; ok && tv.IsType() {
				continue
			}
			a.refOf(st, arg)
		}
		return nil
	}
}

// retRefs: what the results of a package-local function point to when no argument is tracked
func (w *World) retRefs(f *FuncInfo) []ref {
	if r, ok := w.retMemo[f]; ok {
		return r
	}
	if w.retBusy[f] {
		return nil
	}
	w.retBusy[f] = true
	a := &an{w: w, p: f.pkg, fn: f}
	st := newState()
	a.funcBody(f.decl, st)
	r := mergeRets(a.rets)
	w.retBusy[f] = false
	w.retMemo[f] = r
	w.secMemo[f] = a.exits
	return r
}

// secSummary: how many critical sections a call of f enters at most (over its paths, callees included)
func (w *World) secSummary(f *FuncInfo) map[string]int {
	w.retRefs(f)
	return w.secMemo[f]
}

func mergeRets(rets [][]ref) []ref {
	var out []ref
	for _, rs := range rets {
		for i, r := range rs {
			for len(out) <= i {
				out = append(out, ref{})
			}
			if r.ok && !out[i].ok {
				out[i] = r
			}
		}
	}
	return out
}

func (a *an) inlineCall(st *state, callee *FuncInfo, recv ref, args []ref, ce *ast.CallExpr) []ref {
	if a.depth >= 5 {
		a.unknown(ce.Pos(), "alias passed down more than 5 package-local calls")
		return nil
	}
	sub := &an{w: a.w, p: a.p, fn: callee, inline: a.rec || a.inline, depth: a.depth + 1,
		via: a.fn.key + "@" + a.w.pos(ce.Pos())}
	if a.via != "" {
		sub.via = a.via + " > " + sub.via
	}
	if a.top {
		sub.inline = false
	}
	// the rows of an inline analysis belong, phase-wise, to the function that passes the alias
	calleeCopy := *callee
	calleeCopy.phase = a.fn.phase
	sub.fn = &calleeCopy
	sub.setRecv(callee.decl)
	ist := newState()
	ist.held = copyHeld(st.held)
	for k := range ist.held {
		if strings.HasPrefix(k, "#field:") {
			delete(ist.held, k)
		}
	}
	mark := func(r ref) ref { r.via = true; return r }
	fd := callee.decl
	if fd.Recv != nil && len(fd.Recv.List) == 1 && len(fd.Recv.List[0].Names) == 1 && recv.ok {
		ist.alias[a.p.info.Defs[fd.Recv.List[0].Names[0]]] = mark(recv)
	}
	i := 0
	for _, fld := range fd.Type.Params.List {
		names := fld.Names
		if len(names) == 0 {
			i++
			continue
		}
		for _, nm := range names {
			if _, variadic := fld.Type.(*ast.Ellipsis); variadic {
				for j := i; j < len(args); j++ {
					if args[j].ok {
						if ce.Ellipsis.IsValid() {
							ist.alias[a.p.info.Defs[nm]] = mark(args[j])
						} else {
							a.unknown(ce.Pos(), "alias passed as a variadic element")
						}
					}
				}
			} else if i < len(args) && args[i].ok {
				ist.alias[a.p.info.Defs[nm]] = mark(args[i])
			}
			i++
		}
	}
	sub.block(ist, fd.Body.List)
	return mergeRets(sub.rets)
}

func (a *an) funcBody(fd *ast.FuncDecl, st *state) {
	a.setRecv(fd)
	a.block(st, fd.Body.List)
	a.noteExit(st)
}

func (a *an) block(st *state, list []ast.Stmt) {
	for _, s := range list {
		a.stmt(st, s)
	}
}

func isPanicCall(s ast.Stmt) bool {
	es, ok := s.(*ast.ExprStmt)
	if !ok {
		return false
	}
	ce, ok := es.X.(*ast.CallExpr)
	if !ok {
		return false
	}
	id, ok := ce.Fun.(*ast.Ident)
	return ok && id.Name == "panic"
}

func (a *an) assignTo(st *state, lhs ast.Expr, r ref, rhs ast.Expr, define bool) {
	switch x := ast.Unparen(lhs).(type) {
	case *ast.Ident:
		if x.Name == "_" {
			return
		}
		if v, ok := a.globalVar(x); ok {
			if selfSync(v.Type()) {
				return
			}
			if _, isAtomic := a.w.atomObj[v]; isAtomic {
				return
			}
			a.access(st, ref{ok: true, cls: a.classOfGlobal(v, 0)}, true, x.Pos())
			a.publish(st, rhs, r, a.classOfGlobal(v, 1), lhs.Pos())
			return
		}
		obj := a.p.info.Defs[x]
		if obj == nil {
			obj = a.p.info.Uses[x]
		}
		if obj != nil {
			if r.ok {
				st.alias[obj] = r
			} else {
				delete(st.alias, obj)
			}
		}
	case *ast.IndexExpr:
		c := a.refOf(st, x.X)
		a.refOf(st, x.Index)
		a.risk(st, riskOfExpr(a.p, x, a.params()), x.Pos())
		if c.ok {
			a.access(st, c, true, x.Pos())
			if _, isMap := a.typeOf(x.X).Underlying().(*types.Map); isMap && !a.noInsert {
				a.insert(st, c, types.ExprString(x.Index), x.Pos())
			}
			inner := c.cls
			inner.Depth++
			a.publish(st, rhs, r, inner, lhs.Pos())
		} else if r.ok {
			a.unknown(lhs.Pos(), "alias of "+r.cls.String()+" stored into an untracked container")
		}
	case *ast.SelectorExpr:
		if _, cls, ok := a.recvField(x); ok {
			a.access(st, ref{ok: true, cls: cls}, true, x.Pos())
			cls.Depth = 1
			a.publish(st, rhs, r, cls, lhs.Pos())
			return
		}
		// field write; a field of a package-level struct variable is a write of its cell
		if id, ok := ast.Unparen(x.X).(*ast.Ident); ok {
			if v, ok := a.globalVar(id); ok && !selfSync(v.Type()) {
				if _, isPtr := v.Type().Underlying().(*types.Pointer); !isPtr {
					a.access(st, ref{ok: true, cls: a.classOfGlobal(v, 0)}, true, x.Pos())
				} else {
					a.refOf(st, x.X)
				}
			} else if pk, isPkg := a.p.info.Uses[id].(*types.PkgName); isPkg {
				_ = pk
				if v, ok := a.globalVar(x.Sel); ok && !selfSync(v.Type()) {
					a.access(st, ref{ok: true, cls: a.classOfGlobal(v, 0)}, true, x.Pos())
					a.publish(st, rhs, r, a.classOfGlobal(v, 1), lhs.Pos())
				}
			} else {
				a.refOf(st, x.X)
			}
		} else {
			a.refOf(st, x.X)
		}
		if r.ok {
			if _, isPkg := a.p.info.Selections[x]; isPkg {
				a.unknown(lhs.Pos(), "alias of "+r.cls.String()+" stored into a struct field")
			}
		}
	case *ast.StarExpr:
		a.refOf(st, x.X)
		if r.ok {
			a.unknown(lhs.Pos(), "alias of "+r.cls.String()+" stored through a pointer")
		}
	default:
		a.unknown(lhs.Pos(), fmt.Sprintf("assignment target %T", lhs))
	}
}

// publish: after `G = x` / `G[k] = x` the local x names the published container
func (a *an) publish(st *state, rhs ast.Expr, r ref, cls Class, pos token.Pos) {
	if rhs == nil || !isContainer(a.typeOf(rhs)) {
		return
	}
	if r.ok {
		if r.cls != cls {
			a.unknown(pos, "container of class "+r.cls.String()+" also published as "+cls.String())
		}
		return
	}
	if id, ok := ast.Unparen(rhs).(*ast.Ident); ok {
		if obj := a.p.info.Uses[id]; obj != nil {
			if _, isVar := obj.(*types.Var); isVar && obj.Parent() != obj.Pkg().Scope() {
				st.alias[obj] = ref{ok: true, cls: cls}
			}
		}
	}
}

func (a *an) stmt(st *state, s ast.Stmt) {
	if st.dead {
		// unreachable code after return/panic: still walk it (labels, etc.) with a scratch state
	}
	switch x := s.(type) {
	case nil:
	case *ast.ExprStmt:
		a.refOf(st, x.X)
		if isPanicCall(s) {
			st.dead = true
		}
	case *ast.AssignStmt:
		if x.Tok != token.ASSIGN && x.Tok != token.DEFINE {
			// op-assign: read and write
			r := a.refOf(st, x.Lhs[0])
			_ = r
			a.refOf(st, x.Rhs[0])
			a.noInsert = true // read-modify-write of one element inside one statement
			a.assignTo(st, x.Lhs[0], ref{}, nil, false)
			a.noInsert = false
			return
		}
		if len(x.Lhs) == len(x.Rhs) {
			rs := make([]ref, len(x.Rhs))
			for i, e := range x.Rhs {
				rs[i] = a.refOf(st, e)
			}
			for i, l := range x.Lhs {
				a.assignTo(st, l, rs[i], x.Rhs[i], x.Tok == token.DEFINE)
			}
			return
		}
		// tuple assignment from one expression
		var rs []ref
		switch r := ast.Unparen(x.Rhs[0]).(type) {
		case *ast.CallExpr:
			rs = a.call(st, r, false)
		default:
			rs = []ref{a.refOf(st, x.Rhs[0])}
		}
		for i, l := range x.Lhs {
			var r ref
			if i < len(rs) {
				r = rs[i]
			}
			a.assignTo(st, l, r, nil, x.Tok == token.DEFINE)
		}
	case *ast.IncDecStmt:
		a.refOf(st, x.X)
		a.noInsert = true
		a.assignTo(st, x.X, ref{}, nil, false)
		a.noInsert = false
	case *ast.DeclStmt:
		gd, ok := x.Decl.(*ast.GenDecl)
		if !ok {
			return
		}
		for _, sp := range gd.Specs {
			vs, ok := sp.(*ast.ValueSpec)
			if !ok {
				continue
			}
			if len(vs.Values) == len(vs.Names) {
				for i, nm := range vs.Names {
					r := a.refOf(st, vs.Values[i])
					a.assignTo(st, nm, r, vs.Values[i], true)
				}
			} else {
				for _, v := range vs.Values {
					a.refOf(st, v)
				}
			}
		}
	case *ast.ReturnStmt:
		rs := make([]ref, 0, len(x.Results))
		if len(x.Results) == 1 {
			if ce, ok := ast.Unparen(x.Results[0]).(*ast.CallExpr); ok {
				rs = a.call(st, ce, false)
			} else {
				rs = append(rs, a.refOf(st, x.Results[0]))
			}
		} else {
			for _, e := range x.Results {
				rs = append(rs, a.refOf(st, e))
			}
		}
		for i, r := range rs {
			if r.ok && ast.IsExported(a.fn.name) && a.depth == 0 && i < len(x.Results) {
				// escapes to callers outside the package: they may read it at any time, lock-free
				free := newState()
				a.deepRead(free, r, a.typeOf(x.Results[i]), x.Pos())
			}
		}
		a.rets = append(a.rets, rs)
		a.noteExit(st)
		st.dead = true
	case *ast.BlockStmt:
		a.block(st, x.List)
	case *ast.IfStmt:
		a.stmt(st, x.Init)
		thenSt := st.clone()
		// `if mu.TryLock() { ... }`
		tried := false
		if ce, ok := ast.Unparen(x.Cond).(*ast.CallExpr); ok {
			if mu, op := a.mutexOp(ce); op == "TryLock" || op == "TryRLock" {
				a.acquire(thenSt, mu, op == "TryLock", ce.Pos())
				tried = true
			}
		}
		if !tried {
			a.refOf(st, x.Cond)
			thenSt = st.clone()
		}
		a.block(thenSt, x.Body.List)
		elseSt := st.clone()
		if x.Else != nil {
			a.stmt(elseSt, x.Else)
		}
		st.join(thenSt, elseSt)
	case *ast.ForStmt:
		a.stmt(st, x.Init)
		a.refOf(st, x.Cond)
		body := st.clone()
		a.loop++
		a.block(body, x.Body.List)
		a.stmt(body, x.Post)
		a.loop--
		body.dead = false
		pre := st.clone()
		st.join(pre, body)
	case *ast.RangeStmt:
		c := a.refOf(st, x.X)
		if c.ok {
			a.access(st, c, false, x.X.Pos())
		}
		body := st.clone()
		if x.Value != nil {
			if id, ok := x.Value.(*ast.Ident); ok && id.Name != "_" {
				obj := a.p.info.Defs[id]
				if obj == nil {
					obj = a.p.info.Uses[id]
				}
				if obj != nil {
					if c.ok && isContainer(elemType(a.typeOf(x.X))) {
						in := c
						in.cls.Depth++
						body.alias[obj] = in
					} else {
						delete(body.alias, obj)
					}
				}
			}
		}
		a.loop++
		a.block(body, x.Body.List)
		a.loop--
		body.dead = false
		pre := st.clone()
		st.join(pre, body)
	case *ast.SwitchStmt:
		a.stmt(st, x.Init)
		a.refOf(st, x.Tag)
		a.cases(st, x.Body)
	case *ast.TypeSwitchStmt:
		a.stmt(st, x.Init)
		switch as := x.Assign.(type) {
		case *ast.ExprStmt:
			a.refOf(st, as.X)
		case *ast.AssignStmt:
			a.refOf(st, as.Rhs[0])
		}
		a.cases(st, x.Body)
	case *ast.SelectStmt:
		a.cases(st, x.Body)
	case *ast.LabeledStmt:
		a.stmt(st, x.Stmt)
	case *ast.BranchStmt:
		st.dead = true
	case *ast.GoStmt:
		if fl, ok := ast.Unparen(x.Call.Fun).(*ast.FuncLit); ok {
			for _, arg := range x.Call.Args {
				a.refOf(st, arg)
			}
			sub := *a
			if a.fn.phase == "init" { // a goroutine started by init outlives initialisation
				fc := *a.fn
				fc.phase = "live"
				sub.fn = &fc
			}
			sub.funcLit(st, fl, false)
		} else {
			a.call(st, x.Call, true)
		}
	case *ast.DeferStmt:
		a.call(st, x.Call, true)
	case *ast.SendStmt:
		a.refOf(st, x.Chan)
		if r := a.refOf(st, x.Value); r.ok {
			a.unknown(x.Pos(), "alias of "+r.cls.String()+" sent over a channel")
		}
	case *ast.EmptyStmt:
	default:
		a.unknown(s.Pos(), fmt.Sprintf("statement form %T", s))
	}
}

func (a *an) cases(st *state, body *ast.BlockStmt) {
	var outs []*state
	hasDefault := false
	for _, c := range body.List {
		b := st.clone()
		switch cc := c.(type) {
		case *ast.CaseClause:
			if cc.List == nil {
				hasDefault = true
			}
			for _, e := range cc.List {
				if tv, ok := a.p.info.Types[e]; ok && tv.IsType() {
					continue
				}
				a.refOf(b, e)
			}
			a.block(b, cc.Body)
		case *ast.CommClause:
			if cc.Comm == nil {
				hasDefault = true
			}
			a.stmt(b, cc.Comm)
			a.block(b, cc.Body)
		}
		outs = append(outs, b)
	}
	if !hasDefault {
		outs = append(outs, st.clone())
	}
	st.join(outs...)
}

// package-level variable initialisers: phase init
func (w *World) varInits(p *Pkg) {
	fi := &FuncInfo{pkg: p, key: p.rel + ".<var-init>", name: "init", phase: "init"}
	a := &an{w: w, p: p, fn: fi, rec: true}
	st := newState()
	for _, f := range p.files {
		for _, d := range f.Decls {
			gd, ok := d.(*ast.GenDecl)
			if !ok || gd.Tok != token.VAR {
				continue
			}
			for _, sp := range gd.Specs {
				vs := sp.(*ast.ValueSpec)
				for _, v := range vs.Values {
					a.refOf(st, v)
				}
				for _, nm := range vs.Names {
					if v, ok := a.globalVar(nm); ok && !selfSync(v.Type()) && nm.Name != "_" {
						if _, isAtomic := w.atomObj[v]; !isAtomic {
							a.access(st, ref{ok: true, cls: a.classOfGlobal(v, 0)}, true, nm.Pos())
						}
					}
				}
			}
		}
	}
}

// ---------------------------------------------------------------------------------------------------
// lock order through calls; slot shapes
// ---------------------------------------------------------------------------------------------------

func (w *World) allFuncs() map[string]*FuncInfo {
	m := map[string]*FuncInfo{}
	for _, p := range w.order {
		for k, f := range p.funcs {
			m[k] = f
		}
	}
	return m
}

func (w *World) callEdges() {
	fs := w.allFuncs()
	// transitive acquisitions
	acqs := map[string]map[string]bool{}
	var visit func(k string, seen map[string]bool) map[string]bool
	visit = func(k string, seen map[string]bool) map[string]bool {
		if r, ok := acqs[k]; ok {
			return r
		}
		if seen[k] {
			return map[string]bool{}
		}
		seen[k] = true
		r := map[string]bool{}
		f := fs[k]
		if f == nil {
			return r
		}
		for _, d := range f.direct {
			r[d.mu] = true
		}
		for _, c := range f.calls {
			for m := range visit(c.callee, seen) {
				r[m] = true
			}
		}
		delete(seen, k)
		acqs[k] = r
		return r
	}
	keys := make([]string, 0, len(fs))
	for k := range fs {
		keys = append(keys, k)
	}
	sort.Strings(keys)
	for _, k := range keys {
		visit(k, map[string]bool{})
	}
	for _, k := range keys {
		f := fs[k]
		if f.entryTop {
			continue
		}
		for _, c := range f.calls {
			for h := range c.held {
				for m := range acqs[c.callee] {
					w.edges = append(w.edges, Edge{Outer: h, Inner: m, Fn: f.key + " -> " + c.callee, Pos: c.pos})
				}
			}
		}
	}
}

// shapes: per slot phase the read sections, per rule-update function the write sections, of each package-level
// RW mutex of the package — maximum over the paths of one call, callees included.
func (w *World) shapes() []Shape {
	var out []Shape
	for _, p := range w.order {
		if !p.track {
			continue
		}
		var mus []string
		sc := p.tpkg.Scope()
		for _, n := range sc.Names() {
			if v, ok := sc.Lookup(n).(*types.Var); ok {
				t := v.Type()
				if pt, ok := t.(*types.Pointer); ok {
					t = pt.Elem()
				}
				if nt, ok := t.(*types.Named); ok && nt.Obj().Pkg() != nil && nt.Obj().Pkg().Path() == "sync" && nt.Obj().Name() == "RWMutex" {
					mus = append(mus, p.rel+"."+n)
				}
			}
		}
		for _, f := range sortedFuncs(p) {
			mode := ""
			if f.decl.Recv != nil && slotPhases[f.name] {
				mode = "|R"
			} else if f.decl.Recv == nil && ast.IsExported(f.name) && (strings.HasPrefix(f.name, "Load") || strings.HasPrefix(f.name, "Clear")) {
				mode = "|W"
			}
			if mode == "" {
				continue
			}
			sum := w.secSummary(f)
			for _, mu := range mus {
				n := sum[mu+mode]
				if n == 0 {
					continue
				}
				out = append(out, Shape{Slot: f.key, Mu: mu, Sections: n % loopMark, InLoop: n >= loopMark})
			}
		}
	}
	return out
}

// ---------------------------------------------------------------------------------------------------
// atomics
// ---------------------------------------------------------------------------------------------------

func fieldKey(p *Pkg, v *types.Var, recv types.Type) string {
	if v.IsField() {
		return typeName(recv) + "." + v.Name()
	}
	return p.rel + "." + v.Name()
}

func (w *World) findAtomics(p *Pkg) {
	for _, f := range p.files {
		ast.Inspect(f, func(n ast.Node) bool {
			ce, ok := n.(*ast.CallExpr)
			if !ok || len(ce.Args) == 0 {
				return true
			}
			var fo *types.Func
			switch fn := ce.Fun.(type) {
			case *ast.SelectorExpr:
				fo, _ = p.info.Uses[fn.Sel].(*types.Func)
			}
			if fo == nil || fo.Pkg() == nil || fo.Pkg().Path() != "sync/atomic" {
				return true
			}
			w.atomicN++
			arg := ast.Unparen(ce.Args[0])
			// strip conversions such as (*int32)(unsafe.Pointer(&x.f))
			for {
				c, ok := arg.(*ast.CallExpr)
				if !ok || len(c.Args) != 1 {
					break
				}
				if tv, ok := p.info.Types[c.Fun]; !ok || !tv.IsType() {
					break
				}
				arg = ast.Unparen(c.Args[0])
			}
			u, ok := arg.(*ast.UnaryExpr)
			if !ok || u.Op != token.AND {
				return true // pointer-valued operand (local pointer): checked by derefs below
			}
			target := ast.Unparen(u.X)
			if ix, ok := target.(*ast.IndexExpr); ok {
				w.atomArgs[ix] = true
				target = ast.Unparen(ix.X)
			}
			switch t := target.(type) {
			case *ast.SelectorExpr:
				if s, ok := p.info.Selections[t]; ok && s.Kind() == types.FieldVal {
					v := s.Obj().(*types.Var)
					k := fieldKey(p, v, s.Recv())
					w.atomics[k] = true
					w.atomObj[v] = k
					w.atomArgs[t] = true
				}
			case *ast.Ident:
				if v, ok := p.info.Uses[t].(*types.Var); ok && v.Pkg() != nil && v.Parent() == v.Pkg().Scope() {
					k := fieldKey(p, v, nil)
					w.atomics[k] = true
					w.atomObj[v] = k
					w.atomArgs[t] = true
				}
			}
			return true
		})
	}
}

// callerData: (a) stores of a parameter of an exported function into a map/slice-typed struct field without copying,
// (b) in-place writes through map/slice-typed struct fields.  Purely syntactic, per package.
func (w *World) callerData() ([]CallerStore, []FieldWrite) {
	var stores []CallerStore
	var writes []FieldWrite
	for _, p := range w.order {
		if !p.track {
			continue
		}
		fieldOf := func(e ast.Expr) (string, bool) {
			sel, ok := ast.Unparen(e).(*ast.SelectorExpr)
			if !ok {
				return "", false
			}
			s, ok := p.info.Selections[sel]
			if !ok || s.Kind() != types.FieldVal {
				return "", false
			}
			fv := s.Obj().(*types.Var)
			if !isContainer(fv.Type()) {
				return "", false
			}
			return typeName(s.Recv()) + "." + fv.Name(), true
		}
		for _, f := range sortedFuncs(p) {
			if f.decl.Body == nil {
				continue
			}
			params := map[types.Object]string{}
			if ast.IsExported(f.name) {
				for o := range paramSet(p, f.decl) {
					if isContainer(o.Type()) {
						params[o] = o.Name()
					}
				}
			}
			var rootParam func(e ast.Expr) (string, bool)
			rootParam = func(e ast.Expr) (string, bool) {
				switch x := ast.Unparen(e).(type) {
				case *ast.Ident:
					n, ok := params[p.info.Uses[x]]
					return n, ok
				case *ast.SliceExpr:
					return rootParam(x.X)
				case *ast.CallExpr: // conversion
					if tv, ok := p.info.Types[x.Fun]; ok && tv.IsType() && len(x.Args) == 1 {
						return rootParam(x.Args[0])
					}
				}
				return "", false
			}
			ast.Inspect(f.decl.Body, func(n ast.Node) bool {
				switch x := n.(type) {
				case *ast.AssignStmt:
					for i, l := range x.Lhs {
						if fld, ok := fieldOf(l); ok && x.Tok == token.ASSIGN && i < len(x.Rhs) && len(x.Lhs) == len(x.Rhs) {
							if pn, ok := rootParam(x.Rhs[i]); ok {
								stores = append(stores, CallerStore{Field: fld, Param: pn, Phase: f.phase, Fn: f.key, Pos: w.pos(l.Pos())})
							}
							// x.f = append(x.f, ...) may write into the backing array x.f shares with its source
							if ce, ok := ast.Unparen(x.Rhs[i]).(*ast.CallExpr); ok {
								if id, ok := ce.Fun.(*ast.Ident); ok && id.Name == "append" && len(ce.Args) > 0 {
									if f2, ok := fieldOf(ce.Args[0]); ok && f2 == fld {
										writes = append(writes, FieldWrite{Field: fld, Op: "append", Phase: f.phase, Fn: f.key, Pos: w.pos(l.Pos())})
									}
								}
							}
						}
						if ix, ok := ast.Unparen(l).(*ast.IndexExpr); ok {
							if fld, ok := fieldOf(ix.X); ok {
								writes = append(writes, FieldWrite{Field: fld, Op: "element assignment", Phase: f.phase, Fn: f.key, Pos: w.pos(l.Pos())})
							}
						}
					}
				case *ast.IncDecStmt:
					if ix, ok := ast.Unparen(x.X).(*ast.IndexExpr); ok {
						if fld, ok := fieldOf(ix.X); ok {
							writes = append(writes, FieldWrite{Field: fld, Op: "element update", Phase: f.phase, Fn: f.key, Pos: w.pos(x.Pos())})
						}
					}
				case *ast.CallExpr:
					if id, ok := x.Fun.(*ast.Ident); ok && (id.Name == "delete" || id.Name == "clear" || id.Name == "copy") && len(x.Args) > 0 {
						if _, isB := p.info.Uses[id].(*types.Builtin); isB {
							if fld, ok := fieldOf(x.Args[0]); ok {
								writes = append(writes, FieldWrite{Field: fld, Op: id.Name, Phase: f.phase, Fn: f.key, Pos: w.pos(x.Pos())})
							}
						}
					}
				}
				return true
			})
		}
	}
	return stores, writes
}

// onceFacts: for every method that calls `recv.<f>.Do(func(){...})` with f a sync.Once field of the receiver's struct:
// how many calls that act on the receiver (methods of the receiver or of its fields, handlers ranged out of a receiver
// field; sync/atomic methods excluded) sit inside that closure and how many outside it.
func (w *World) onceFacts() []OnceFact {
	out := []OnceFact{}
	for _, p := range w.order {
		if !p.track {
			continue
		}
		for _, f := range sortedFuncs(p) {
			fd := f.decl
			if fd.Recv == nil || len(fd.Recv.List) != 1 || len(fd.Recv.List[0].Names) != 1 {
				continue
			}
			recv := p.info.Defs[fd.Recv.List[0].Names[0]]
			if recv == nil {
				continue
			}
			var rooted func(e ast.Expr) bool
			rooted = func(e ast.Expr) bool {
				switch x := ast.Unparen(e).(type) {
				case *ast.Ident:
					return p.info.Uses[x] == recv
				case *ast.SelectorExpr:
					return rooted(x.X)
				case *ast.CallExpr:
					return rooted(x.Fun)
				case *ast.IndexExpr:
					return rooted(x.X)
				}
				return false
			}
			// the Do call
			var do *ast.CallExpr
			var lit *ast.FuncLit
			onceName := ""
			ast.Inspect(fd.Body, func(n ast.Node) bool {
				ce, ok := n.(*ast.CallExpr)
				if !ok || do != nil {
					return true
				}
				sel, ok := ce.Fun.(*ast.SelectorExpr)
				if !ok || sel.Sel.Name != "Do" || len(ce.Args) != 1 || !rooted(sel.X) {
					return true
				}
				t := p.info.TypeOf(sel.X)
				if nt, ok := t.(*types.Named); !ok || nt.Obj().Pkg() == nil || nt.Obj().Pkg().Path() != "sync" || nt.Obj().Name() != "Once" {
					return true
				}
				if fl, ok := ce.Args[0].(*ast.FuncLit); ok {
					do, lit = ce, fl
					onceName = typeName(recv.Type()) + "." + types.ExprString(sel.X)
				}
				return true
			})
			if do == nil {
				continue
			}
			// range variables bound to elements of receiver fields
			handlers := map[types.Object]bool{}
			ast.Inspect(fd.Body, func(n ast.Node) bool {
				if rs, ok := n.(*ast.RangeStmt); ok && rooted(rs.X) {
					if id, ok := rs.Value.(*ast.Ident); ok {
						handlers[p.info.Defs[id]] = true
					}
				}
				return true
			})
			fact := OnceFact{Fn: f.key, Once: onceName, Pos: w.pos(do.Pos())}
			ast.Inspect(fd.Body, func(n ast.Node) bool {
				ce, ok := n.(*ast.CallExpr)
				if !ok || ce == do {
					return true
				}
				effect := false
				switch fn := ast.Unparen(ce.Fun).(type) {
				case *ast.SelectorExpr:
					if rooted(fn.X) {
						effect = true
						if fo, ok := p.info.Uses[fn.Sel].(*types.Func); ok && fo.Pkg() != nil && fo.Pkg().Path() == "sync/atomic" {
							effect = false
						}
					}
				case *ast.Ident:
					effect = handlers[p.info.Uses[fn]]
				}
				if effect {
					if ce.Pos() >= lit.Pos() && ce.End() <= lit.End() {
						fact.Inside++
					} else {
						fact.Outside++
					}
				}
				return true
			})
			out = append(out, fact)
		}
	}
	return out
}

// plainUses lists every non-atomic use of a field / variable that is elsewhere used atomically.
func (w *World) plainUses() {
	for _, p := range w.order {
		for _, f := range p.files {
			// enclosing function and "is a write / keyed-literal init" context
			var stack []ast.Node
			ast.Inspect(f, func(n ast.Node) bool {
				if n == nil {
					stack = stack[:len(stack)-1]
					return true
				}
				stack = append(stack, n)
				var v *types.Var
				var at ast.Expr
				switch x := n.(type) {
				case *ast.SelectorExpr:
					if s, ok := p.info.Selections[x]; ok && s.Kind() == types.FieldVal {
						v, _ = s.Obj().(*types.Var)
						at = x
					}
				case *ast.Ident:
					if o, ok := p.info.Uses[x].(*types.Var); ok {
						if o.IsField() {
							// keyed composite literal field: initialisation
							if len(stack) >= 2 {
								if kv, ok := stack[len(stack)-2].(*ast.KeyValueExpr); ok && kv.Key == x {
									if k, ok := w.atomObj[o]; ok {
										w.plains = append(w.plains, Plain{Field: k, Write: true, Phase: "init", Fn: w.enclosing(p, stack), Pos: w.pos(x.Pos())})
									}
								}
							}
							return true
						}
						if o.Pkg() != nil && o.Parent() == o.Pkg().Scope() {
							v = o
							at = x
						}
					}
				}
				if v == nil {
					return true
				}
				k, ok := w.atomObj[v]
				if !ok {
					return true
				}
				// selector's Sel ident is visited too: skip idents that are the Sel of a selector
				if id, isId := n.(*ast.Ident); isId && len(stack) >= 2 {
					if se, ok := stack[len(stack)-2].(*ast.SelectorExpr); ok && se.Sel == id {
						return true
					}
				}
				if w.atomArgs[at] {
					return true
				}
				// x.f[i] where the IndexExpr is the atomic operand
				if len(stack) >= 2 {
					if ix, ok := stack[len(stack)-2].(*ast.IndexExpr); ok && ix.X == at && w.atomArgs[ix] {
						return true
					}
					// `for i := range x.f` (index only) does not touch the elements; len(x.f) of an array neither
					if rs, ok := stack[len(stack)-2].(*ast.RangeStmt); ok && rs.X == at && rs.Value == nil {
						if _, isArr := v.Type().Underlying().(*types.Array); isArr {
							return true
						}
					}
					if ce, ok := stack[len(stack)-2].(*ast.CallExpr); ok {
						if id, ok := ce.Fun.(*ast.Ident); ok && (id.Name == "len" || id.Name == "cap") {
							if _, isArr := v.Type().Underlying().(*types.Array); isArr {
								return true
							}
						}
					}
				}
				write := false
				if len(stack) >= 2 {
					switch par := stack[len(stack)-2].(type) {
					case *ast.AssignStmt:
						for _, l := range par.Lhs {
							if l == at {
								write = true
							}
						}
					case *ast.IncDecStmt:
						write = true
					}
				}
				fn := w.enclosing(p, stack)
				phase := "live"
				if fi := p.funcs[fn]; fi != nil {
					phase = fi.phase
				} else if fn == "" {
					phase = "init"
					fn = p.rel + ".<var-init>"
				}
				w.plains = append(w.plains, Plain{Field: k, Write: write, Phase: phase, Fn: fn, Pos: w.pos(at.Pos())})
				return true
			})
		}
	}
}

func (w *World) enclosing(p *Pkg, stack []ast.Node) string {
	for i := len(stack) - 1; i >= 0; i-- {
		if fd, ok := stack[i].(*ast.FuncDecl); ok {
			if o, ok := p.info.Defs[fd.Name].(*types.Func); ok {
				if fi := p.byObj[o]; fi != nil {
					return fi.key
				}
			}
		}
	}
	return ""
}

// ---------------------------------------------------------------------------------------------------
// output
// ---------------------------------------------------------------------------------------------------

func (w *World) output() *Out {
	o := &Out{Repo: w.repo, AtomicUse: w.atomicN, Accesses: []Row{}, Atomics: []string{}, Plains: []Plain{}, Edges: []Edge{}, Shapes: []Shape{}, Unknowns: []Unknown{}}
	seen := map[string]bool{}
	for _, r := range w.rows {
		k := fmt.Sprintf("%s|%v|%v|%s|%s|%s", r.Class, r.Write, r.Held, r.Phase, r.Fn, r.Pos)
		if seen[k] {
			continue
		}
		seen[k] = true
		o.Accesses = append(o.Accesses, r)
	}
	sort.SliceStable(o.Accesses, func(i, j int) bool {
		a, b := o.Accesses[i], o.Accesses[j]
		if a.Class != b.Class {
			return a.Class < b.Class
		}
		if a.Pos != b.Pos {
			return a.Pos < b.Pos
		}
		return !a.Write && b.Write
	})
	for k := range w.atomics {
		o.Atomics = append(o.Atomics, k)
	}
	sort.Strings(o.Atomics)
	o.Plains = append(o.Plains, w.plains...)
	sort.SliceStable(o.Plains, func(i, j int) bool { return o.Plains[i].Field+o.Plains[i].Pos < o.Plains[j].Field+o.Plains[j].Pos })
	es := map[string]bool{}
	for _, e := range w.edges {
		k := e.Outer + ">" + e.Inner
		if es[k] {
			continue
		}
		es[k] = true
		o.Edges = append(o.Edges, e)
	}
	sort.SliceStable(o.Edges, func(i, j int) bool {
		return o.Edges[i].Outer+">"+o.Edges[i].Inner < o.Edges[j].Outer+">"+o.Edges[j].Inner
	})
	o.Shapes = append(o.Shapes, w.shapes()...)
	us := map[string]bool{}
	for _, u := range w.unknowns {
		k := u.Pos + u.What + u.Phase
		if us[k] {
			continue
		}
		us[k] = true
		o.Unknowns = append(o.Unknowns, u)
	}
	o.Inserts = []Insert{}
	is := map[string]bool{}
	for _, r := range w.inserts {
		k := fmt.Sprintf("%s|%s|%v|%s|%s", r.Class, r.Pos, r.Guards, r.Phase, r.Fn)
		if is[k] {
			continue
		}
		is[k] = true
		o.Inserts = append(o.Inserts, r)
	}
	sort.SliceStable(o.Inserts, func(i, j int) bool { return o.Inserts[i].Class+o.Inserts[i].Pos < o.Inserts[j].Class+o.Inserts[j].Pos })
	o.Risky = []Risky{}
	rk := map[string]bool{}
	for _, r := range w.risky {
		k := r.Mu + "|" + r.Pos + "|" + r.Op + "|" + r.Fn
		if rk[k] {
			continue
		}
		rk[k] = true
		o.Risky = append(o.Risky, r)
	}
	sort.SliceStable(o.Risky, func(i, j int) bool { return o.Risky[i].Pos+o.Risky[i].Mu < o.Risky[j].Pos+o.Risky[j].Mu })
	o.Stores, o.FWrites = w.callerData()
	o.Onces = w.onceFacts()
	if o.Stores == nil {
		o.Stores = []CallerStore{}
	}
	if o.FWrites == nil {
		o.FWrites = []FieldWrite{}
	}
	for k := range setupOnly {
		o.SetupOnly = append(o.SetupOnly, k)
	}
	sort.Strings(o.SetupOnly)
	vs := map[string]bool{}
	for _, r := range o.Accesses {
		vs[r.Class] = true
	}
	for k := range vs {
		o.Vars = append(o.Vars, k)
	}
	sort.Strings(o.Vars)
	o.CallSites = []CallJ{}
	fs := w.allFuncs()
	fks := make([]string, 0, len(fs))
	for k := range fs {
		fks = append(fks, k)
	}
	sort.Strings(fks)
	for _, k := range fks {
		for _, c := range fs[k].calls {
			o.CallSites = append(o.CallSites, CallJ{Caller: k, Callee: c.callee, Pos: c.pos})
		}
	}
	return o
}

func lstr(s string) string {
	return "\"" + strings.NewReplacer("\\", "\\\\", "\"", "\\\"").Replace(s) + "\""
}

func lbool(b bool) string {
	if b {
		return "true"
	}
	return "false"
}

func leanText(o *Out) string {
	var b strings.Builder
	b.WriteString("import Sentinel.Model.LockModel\n")
	b.WriteString("/-! GENERATED by go/cmd/extract15 from the Go source — do not edit, do not commit.\n    Regenerated by `checks/C15.py` on every run (and by `bin/setup`). -/\n")
	b.WriteString("namespace Sentinel.Gen.Access\nopen Sentinel.LockModel\n\n")
	// interning
	clsID := map[string]int{}
	var clsNames []string
	for _, r := range o.Accesses {
		if _, ok := clsID[r.Class]; !ok {
			clsID[r.Class] = len(clsNames)
			clsNames = append(clsNames, r.Class)
		}
	}
	muID := map[string]int{}
	var muNames []string
	mu := func(s string) int {
		if id, ok := muID[s]; ok {
			return id
		}
		muID[s] = len(muNames)
		muNames = append(muNames, s)
		return muID[s]
	}
	for _, r := range o.Accesses {
		for _, h := range r.Held {
			mu(h.Mu)
		}
	}
	for _, e := range o.Edges {
		mu(e.Outer)
		mu(e.Inner)
	}
	for _, s := range o.Shapes {
		mu(s.Mu)
	}
	for _, r := range o.Inserts {
		for _, g := range r.Guards {
			mu(g)
		}
	}
	for _, r := range o.Risky {
		mu(r.Mu)
	}
	defer func() { o.MutexIDs = muNames }()
	b.WriteString("def classNames : List (Nat × String) := [\n")
	for i, n := range clsNames {
		fmt.Fprintf(&b, "  (%d, %s)%s\n", i, lstr(n), comma(i, len(clsNames)))
	}
	b.WriteString("]\n\ndef mutexNames : List (Nat × String) := [\n")
	for i, n := range muNames {
		fmt.Fprintf(&b, "  (%d, %s)%s\n", i, lstr(n), comma(i, len(muNames)))
	}
	b.WriteString("]\n\ndef accesses : List Access := [\n")
	for i, r := range o.Accesses {
		var hs []string
		for _, h := range r.Held {
			hs = append(hs, fmt.Sprintf("⟨%d, %s⟩", mu(h.Mu), lbool(h.W)))
		}
		fmt.Fprintf(&b, "  ⟨%d, %d, %s, [%s], .%s, %s, %s⟩%s\n", i, clsID[r.Class], lbool(r.Write), strings.Join(hs, ", "), r.Phase, lstr(r.Fn), lstr(r.Pos), comma(i, len(o.Accesses)))
	}
	b.WriteString("]\n\ndef atomicFields : List (Nat × String) := [\n")
	fid := map[string]int{}
	for i, n := range o.Atomics {
		fid[n] = i
		fmt.Fprintf(&b, "  (%d, %s)%s\n", i, lstr(n), comma(i, len(o.Atomics)))
	}
	b.WriteString("]\n\ndef plainUses : List PlainUse := [\n")
	for i, p := range o.Plains {
		fmt.Fprintf(&b, "  ⟨%d, %d, %s, .%s, %s, %s⟩%s\n", i, fid[p.Field], lbool(p.Write), p.Phase, lstr(p.Fn), lstr(p.Pos), comma(i, len(o.Plains)))
	}
	b.WriteString("]\n\ndef lockEdges : List LockEdge := [\n")
	for i, e := range o.Edges {
		fmt.Fprintf(&b, "  ⟨%d, %d, %s, %s⟩%s\n", mu(e.Outer), mu(e.Inner), lstr(e.Fn), lstr(e.Pos), comma(i, len(o.Edges)))
	}
	b.WriteString("]\n\n/-- topological ranking of the mutexes computed by the generator (the certificate `lock_order_acyclic` checks) -/\ndef lockRanks : List (Nat × Nat) := [\n")
	ranks := topoRanks(o.Edges, muNames)
	for i, n := range muNames {
		fmt.Fprintf(&b, "  (%d, %d)%s\n", i, ranks[n], comma(i, len(muNames)))
	}
	b.WriteString("]\n\ndef slotShapes : List SlotShape := [\n")
	for i, s := range o.Shapes {
		fmt.Fprintf(&b, "  ⟨%d, %s, %d, %d, %s⟩%s\n", i, lstr(s.Slot), mu(s.Mu), s.Sections, lbool(s.InLoop), comma(i, len(o.Shapes)))
	}
	b.WriteString("]\n\ndef inserts : List Insert := [\n")
	for i, r := range o.Inserts {
		var gs []string
		for _, g := range r.Guards {
			gs = append(gs, fmt.Sprint(mu(g)))
		}
		cid, ok := clsID[r.Class]
		if !ok {
			cid = 1 << 30
		}
		fmt.Fprintf(&b, "  ⟨%d, %d, [%s], %s, .%s, %s, %s, %s⟩%s\n", i, cid, strings.Join(gs, ", "), lbool(r.Rechecked), r.Phase, lstr(r.Fn), lstr(r.Pos), lstr(r.Key), comma(i, len(o.Inserts)))
	}
	b.WriteString("]\n\ndef riskyOps : List RiskyOp := [\n")
	for i, r := range o.Risky {
		fmt.Fprintf(&b, "  ⟨%d, %d, %s, .%s, %s, %s, %s⟩%s\n", i, mu(r.Mu), lbool(r.Deferred), r.Phase, lstr(r.Fn), lstr(r.Pos), lstr(r.Op), comma(i, len(o.Risky)))
	}
	fieldID := map[string]int{}
	var fieldNames []string
	fid2 := func(s string) int {
		if id, ok := fieldID[s]; ok {
			return id
		}
		fieldID[s] = len(fieldNames)
		fieldNames = append(fieldNames, s)
		return fieldID[s]
	}
	b.WriteString("]\n\ndef callerStores : List CallerStore := [\n")
	for i, r := range o.Stores {
		fmt.Fprintf(&b, "  ⟨%d, %d, .%s, %s, %s, %s⟩%s\n", i, fid2(r.Field), r.Phase, lstr(r.Fn), lstr(r.Pos), lstr(r.Field+" = "+r.Param), comma(i, len(o.Stores)))
	}
	b.WriteString("]\n\ndef fieldWrites : List FieldWrite := [\n")
	for i, r := range o.FWrites {
		fmt.Fprintf(&b, "  ⟨%d, %d, .%s, %s, %s, %s⟩%s\n", i, fid2(r.Field), r.Phase, lstr(r.Fn), lstr(r.Pos), lstr(r.Field+": "+r.Op), comma(i, len(o.FWrites)))
	}
	b.WriteString("]\n\ndef onceFacts : List OnceFact := [\n")
	for i, r := range o.Onces {
		fmt.Fprintf(&b, "  ⟨%d, %s, %s, %d, %d, %s⟩%s\n", i, lstr(r.Fn), lstr(r.Once), r.Inside, r.Outside, lstr(r.Pos), comma(i, len(o.Onces)))
	}
	b.WriteString("]\n\ndef unknowns : List Unknown := [\n")
	for i, u := range o.Unknowns {
		fmt.Fprintf(&b, "  ⟨%d, .%s, %s, %s, %s⟩%s\n", i, u.Phase, lstr(u.Fn), lstr(u.Pos), lstr(u.What), comma(i, len(o.Unknowns)))
	}
	b.WriteString("]\n\ndef setupOnly : List String := [")
	for i, s := range o.SetupOnly {
		if i > 0 {
			b.WriteString(", ")
		}
		b.WriteString(lstr(s))
	}
	b.WriteString("]\n\nend Sentinel.Gen.Access\n")
	return b.String()
}

func comma(i, n int) string {
	if i+1 < n {
		return ","
	}
	return ""
}

// topoRanks: longest-path layering; mutexes on a cycle keep rank 0 (so the Lean check fails on them)
func topoRanks(es []Edge, mus []string) map[string]int {
	rank := map[string]int{}
	for _, m := range mus {
		rank[m] = 0
	}
	for it := 0; it <= len(mus); it++ {
		changed := false
		for _, e := range es {
			if e.Outer == e.Inner {
				continue
			}
			if rank[e.Inner] < rank[e.Outer]+1 && rank[e.Outer]+1 <= len(mus) {
				rank[e.Inner] = rank[e.Outer] + 1
				changed = true
			}
		}
		if !changed {
			break
		}
	}
	return rank
}
