// corr <property> [ops-file]: run the op lines against the real sentinel-golang packages.
package main

import (
	"fmt"
	"os"

	"verifharness/internal/c08"
	"verifharness/internal/vh"
)

func main() {
	if len(os.Args) < 2 {
		fmt.Fprintln(os.Stderr, "usage: corr <property> [ops-file]")
		os.Exit(2)
	}
	var it vh.Interp
	switch os.Args[1] {
	case "C08":
		it = c08.New()
	default:
		fmt.Fprintln(os.Stderr, "unknown property", os.Args[1])
		os.Exit(2)
	}
	vh.Main(it, os.Args[2:])
}
