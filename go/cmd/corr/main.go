// corr <property> [ops-file]: run the op lines against the real sentinel-golang packages.
package main

import (
	"fmt"
	"os"

	"verifharness/internal/c01"
	"verifharness/internal/c02"
	"verifharness/internal/c03"
	"verifharness/internal/c04"
	"verifharness/internal/c05"
	"verifharness/internal/c06"
	"verifharness/internal/c07"
	"verifharness/internal/c08"
	"verifharness/internal/c09"
	"verifharness/internal/c10"
	"verifharness/internal/c11"
	"verifharness/internal/c12"
	"verifharness/internal/c13"
	"verifharness/internal/c14"
	"verifharness/internal/c15"
	"verifharness/internal/c16"
	"verifharness/internal/c17"
	"verifharness/internal/c18"
	"verifharness/internal/c19"
	"verifharness/internal/c20"
	"verifharness/internal/cagg"
	"verifharness/internal/cint"
	"verifharness/internal/vh"
)

func main() {
	if len(os.Args) < 2 {
		fmt.Fprintln(os.Stderr, "usage: corr <property> [ops-file]")
		os.Exit(2)
	}
	var it vh.Interp
	switch os.Args[1] {
	case "C01":
		it = c01.New()
	case "C02":
		it = c02.New()
	case "C03":
		it = c03.New()
	case "C04":
		it = c04.New()
	case "C05":
		it = c05.New()
	case "C06":
		it = c06.New()
	case "C07":
		it = c07.New()
	case "C08":
		it = c08.New()
	case "C09":
		it = c09.New()
	case "C10":
		it = c10.New()
	case "C11":
		it = c11.New()
	case "C12":
		it = c12.New()
	case "C13":
		it = c13.New()
	case "C14":
		it = c14.New()
	case "C15":
		it = c15.New()
	case "C16":
		it = c16.New()
	case "C17":
		it = c17.New()
	case "C18":
		it = c18.New()
	case "C19":
		it = c19.New()
	case "C20":
		it = c20.New()
	case "INT":
		it = cint.New()
	case "AGG":
		it = cagg.New()
	default:
		fmt.Fprintln(os.Stderr, "unknown property", os.Args[1])
		os.Exit(2)
	}
	if it == nil {
		fmt.Fprintln(os.Stderr, "no interpreter for", os.Args[1])
		os.Exit(2)
	}
	vh.Main(it, os.Args[2:])
}
