// Command race15 is the dynamic cross-check of C15: a stress program meant to be built with `-race -tags verif`.
// It mixes, from many goroutines and for a given number of seconds,
//
//   - traffic: Entry / TraceError / Exit on oracle resources and on churned resources (inbound and outbound, with
//     hotspot arguments), and through a chain with the outlier slots (TraceCallee);
//   - rule churn: LoadRules / LoadRulesOfResource / ClearRules / ClearRulesOfResource of flow, isolation, hotspot,
//     circuitbreaker, system and outlier;
//   - readers: GetRules / GetRulesOfResource of every module and the statistics getters.
//
// Oracles evaluated in-process (the race detector's reports go to stderr and are parsed by checks/C15.py):
//
//	sw     flow rules of `sw` switch between lists that all end in a rejecting rule: every request on `sw` must be
//	       blocked by flow, by the last rule of one of the lists (old or new list, never a mixture / partial list);
//	sw2    flow rules of `sw2` switch between lists that never reject: every request must pass;
//	fixedB `fixedB` has one rejecting flow rule loaded once; churn on other resources must never let a request pass;
//	fixedP `fixedP` has no rule in any module: every request must pass, whatever is churned elsewhere.
//	settled  after a flow switch of `sw` / a system rule switch has RETURNED (one goroutine per module does all the
//	       switching, so no other switch is in progress), that goroutine's own next requests must be decided by the list
//	       it has just installed — not by a replaced one that a concurrent request re-cached;
//	cbB    has an open circuit breaker, isoB a fully occupied isolation rule: while the rules of OTHER resources are
//	       churned (valid lists, all-invalid lists, clears, global reloads that keep cbB / isoB) every request on them
//	       must stay blocked by that breaker / that isolation rule;
//	same   one entry is exited / error-traced by several goroutines at the same moment; at the end every resource's
//	       concurrency gauge must be back at 0;
//	att    three goroutines pass ONE read-only map through WithAttachments(shared) + WithAttachment(k, v): the API must
//	       not write into the caller's map (race detector; the map must be unchanged after the run);
//	hsu    a hotspot Concurrency rule is fed unhashable arguments (slice / map / struct with a slice: the parameter cache
//	       panics, the slot chain recovers) interleaved with ordinary requests on the same resource: these must keep
//	       finishing (30 s watchdog) — a cache mutex left locked by the panic is a deadlock;
//	ft-*   four goroutines touch a fresh resource name at the same moment (one of them also through
//	       stat.GetOrCreateResourceNode, like a rule loader): afterwards stat.GetResourceNode(name) must account for
//	       every passed request (concurrent first users share one node — no lost insert).
//
// The last line on stdout is `RESULT <json>`.
package main

import (
	"encoding/json"
	"errors"
	"flag"
	"fmt"
	"io"
	"math/rand"
	"os"
	"runtime"
	"strings"
	"sync"
	"sync/atomic"
	"time"

	sentinel "github.com/alibaba/sentinel-golang/api"
	"github.com/alibaba/sentinel-golang/core/base"
	cb "github.com/alibaba/sentinel-golang/core/circuitbreaker"
	"github.com/alibaba/sentinel-golang/core/flow"
	"github.com/alibaba/sentinel-golang/core/hotspot"
	"github.com/alibaba/sentinel-golang/core/isolation"
	"github.com/alibaba/sentinel-golang/core/outlier"
	"github.com/alibaba/sentinel-golang/core/stat"
	"github.com/alibaba/sentinel-golang/core/system"
	"github.com/alibaba/sentinel-golang/logging"
	"github.com/alibaba/sentinel-golang/util"
	"github.com/alibaba/sentinel-golang/util/verifhook"
)

type result struct {
	Seconds          float64          `json:"seconds"`
	Seed             int64            `json:"seed"`
	Requests         map[string]int64 `json:"requests"`
	Outcomes         map[string]int64 `json:"outcomes"`
	Churn            map[string]int64 `json:"churn"`
	Reads            int64            `json:"reads"`
	OracleChecked    int64            `json:"oracleChecked"`
	OracleBad        []string         `json:"oracleBad"`
	OracleBadCount   int64            `json:"oracleBadCount"`
	Panics           []string         `json:"panics"`
	PanicCount       int64            `json:"panicCount"`
	InternalPanics   int64            `json:"internalPanics"`
	InternalEntry    int64            `json:"internalEntry"`
	InternalFirst    []string         `json:"internalFirst"`
	Deadlock         bool             `json:"deadlock"`
	Stuck            string           `json:"stuck,omitempty"`
	Switches         int64            `json:"switches"`
	UnhashablePanics int64            `json:"unhashablePanics"`
	SharedAttReqs    int64            `json:"sharedAttachmentRequests"`
	HsuOrdinary      int64            `json:"hsuOrdinaryRequests"`
	Yields           int64            `json:"yields"`
}

var (
	mu        sync.Mutex
	res       = result{Requests: map[string]int64{}, Outcomes: map[string]int64{}, Churn: map[string]int64{}}
	stop      int32
	yieldsCnt int64
)

func count(m map[string]int64, k string) {
	mu.Lock()
	m[k]++
	mu.Unlock()
}

func bad(format string, a ...interface{}) {
	mu.Lock()
	res.OracleBadCount++
	if len(res.OracleBad) < 8 {
		res.OracleBad = append(res.OracleBad, fmt.Sprintf(format, a...))
	}
	mu.Unlock()
}

// logger: formats its arguments like the default logger would (so logged rule maps are really read) and counts
// the slot chain's recovered panics.
type countingLogger struct{}

func (countingLogger) Debug(string, ...interface{}) {}
func (countingLogger) DebugEnabled() bool           { return false }
func (countingLogger) Info(msg string, kv ...interface{}) {
	fmt.Fprint(io.Discard, kv...)
}
func (countingLogger) InfoEnabled() bool { return true }
func (countingLogger) Warn(msg string, kv ...interface{}) {
	fmt.Fprint(io.Discard, kv...)
}
func (countingLogger) WarnEnabled() bool { return true }
func (countingLogger) Error(err error, msg string, kv ...interface{}) {
	fmt.Fprint(io.Discard, kv...)
	if strings.Contains(msg, "panic") {
		if err != nil && (strings.Contains(err.Error(), "unhashable") || strings.Contains(err.Error(), "hash of")) {
			// provoked on purpose by the `unhashable` goroutine: an unhashable hotspot argument panics in the parameter
			// cache and is recovered by the slot chain (by design); counted apart
			atomic.AddInt64(&res.UnhashablePanics, 1)
			return
		}
		mu.Lock()
		res.InternalPanics++
		entrySide := strings.Contains(msg, "SlotChain.Entry")
		if entrySide {
			res.InternalEntry++
		}
		if len(res.InternalFirst) < 3 || (entrySide && res.InternalEntry <= 2) {
			s := fmt.Sprintf("%s: %v", msg, err)
			if len(s) > 1500 {
				s = s[:1500]
			}
			res.InternalFirst = append(res.InternalFirst, s)
		}
		mu.Unlock()
	}
}
func (countingLogger) ErrorEnabled() bool { return true }

func guard(name string, f func()) {
	defer func() {
		if r := recover(); r != nil {
			buf := make([]byte, 4096)
			n := runtime.Stack(buf, false)
			mu.Lock()
			res.PanicCount++
			if len(res.Panics) < 3 {
				res.Panics = append(res.Panics, fmt.Sprintf("%s: %v\n%s", name, r, buf[:n]))
			}
			mu.Unlock()
		}
	}()
	f()
}

const huge = 1e12

func fr(id, resName string, th float64) *flow.Rule {
	return &flow.Rule{ID: id, Resource: resName, TokenCalculateStrategy: flow.Direct, ControlBehavior: flow.Reject, Threshold: th, StatIntervalInMs: 1000}
}

// the rule lists `sw` switches between: each ends in a rejecting rule
func swLists() [][]*flow.Rule {
	last := func(id string, q uint32) *flow.Rule {
		r := fr(id, "sw", 0)
		r.MaxQueueingTimeMs = q // irrelevant for Reject, but makes the rules unequal: no controller is reused across lists
		return r
	}
	return [][]*flow.Rule{
		{fr("A1", "sw", huge), last("A2", 1)},
		{last("B1", 2)},
		{fr("C1", "sw", huge), fr("C2", "sw", huge+1), last("C3", 3)},
	}
}

var swLastOf = []string{"A2", "B1", "C3"}

// settledSw: called by the only goroutine that switches flow rules, right after a switch to list k has returned: its
// own next requests must be decided by THAT list
func settledSw(k int) {
	for i := 0; i < 2; i++ {
		_, b := sentinel.Entry("sw", sentinel.WithTrafficType(base.Outbound))
		atomic.AddInt64(&res.OracleChecked, 1)
		count(res.Outcomes, "settled:flow")
		if b == nil {
			bad("settled/flow: after the switch of sw to list %d had returned, a request passed", k)
		} else if rl, ok := b.TriggeredRule().(*flow.Rule); !ok || rl.ID != swLastOf[k] {
			bad("settled/flow: after the switch of sw to list %d (last rule %s) had returned, a request was decided by rule %v of another list", k, swLastOf[k], b.TriggeredRule())
		}
	}
}

var swLast = map[string]bool{"A2": true, "B1": true, "C3": true}

func sw2Lists() [][]*flow.Rule {
	return [][]*flow.Rule{
		{fr("P1", "sw2", huge)},
		{fr("P2", "sw2", huge+1), fr("P3", "sw2", huge+2)},
	}
}

func cbBRule() *cb.Rule {
	return &cb.Rule{Resource: "cbB", Strategy: cb.ErrorCount, RetryTimeoutMs: 100000000, MinRequestAmount: 1, StatIntervalMs: 600000, Threshold: 0}
}

func isoBRule() *isolation.Rule {
	return &isolation.Rule{Resource: "isoB", MetricType: isolation.Concurrency, Threshold: 1}
}

var churnRes = []string{"churn0", "churn1", "churn2"}

func pick(r *rand.Rand, xs []string) string { return xs[r.Intn(len(xs))] }

func maybeYield(r *rand.Rand) {
	if r.Intn(4) == 0 {
		runtime.Gosched()
	}
}

func main() {
	seconds := flag.Float64("seconds", 3, "duration")
	seed := flag.Int64("seed", 1, "seed")
	workers := flag.Int("workers", 6, "traffic goroutines")
	withOutlier := flag.Bool("outlier", true, "include the outlier module (chain with the outlier slots + churn)")
	mode := flag.String("mode", "mix", "mix: traffic x churn x readers on the real clock; clockstep: getters racing with a virtual clock that steps across bucket / window boundaries")
	flag.Parse()
	res.Seed = *seed
	_ = logging.ResetGlobalLogger(countingLogger{})
	if *mode == "clockstep" {
		runClockStep(*seconds, *seed)
		return
	}
	// randomized perturbation at the hooks in front of the lock-free atomic accesses
	var ycount uint32
	verifhook.Sched = func(string) {
		n := atomic.AddUint32(&ycount, 1)
		if (n*2654435761)>>28 == 0 {
			atomic.AddInt64(&yieldsCnt, 1)
			runtime.Gosched()
		}
	}
	// initial rules of the oracle resources
	if _, err := flow.LoadRulesOfResource("sw", swLists()[0]); err != nil {
		panic(err)
	}
	if _, err := flow.LoadRulesOfResource("sw2", sw2Lists()[0]); err != nil {
		panic(err)
	}
	fixedRule := fr("Q", "fixedB", 0)
	if _, err := flow.LoadRulesOfResource("fixedB", []*flow.Rule{fixedRule}); err != nil {
		panic(err)
	}
	// cross-resource isolation: cbB has an OPEN breaker, isoB is FULL — churn on other resources (valid, all-invalid and
	// cleared rule lists) must never change that
	if _, err := cb.LoadRulesOfResource("cbB", []*cb.Rule{cbBRule()}); err != nil {
		panic(err)
	}
	for i := 0; i < 50; i++ {
		e, b := sentinel.Entry("cbB", sentinel.WithTrafficType(base.Outbound))
		if b != nil {
			break
		}
		sentinel.TraceError(e, errors.New("boom"))
		e.Exit()
	}
	if _, b := sentinel.Entry("cbB", sentinel.WithTrafficType(base.Outbound)); b == nil || b.BlockType() != base.BlockTypeCircuitBreaking {
		panic("race15: could not open the breaker of cbB")
	}
	if _, err := isolation.LoadRulesOfResource("isoB", []*isolation.Rule{isoBRule()}); err != nil {
		panic(err)
	}
	isoHolder, hb := sentinel.Entry("isoB", sentinel.WithTrafficType(base.Outbound))
	if hb != nil {
		panic("race15: could not occupy isoB")
	}
	osc := sentinel.BuildDefaultSlotChain()
	osc.AddRuleCheckSlot(outlier.DefaultSlot)
	osc.AddStatSlot(outlier.DefaultMetricStatSlot)

	var wg sync.WaitGroup
	var progress [64]int64
	names := make([]string, 0, 32)
	spawn := func(name string, body func(r *rand.Rand)) {
		idx := len(names)
		names = append(names, name)
		r := rand.New(rand.NewSource(*seed*7919 + int64(idx)*104729))
		wg.Add(1)
		go func() {
			defer wg.Done()
			for atomic.LoadInt32(&stop) == 0 {
				guard(name, func() { body(r) })
				atomic.AddInt64(&progress[idx], 1)
			}
		}()
	}

	// ---- traffic --------------------------------------------------------------------------------------
	oracleReq := func(r *rand.Rand, name string) {
		e, b := sentinel.Entry(name, sentinel.WithTrafficType(base.Outbound))
		atomic.AddInt64(&res.OracleChecked, 1)
		switch name {
		case "sw":
			if b == nil {
				bad("sw: request passed although every rule list of sw ends in a rejecting rule")
			} else if b.BlockType() != base.BlockTypeFlow {
				bad("sw: blocked by %v instead of flow", b.BlockType())
			} else if rl, ok := b.TriggeredRule().(*flow.Rule); !ok || !swLast[rl.ID] {
				bad("sw: blocked by rule %v which is not the last rule of any list", b.TriggeredRule())
			}
		case "fixedB":
			if b == nil {
				bad("fixedB: request passed although its single rejecting rule was never touched")
			} else if rl, ok := b.TriggeredRule().(*flow.Rule); !ok || rl.ID != "Q" {
				bad("fixedB: blocked by %v", b.TriggeredRule())
			}
		case "cbB":
			if b == nil {
				bad("cbB: request passed although its breaker is open (retry timeout 10^8 ms) and only other resources' rules are churned")
			} else if b.BlockType() != base.BlockTypeCircuitBreaking {
				bad("cbB: blocked by %v instead of the open breaker", b.BlockType())
			}
		case "isoB":
			if b == nil {
				bad("isoB: request passed although its single isolation slot is occupied and only other resources' rules are churned")
			} else if b.BlockType() != base.BlockTypeIsolation {
				bad("isoB: blocked by %v instead of isolation", b.BlockType())
			}
		case "sw2", "fixedP":
			if b != nil {
				bad("%s: request blocked (%v) although none of its rule lists can reject", name, b.Error())
			}
		}
		if b != nil {
			id := ""
			if rl, ok := b.TriggeredRule().(*flow.Rule); ok {
				id = ":" + rl.ID
			}
			count(res.Outcomes, name+":block"+id)
			return
		}
		count(res.Outcomes, name+":pass")
		maybeYield(r)
		e.Exit()
	}
	for i := 0; i < *workers; i++ {
		i := i
		spawn(fmt.Sprintf("traffic%d", i), func(r *rand.Rand) {
			k := r.Intn(10)
			switch {
			case k < 4:
				name := []string{"sw", "sw2", "fixedB", "fixedP", "cbB", "isoB"}[r.Intn(6)]
				count(res.Requests, name)
				oracleReq(r, name)
			case k < 8 || !*withOutlier:
				name := pick(r, churnRes)
				count(res.Requests, name)
				opts := []sentinel.EntryOption{sentinel.WithArgs(r.Intn(4), "k")}
				if r.Intn(2) == 0 {
					opts = append(opts, sentinel.WithTrafficType(base.Inbound))
				}
				if r.Intn(4) == 0 {
					opts = append(opts, sentinel.WithBatchCount(uint32(1+r.Intn(3))))
				}
				e, b := sentinel.Entry(name, opts...)
				if b != nil {
					count(res.Outcomes, "churn:block:"+b.BlockType().String())
					return
				}
				count(res.Outcomes, "churn:pass")
				maybeYield(r)
				if r.Intn(3) == 0 {
					sentinel.TraceError(e, errors.New("biz"))
				}
				if r.Intn(8) == 0 {
					e.Exit(base.WithError(errors.New("late")))
				} else {
					e.Exit()
				}
			default:
				count(res.Requests, "osvc")
				e, b := sentinel.Entry("osvc", sentinel.WithSlotChain(osc))
				if b != nil {
					count(res.Outcomes, "osvc:block")
					return
				}
				count(res.Outcomes, "osvc:pass")
				sentinel.TraceCallee(e, fmt.Sprintf("10.0.%d.%d:80", i, r.Intn(6)))
				if r.Intn(2) == 0 {
					sentinel.TraceError(e, errors.New("down"))
				}
				maybeYield(r)
				e.Exit()
			}
		})
	}

	// ---- rule churn -----------------------------------------------------------------------------------
	spawn("churn-flow", func(r *rand.Rand) {
		sl, s2 := swLists(), sw2Lists()
		switch r.Intn(6) {
		case 0, 1:
			k := r.Intn(len(sl))
			flow.LoadRulesOfResource("sw", sl[k])
			settledSw(k)
			atomic.AddInt64(&res.Switches, 1)
			count(res.Churn, "flow.LoadRulesOfResource(sw)")
		case 2:
			flow.LoadRulesOfResource("sw2", s2[r.Intn(len(s2))])
			count(res.Churn, "flow.LoadRulesOfResource(sw2)")
		case 3:
			c := pick(r, churnRes)
			flow.LoadRulesOfResource(c, []*flow.Rule{fr("x", c, float64(r.Intn(50)))})
			count(res.Churn, "flow.LoadRulesOfResource(churn)")
		case 4:
			c := pick(r, churnRes)
			if r.Intn(2) == 0 {
				flow.LoadRulesOfResource(c, []*flow.Rule{fr("bad", c, -1)}) // all-invalid list
			}
			flow.ClearRulesOfResource(c)
			count(res.Churn, "flow.ClearRulesOfResource(churn)")
		case 5:
			// global replacement that keeps the oracle resources' meaning
			all := []*flow.Rule{fr("Q", "fixedB", 0)}
			k := r.Intn(len(sl))
			all = append(all, sl[k]...)
			all = append(all, s2[r.Intn(len(s2))]...)
			for _, c := range churnRes {
				if r.Intn(2) == 0 {
					all = append(all, fr("y", c, float64(r.Intn(100))))
				}
			}
			flow.LoadRules(all)
			settledSw(k)
			atomic.AddInt64(&res.Switches, 1)
			count(res.Churn, "flow.LoadRules")
		}
		maybeYield(r)
	})
	// isoS: its single slot is occupied from the start (no rule yet); the isolation churner — the only goroutine that
	// switches isolation rules — toggles its rule and checks its own next request after each switch has returned
	isoSHolder, _ := sentinel.Entry("isoS", sentinel.WithTrafficType(base.Outbound))
	isoSRule := &isolation.Rule{Resource: "isoS", MetricType: isolation.Concurrency, Threshold: 1}
	isoSOn := false
	withIsoS := func(rs []*isolation.Rule) []*isolation.Rule {
		if isoSOn {
			rs = append(rs, isoSRule)
		}
		return rs
	}
	settledIso := func(what string) {
		e, b := sentinel.Entry("isoS", sentinel.WithTrafficType(base.Outbound))
		atomic.AddInt64(&res.OracleChecked, 1)
		count(res.Outcomes, "settled:isolation")
		if isoSOn && (b == nil || b.BlockType() != base.BlockTypeIsolation) {
			bad("settled/isolation: after %s had returned with the rule of isoS (threshold 1, slot occupied) installed, a request was not blocked by it", what)
		} else if !isoSOn && b != nil {
			bad("settled/isolation: after %s had returned with no rule on isoS, a request was blocked: %v", what, b.Error())
		}
		if b == nil {
			e.Exit()
		}
	}
	spawn("churn-isolation", func(r *rand.Rand) {
		c := pick(r, churnRes)
		if r.Intn(3) == 0 {
			if isoSOn {
				isolation.ClearRulesOfResource("isoS")
			} else {
				isolation.LoadRulesOfResource("isoS", []*isolation.Rule{isoSRule})
			}
			isoSOn = !isoSOn
			settledIso("the per-resource switch")
		}
		switch r.Intn(4) {
		case 0:
			isolation.LoadRules(withIsoS([]*isolation.Rule{isoBRule(), {Resource: c, MetricType: isolation.Concurrency, Threshold: uint32(1 + r.Intn(8))}}))
			settledIso("LoadRules")
			count(res.Churn, "isolation.LoadRules")
		case 1:
			isolation.LoadRulesOfResource(c, []*isolation.Rule{{Resource: c, MetricType: isolation.Concurrency, Threshold: uint32(1 + r.Intn(8))}})
			count(res.Churn, "isolation.LoadRulesOfResource")
		case 2:
			isolation.ClearRulesOfResource(c)
			count(res.Churn, "isolation.ClearRulesOfResource")
		case 3:
			// all-invalid list on c (threshold 0 is invalid), then clear it; and the global reload that only keeps isoB
			// (ClearRules itself = LoadRules(nil) would legitimately free isoB)
			isolation.LoadRulesOfResource(c, []*isolation.Rule{{Resource: c, MetricType: isolation.Concurrency, Threshold: 0}})
			isolation.ClearRulesOfResource(c)
			isolation.LoadRules(withIsoS([]*isolation.Rule{isoBRule()}))
			settledIso("LoadRules")
			count(res.Churn, "isolation.invalid+clear+reload")
		}
		maybeYield(r)
	})
	hotSOn := false // only the hotspot churner touches hotS (and does all global hotspot loads / clears)
	spawn("churn-hotspot", func(r *rand.Rand) {
		c := pick(r, churnRes)
		mk := func() *hotspot.Rule {
			return &hotspot.Rule{Resource: c, MetricType: hotspot.MetricType(r.Intn(2)), ControlBehavior: hotspot.Reject, ParamIndex: 0,
				Threshold: int64(1 + r.Intn(20)), BurstCount: int64(r.Intn(3)), DurationInSec: 1, ParamsMaxCapacity: int64(2 + r.Intn(4))}
		}
		settledHot := func(what string) {
			e, b := sentinel.Entry("hotS", sentinel.WithTrafficType(base.Outbound), sentinel.WithArgs(7))
			atomic.AddInt64(&res.OracleChecked, 1)
			count(res.Outcomes, "settled:hotspot")
			if hotSOn && (b == nil || b.BlockType() != base.BlockTypeHotSpotParamFlow) {
				bad("settled/hotspot: after %s had returned with the threshold-0 rule of hotS installed, a request was not blocked by it", what)
			} else if !hotSOn && b != nil {
				bad("settled/hotspot: after %s had returned with no rule on hotS, a request was blocked: %v", what, b.Error())
			}
			if b == nil {
				e.Exit()
			}
		}
		if r.Intn(3) == 0 {
			if hotSOn {
				hotspot.ClearRulesOfResource("hotS")
			} else {
				hotspot.LoadRulesOfResource("hotS", []*hotspot.Rule{{Resource: "hotS", MetricType: hotspot.QPS, ControlBehavior: hotspot.Reject,
					ParamIndex: 0, Threshold: 0, DurationInSec: 1, ParamsMaxCapacity: 4}})
			}
			hotSOn = !hotSOn
			settledHot("the per-resource switch")
		}
		switch r.Intn(4) {
		case 0:
			hotspot.LoadRules([]*hotspot.Rule{mk()})
			hotSOn = false
			settledHot("LoadRules (without hotS)")
			count(res.Churn, "hotspot.LoadRules")
		case 1:
			hotspot.LoadRulesOfResource(c, []*hotspot.Rule{mk(), mk()})
			count(res.Churn, "hotspot.LoadRulesOfResource")
		case 2:
			hotspot.ClearRulesOfResource(c)
			count(res.Churn, "hotspot.ClearRulesOfResource")
		case 3:
			hotspot.ClearRules()
			hotSOn = false
			settledHot("ClearRules")
			count(res.Churn, "hotspot.ClearRules")
		}
		maybeYield(r)
	})
	spawn("churn-cb", func(r *rand.Rand) {
		c := pick(r, churnRes)
		mk := func() *cb.Rule {
			return &cb.Rule{Resource: c, Strategy: cb.Strategy(r.Intn(3)), RetryTimeoutMs: uint32(1 + r.Intn(20)), MinRequestAmount: uint64(1 + r.Intn(5)),
				StatIntervalMs: uint32(100 * (1 + r.Intn(10))), MaxAllowedRtMs: uint64(r.Intn(3)), Threshold: float64(r.Intn(10)) / 10}
		}
		switch r.Intn(4) {
		case 0:
			cb.LoadRules([]*cb.Rule{cbBRule(), mk()})
			count(res.Churn, "circuitbreaker.LoadRules")
		case 1:
			cb.LoadRulesOfResource(c, []*cb.Rule{mk(), mk()})
			count(res.Churn, "circuitbreaker.LoadRulesOfResource")
		case 2:
			cb.ClearRulesOfResource(c)
			count(res.Churn, "circuitbreaker.ClearRulesOfResource")
		case 3:
			// an all-invalid list (accepted with a warning, builds no breaker), then the clear of the same resource
			inv := mk()
			inv.StatIntervalMs = 0
			inv.Threshold = -1
			if r.Intn(2) == 0 {
				cb.LoadRulesOfResource(c, []*cb.Rule{inv})
			} else {
				cb.LoadRulesOfResource(c, []*cb.Rule{mk()})
			}
			cb.ClearRulesOfResource(c)
			if r.Intn(8) == 0 {
				cb.LoadRules([]*cb.Rule{cbBRule()}) // global reload that keeps only cbB (ClearRules would legitimately drop it)
			}
			count(res.Churn, "circuitbreaker.invalid/valid+clear")
		}
		maybeYield(r)
	})
	// system rules are global: ONE goroutine switches them between a list that blocks every inbound request (SB), lists
	// that never block, and none — and checks, each time a switch has returned, that its own next inbound requests are
	// decided by the list it has just installed ("settled": nobody else switches system rules), while the traffic
	// goroutines keep sending inbound requests through the switch.
	for i := 0; i < 2; i++ { // inbound pressure through every system rule switch
		spawn(fmt.Sprintf("inbound%d", i), func(r *rand.Rand) {
			for k := 0; k < 20; k++ {
				if e, b := sentinel.Entry("sysP", sentinel.WithTrafficType(base.Inbound)); b == nil {
					e.Exit()
				}
			}
			count(res.Requests, "sysP-inbound-x20")
		})
	}
	spawn("settle-system", func(r *rand.Rand) {
		blocking := false
		switch r.Intn(4) {
		case 0:
			system.LoadRules([]*system.Rule{{ID: "SB", MetricType: system.InboundQPS, TriggerCount: 0}})
			blocking = true
			count(res.Churn, "system.LoadRules(block-all)")
		case 1, 2:
			system.LoadRules([]*system.Rule{{ID: "SP", MetricType: system.InboundQPS, TriggerCount: huge + float64(r.Intn(9))},
				{MetricType: system.Concurrency, TriggerCount: huge}, {MetricType: system.Load, TriggerCount: huge, Strategy: system.NoAdaptive}})
			count(res.Churn, "system.LoadRules(pass-all)")
		case 3:
			system.ClearRules()
			count(res.Churn, "system.ClearRules")
		}
		atomic.AddInt64(&res.Switches, 1)
		for i := 0; i < 3; i++ {
			e, b := sentinel.Entry("sysP", sentinel.WithTrafficType(base.Inbound))
			atomic.AddInt64(&res.OracleChecked, 1)
			count(res.Outcomes, "settled:system")
			switch {
			case blocking && b == nil:
				bad("settled/system: after LoadRules(block-all) had returned, an inbound request passed (decided by a replaced rule list)")
			case blocking && b.BlockType() != base.BlockTypeSystemFlow:
				bad("settled/system: blocked by %v instead of the system rule", b.BlockType())
			case !blocking && b != nil:
				bad("settled/system: after a switch to a never-blocking / empty system rule list had returned, an inbound request was blocked: %v", b.Error())
			}
			if b == nil {
				e.Exit()
			}
			if i == 0 {
				maybeYield(r)
			}
		}
	})
	if *withOutlier {
		spawn("churn-outlier", func(r *rand.Rand) {
			mk := func() *outlier.Rule {
				return &outlier.Rule{Rule: &cb.Rule{Resource: "osvc", Strategy: cb.ErrorCount, RetryTimeoutMs: uint32(5 + r.Intn(20)), MinRequestAmount: 1,
					StatIntervalMs: 1000, Threshold: float64(1 + r.Intn(3))}, MaxEjectionPercent: 0.5, RecycleIntervalS: 1}
			}
			switch r.Intn(4) {
			case 0:
				outlier.LoadRules([]*outlier.Rule{mk()})
				count(res.Churn, "outlier.LoadRules")
			case 1:
				outlier.LoadRuleOfResource("osvc", mk())
				count(res.Churn, "outlier.LoadRuleOfResource")
			case 2:
				outlier.ClearRuleOfResource("osvc")
				count(res.Churn, "outlier.ClearRuleOfResource")
			case 3:
				outlier.ClearRules()
				count(res.Churn, "outlier.ClearRules")
			}
			time.Sleep(time.Duration(r.Intn(300)) * time.Microsecond)
		})
	}

	// ---- readers ----------------------------------------------------------------------------------------
	for i := 0; i < 2; i++ {
		spawn(fmt.Sprintf("reader%d", i), func(r *rand.Rand) {
			c := pick(r, append([]string{"sw", "sw2", "fixedB", "osvc"}, churnRes...))
			switch r.Intn(12) {
			case 0:
				_ = flow.GetRules()
			case 1:
				_ = flow.GetRulesOfResource(c)
			case 2:
				_ = isolation.GetRules()
				_ = isolation.GetRulesOfResource(c)
			case 3:
				_ = hotspot.GetRules()
				_ = hotspot.GetRulesOfResource(c)
			case 4:
				_ = cb.GetRules()
				_ = cb.GetRulesOfResource(c)
			case 5:
				_ = system.GetRules()
			case 6:
				if *withOutlier {
					_ = outlier.GetRules()
				}
			case 7:
				for _, n := range stat.ResourceNodeList() {
					_ = n.GetQPS(base.MetricEventPass)
					_ = n.CurrentConcurrency()
				}
			case 8:
				if n := stat.GetResourceNode(c); n != nil {
					_ = n.GetSum(base.MetricEventBlock)
					_ = n.GetPreviousQPS(base.MetricEventComplete)
					_ = n.AvgRT()
					_ = n.MinRT()
					_ = n.MaxConcurrency()
					_ = n.GetMaxAvg(base.MetricEventPass)
				}
			case 9:
				in := stat.InboundNode()
				_ = in.GetQPS(base.MetricEventPass)
				_ = in.AvgRT()
				_ = in.CurrentConcurrency()
			case 10:
				if n := stat.GetResourceNode(c); n != nil {
					_ = n.MetricsOnCondition(func(uint64) bool { return true })
				}
			case 11:
				_ = stat.GetOrCreateResourceNode(c, base.ResTypeCommon)
			}
			atomic.AddInt64(&res.Reads, 1)
			maybeYield(r)
		})
	}

	// ---- one entry, several goroutines: Exit / Exit(WithError) / TraceError / SetError at the same moment -----------
	spawn("sameentry", func(r *rand.Rand) {
		name := pick(r, churnRes)
		e, b := sentinel.Entry(name, sentinel.WithTrafficType(base.Outbound))
		count(res.Requests, "sameentry")
		if b != nil {
			return
		}
		var ew sync.WaitGroup
		start := make(chan struct{})
		acts := []func(){
			func() { e.Exit() },
			func() { e.Exit(base.WithError(errors.New("late"))) },
			func() { sentinel.TraceError(e, errors.New("traced")) },
			func() { e.SetError(errors.New("set")); e.Exit() },
		}
		for _, act := range acts[:2+r.Intn(3)] {
			act := act
			ew.Add(1)
			go func() {
				defer ew.Done()
				<-start
				guard("sameentry", act)
			}()
		}
		close(start)
		ew.Wait()
		e.Exit()
	})

	// ---- one read-only attachment map shared by many goroutines --------------------------------------------------------
	sharedAtt := map[interface{}]interface{}{"tenant": "t1", "zone": 7}
	for i := 0; i < 3; i++ {
		i := i
		spawn(fmt.Sprintf("sharedatt%d", i), func(r *rand.Rand) {
			name := pick(r, churnRes)
			e, b := sentinel.Entry(name, sentinel.WithTrafficType(base.Outbound), sentinel.WithAttachments(sharedAtt),
				sentinel.WithAttachment(fmt.Sprintf("req-%d", i), r.Intn(100)))
			atomic.AddInt64(&res.SharedAttReqs, 1)
			if b == nil {
				maybeYield(r)
				e.Exit()
			}
		})
	}

	// ---- unhashable hotspot arguments, then ordinary traffic on the same resource (deadlock watchdog) ---------------
	hsuRule := func() []*hotspot.Rule {
		return []*hotspot.Rule{{Resource: "hsu", MetricType: hotspot.Concurrency, ParamIndex: 0, Threshold: 1000000, ParamsMaxCapacity: 8}}
	}
	hotspot.LoadRulesOfResource("hsu", hsuRule())
	for i := 0; i < 2; i++ {
		i := i
		spawn(fmt.Sprintf("unhashable%d", i), func(r *rand.Rand) {
			if r.Intn(20) == 0 {
				hotspot.LoadRulesOfResource("hsu", hsuRule()) // the hotspot churner's global loads drop it now and then
			}
			var arg interface{} = r.Intn(4)
			if i == 0 && r.Intn(3) == 0 {
				switch r.Intn(3) {
				case 0:
					arg = []int{1, 2}
				case 1:
					arg = map[string]int{"a": 1}
				default:
					arg = struct{ xs []int }{[]int{3}}
				}
			} else {
				atomic.AddInt64(&res.HsuOrdinary, 1)
			}
			e, b := sentinel.Entry("hsu", sentinel.WithTrafficType(base.Outbound), sentinel.WithArgs(arg))
			if b == nil {
				maybeYield(r)
				e.Exit()
			}
		})
	}

	// ---- first touch: concurrent first users of a fresh resource name must share one statistics node ----------------
	ftRound := 0
	spawn("firsttouch", func(r *rand.Rand) {
		if ftRound >= 3000 {
			time.Sleep(time.Millisecond)
			return
		}
		ftRound++
		name := fmt.Sprintf("ft-%d-%d", *seed, ftRound)
		const k = 4
		var fw sync.WaitGroup
		start := make(chan struct{})
		var passed int64
		for g := 0; g < k; g++ {
			fw.Add(1)
			go func(g int) {
				defer fw.Done()
				<-start
				guard("firsttouch", func() {
					if g == 0 && ftRound%2 == 0 {
						_ = stat.GetOrCreateResourceNode(name, base.ResTypeCommon) // what a rule loader does (generateStatFor)
					}
					e, b := sentinel.Entry(name, sentinel.WithTrafficType(base.Outbound))
					if b != nil {
						bad("firsttouch %s: blocked (%v) although it has no rule", name, b.Error())
						return
					}
					atomic.AddInt64(&passed, 1)
					e.Exit()
				})
			}(g)
		}
		close(start)
		fw.Wait()
		atomic.AddInt64(&res.OracleChecked, k)
		count(res.Requests, "firsttouch")
		n := stat.GetResourceNode(name)
		if n == nil {
			bad("firsttouch %s: no resource node after %d passed entries", name, passed)
		} else if got := n.GetSum(base.MetricEventPass); got != atomic.LoadInt64(&passed) {
			bad("firsttouch %s: the resource node accounts for %d of the %d passed first requests (concurrent first users got different nodes: lost insert)", name, got, passed)
		} else {
			count(res.Outcomes, "firsttouch:all-accounted")
		}
	})

	// ---- run, stop, watchdog ----------------------------------------------------------------------------
	t0 := time.Now()
	time.Sleep(time.Duration(*seconds * float64(time.Second)))
	atomic.StoreInt32(&stop, 1)
	done := make(chan struct{})
	go func() { wg.Wait(); close(done) }()
	select {
	case <-done:
	case <-time.After(30 * time.Second):
		res.Deadlock = true
		buf := make([]byte, 1<<16)
		n := runtime.Stack(buf, true)
		res.Stuck = string(buf[:n])
	}
	if !res.Deadlock {
		isoHolder.Exit()
		if isoSHolder != nil {
			isoSHolder.Exit()
		}
		for _, n := range stat.ResourceNodeList() {
			if n.ResourceName() == "hsu" || n.ResourceName() == "osvc" {
				continue // provoked slot-chain panics skip the statistic slots there (C01's panic-pass-gauge finding)
			}
			if c := n.CurrentConcurrency(); c != 0 {
				bad("%s: concurrency gauge is %d after all entries have exited (an Exit took effect twice, or not at all)", n.ResourceName(), c)
			}
		}
	}
	if len(sharedAtt) != 2 || sharedAtt["tenant"] != "t1" || sharedAtt["zone"] != 7 {
		bad("the attachment map shared read-only by the callers was modified by the API: %v", sharedAtt)
	}
	res.Seconds = time.Since(t0).Seconds()
	res.Yields = atomic.LoadInt64(&yieldsCnt)
	mu.Lock()
	b, _ := json.Marshal(&res)
	mu.Unlock()
	fmt.Println("RESULT " + string(b))
	if res.Deadlock {
		os.Exit(3)
	}
}

// ---------------------------------------------------------------------------------------------------------------------
// clockstep mode: a virtual clock that a stepper goroutine pushes across bucket and window boundaries, while traffic
// completes requests and readers call every statistics getter (AvgRT, MinRT, GetQPS, GetSum, MetricsOnCondition ...),
// also through a system rule on the inbound average RT.  Any panic (escaped to the caller or recovered inside the slot
// chain) is a failure; the race detector watches as usual.
// ---------------------------------------------------------------------------------------------------------------------

type stepClock struct{ ns uint64 }

func (c *stepClock) Now() time.Time            { return time.Unix(0, int64(atomic.LoadUint64(&c.ns))) }
func (c *stepClock) Sleep(d time.Duration)     { atomic.AddUint64(&c.ns, uint64(d)) }
func (c *stepClock) CurrentTimeMillis() uint64 { return atomic.LoadUint64(&c.ns) / 1e6 }
func (c *stepClock) CurrentTimeNano() uint64   { return atomic.LoadUint64(&c.ns) }

func runClockStep(seconds float64, seed int64) {
	clk := &stepClock{ns: uint64(time.Now().Add(2 * time.Hour).UnixNano())}
	util.SetClock(clk)
	system.LoadRules([]*system.Rule{{MetricType: system.AvgRT, TriggerCount: huge, Strategy: system.NoAdaptive}})
	names := []string{"cs0", "cs1", "cs2"}
	var wg sync.WaitGroup
	var steps, gets int64
	run := func(name string, idx int, body func(r *rand.Rand)) {
		r := rand.New(rand.NewSource(seed*7919 + int64(idx)*104729))
		wg.Add(1)
		go func() {
			defer wg.Done()
			for atomic.LoadInt32(&stop) == 0 {
				guard(name, func() { body(r) })
			}
		}()
	}
	// the stepper: mostly small steps, regularly a jump right onto / just before / far beyond a bucket or window boundary
	run("stepper", 0, func(r *rand.Rand) {
		now := atomic.LoadUint64(&clk.ns) / 1e6
		var d uint64
		switch r.Intn(6) {
		case 0:
			d = 500 - now%500 // onto the next bucket boundary of the default statistic (500 ms buckets)
		case 1:
			d = 500 - now%500 - 1
		case 2:
			d = 1000 // one whole read window (default metric: 1 s)
		case 3:
			d = 10000 + uint64(r.Intn(3)) // the whole underlying array (10 s)
		default:
			d = uint64(r.Intn(40))
		}
		atomic.AddUint64(&clk.ns, d*1e6)
		atomic.AddInt64(&steps, 1)
		if r.Intn(3) == 0 {
			time.Sleep(time.Duration(20+r.Intn(200)) * time.Microsecond)
		} else {
			runtime.Gosched()
		}
	})
	for i := 0; i < 3; i++ {
		run(fmt.Sprintf("cs-traffic%d", i), 1+i, func(r *rand.Rand) {
			name := pick(r, names)
			opts := []sentinel.EntryOption{}
			if r.Intn(2) == 0 {
				opts = append(opts, sentinel.WithTrafficType(base.Inbound))
			}
			e, b := sentinel.Entry(name, opts...)
			count(res.Requests, name)
			if b != nil {
				count(res.Outcomes, "cs:block")
				return
			}
			count(res.Outcomes, "cs:pass")
			if r.Intn(4) == 0 {
				sentinel.TraceError(e, errors.New("x"))
			}
			e.Exit()
			if r.Intn(6) == 0 { // go quiet for a while so that the completed requests leave the window
				time.Sleep(time.Duration(r.Intn(1500)) * time.Microsecond)
			}
		})
	}
	for i := 0; i < 4; i++ {
		run(fmt.Sprintf("cs-reader%d", i), 10+i, func(r *rand.Rand) {
			var n *stat.ResourceNode
			if r.Intn(3) == 0 {
				n = stat.InboundNode()
			} else {
				n = stat.GetResourceNode(pick(r, names))
			}
			if n == nil {
				return
			}
			for k := 0; k < 50; k++ {
				switch r.Intn(9) {
				case 0, 1, 2:
					_ = n.AvgRT()
				case 3:
					_ = n.MinRT()
				case 4:
					_ = n.GetQPS(base.MetricEvent(r.Intn(5)))
					_ = n.GetPreviousQPS(base.MetricEvent(r.Intn(5)))
				case 5:
					_ = n.GetSum(base.MetricEvent(r.Intn(5)))
					_ = n.GetMaxAvg(base.MetricEvent(r.Intn(5)))
				case 6:
					_ = n.MaxConcurrency()
					_ = n.CurrentConcurrency()
				case 7:
					_ = n.MetricsOnCondition(func(uint64) bool { return true })
				case 8:
					if rs, err := n.GenerateReadStat(1, 1000); err == nil && rs != nil {
						_ = rs.GetQPS(base.MetricEventPass)
						_ = rs.MinRT()
					}
				}
				atomic.AddInt64(&gets, 1)
			}
			atomic.AddInt64(&res.OracleChecked, 50)
		})
	}
	t0 := time.Now()
	time.Sleep(time.Duration(seconds * float64(time.Second)))
	atomic.StoreInt32(&stop, 1)
	done := make(chan struct{})
	go func() { wg.Wait(); close(done) }()
	select {
	case <-done:
	case <-time.After(30 * time.Second):
		res.Deadlock = true
	}
	res.Seconds = time.Since(t0).Seconds()
	res.Reads = atomic.LoadInt64(&gets)
	res.Switches = atomic.LoadInt64(&steps)
	mu.Lock()
	b, _ := json.Marshal(&res)
	mu.Unlock()
	fmt.Println("RESULT " + string(b))
	if res.Deadlock {
		os.Exit(3)
	}
}
