// C19 dynamic harness for pkg/adapters/gin: the real middleware in a real gin engine, in-process.
package main

import (
	"fmt"
	"net/http"
	"net/http/httptest"
	"os"

	"c19h/probe"

	sgin "c19h/adapter"
	"github.com/gin-gonic/gin"
)

const key = "gin/middleware.go:SentinelMiddleware.func1"

func main() {
	probe.Init()
	gin.SetMode(gin.ReleaseMode)
	for cs, more := probe.Next(); more; cs, more = probe.Next() {
		{
			custom, sc := cs.Custom, cs.Sc
			probe.SetCase(cs)
			r := probe.New(key, sc, false)
			opts := []sgin.Option{sgin.WithResourceExtractor(func(c *gin.Context) string { return r.Res })}
			if custom {
				opts = append(opts, sgin.WithBlockFallback(func(c *gin.Context) {
					r.Fallback()
					c.AbortWithStatus(http.StatusServiceUnavailable)
				}))
			}
			e := gin.New()
			// a second middleware after the adapter: gin's Next loop falls into it whenever the adapter returns
			// without aborting, so it must not run for a blocked request (it counts as the wrapped handler's side)
			after := 0
			e.Use(sgin.SentinelMiddleware(opts...), func(c *gin.Context) { after++; c.Next() })
			e.GET("/x", func(c *gin.Context) {
				if err := r.InHandler(); err != nil {
					_ = c.AbortWithError(http.StatusInternalServerError, err)
					return
				}
				c.String(http.StatusOK, "ok")
			})
			w := httptest.NewRecorder()
			req := httptest.NewRequest("GET", "/x", nil)
			r.Guard(func() { e.ServeHTTP(w, req) })
			if !custom && w.Code == http.StatusTooManyRequests {
				r.Rejected()
			}
			if sc.Blocked && after > 0 {
				fmt.Fprintf(os.Stderr, "note %s blocked %s: the middleware after the adapter ran %d time(s)\n", key, sc.Handler, after)
			}
			r.Finish()
		}
	}
}
