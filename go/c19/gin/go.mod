// Template of the synthesized harness module (checks/C19.py copies main.go, ../probe and the adapter's own
// non-test sources from $VERIF_REPO/pkg/adapters/gin into .build/<tree>/c19/gin and builds there).
module c19h

go 1.22

require (
	github.com/alibaba/sentinel-golang v1.0.2
	github.com/gin-gonic/gin v1.7.0
)

replace github.com/alibaba/sentinel-golang => /repo
