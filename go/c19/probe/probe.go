// Package probe is shared by the C19 dynamic harnesses (one Go module per adapter, go/c19/<adapter>): it
// drives one adapter entry point through the six scenarios (blocked/admitted × handler ok/err/panic), observes
// the *real* events through the resource's statistic node (pass/block/complete/error counts and the
// concurrency gauge, sampled inside the handler as well) and prints them in the order/shape of the Lean
// event trace:  `trace <key> <blocked|admitted> <ok|err|panic> => entryAsked,handlerRun,exit`.
package probe

import (
	"errors"
	"fmt"
	"os"
	"runtime"
	"strconv"
	"strings"
	"sync/atomic"
	"time"

	sentinel "github.com/alibaba/sentinel-golang/api"
	"github.com/alibaba/sentinel-golang/core/base"
	"github.com/alibaba/sentinel-golang/core/config"
	"github.com/alibaba/sentinel-golang/core/flow"
	"github.com/alibaba/sentinel-golang/core/stat"
	"github.com/alibaba/sentinel-golang/logging"
	"github.com/alibaba/sentinel-golang/util"
)

type nullLogger struct{}

func (nullLogger) Debug(string, ...interface{})        {}
func (nullLogger) DebugEnabled() bool                  { return false }
func (nullLogger) Info(string, ...interface{})         {}
func (nullLogger) InfoEnabled() bool                   { return false }
func (nullLogger) Warn(string, ...interface{})         {}
func (nullLogger) WarnEnabled() bool                   { return false }
func (nullLogger) Error(error, string, ...interface{}) {}
func (nullLogger) ErrorEnabled() bool                  { return false }

// stepClock is the wall clock plus an offset the probe can move: the `backstep` cases set it back while the wrapped
// handler runs (NTP step / VM resume), so that entry.Exit() sees a time *before* the entry's start.  The contract does
// not mention time: the entry must still be exited — completion recorded, concurrency gauge back — on every path.
type stepClock struct{ offsetNs int64 }

func (c *stepClock) now() time.Time {
	return time.Now().Add(time.Duration(atomic.LoadInt64(&c.offsetNs)))
}
func (c *stepClock) Now() time.Time            { return c.now() }
func (c *stepClock) Sleep(d time.Duration)     { time.Sleep(d) }
func (c *stepClock) CurrentTimeMillis() uint64 { return uint64(c.now().UnixNano()) / 1e6 }
func (c *stepClock) CurrentTimeNano() uint64   { return uint64(c.now().UnixNano()) }

var clock = &stepClock{}

// small enough for the completion to stay inside the node's one-second read window, large enough to exceed any handler run time
const backstepNs = int64(200 * time.Millisecond)

// Init starts sentinel with default configuration and no log output (stdout carries only result lines).
func Init() {
	_ = logging.ResetGlobalLogger(nullLogger{})
	conf := config.NewDefaultConfig()
	conf.Sentinel.Log.Logger = nullLogger{}
	conf.Sentinel.Log.Metric.FlushIntervalSec = 0
	conf.Sentinel.Stat.System.CollectIntervalMs = 0
	conf.Sentinel.Stat.System.CollectLoadIntervalMs = 0
	conf.Sentinel.Stat.System.CollectCpuIntervalMs = 0
	conf.Sentinel.Stat.System.CollectMemoryIntervalMs = 0
	util.SetClock(clock)
	if err := sentinel.InitWithConfig(conf); err != nil {
		fmt.Fprintln(os.Stderr, "sentinel init:", err)
		os.Exit(2)
	}
}

// ErrHandler is the error a failing handler returns; PanicValue what a panicking handler panics with.
var ErrHandler = errors.New("c19: handler failed")

type panicValue struct{}

var PanicValue = panicValue{}

type Scenario struct {
	Blocked bool
	Handler string // ok | err | panic
}

func Scenarios() []Scenario {
	var r []Scenario
	for _, b := range []bool{true, false} {
		for _, h := range []string{"ok", "err", "panic"} {
			r = append(r, Scenario{b, h})
		}
	}
	return r
}

// Case is one planned run: a scenario with the default rejection or with a custom block fallback.
type Case struct {
	Custom bool
	Sc     Scenario
	// Backstep: the clock is set back by 200 ms while the handler runs (admitted scenarios, default variant only)
	Backstep bool
}

// Plan returns the cases (2 fallback variants x 6 scenarios, plus the three admitted scenarios with a clock that steps
// backwards during the handler) in an order shuffled from the seed given
// as first program argument (no argument or 0: canonical order).
func Plan() []Case {
	var cs []Case
	for _, c := range []bool{false, true} {
		for _, sc := range Scenarios() {
			cs = append(cs, Case{Custom: c, Sc: sc})
		}
	}
	for _, sc := range Scenarios() {
		if !sc.Blocked {
			cs = append(cs, Case{Sc: sc, Backstep: true})
		}
	}
	var seed uint64
	if len(os.Args) > 1 {
		fmt.Sscan(os.Args[1], &seed)
	}
	if seed != 0 {
		x := seed*2862933555777941757 + 3037000493
		for i := len(cs) - 1; i > 0; i-- {
			x = x*6364136223846793005 + 1442695040888963407
			j := int((x >> 33) % uint64(i+1))
			cs[i], cs[j] = cs[j], cs[i]
		}
	}
	return cs
}

// ---- iteration with load-proof backstep cases ------------------------------------------------------------------
// A backstep observation depends on wall-clock alignment (see New / valid below).  It is *valid* only if the whole run
// stayed where it was meant to: the handler was reached in the 500 ms bucket in which the run was aligned, and the
// statistics were read back less than 1000 ms after that bucket's start.  Invalid observations are discarded and the
// case is run again; a backstep case is reported only when two valid observations of it agree (so a one-off
// disturbance is never reported), after at most maxAttempts runs; otherwise every line of the case is printed as
// `=> skipped`: no claim, never an alarm.

const maxAttempts = 6

type pendingLine struct {
	head, trace string // "trace <key> <b> <h> <variant>", observed trace
	valid       bool
}

var (
	plan     []Case
	planIdx  = -1
	attempts int
	pending  []pendingLine
	prevSig  string
	havePrev bool
)

func flush(lines []pendingLine, skipped bool) {
	for _, l := range lines {
		if skipped {
			fmt.Printf("%s => skipped\n", l.head)
		} else {
			fmt.Printf("%s => %s\n", l.head, l.trace)
		}
	}
}

// Next yields the planned cases one by one (use: `for cs, more := probe.Next(); more; cs, more = probe.Next() {`),
// re-yielding a backstep case until it has two agreeing valid observations or maxAttempts is reached.
func Next() (Case, bool) {
	if plan == nil {
		plan = Plan()
	}
	if planIdx >= 0 && plan[planIdx].Backstep {
		obs := pending
		pending = nil
		attempts++
		allValid := true
		sig := ""
		for _, l := range obs {
			allValid = allValid && l.valid
			sig += l.head + " => " + l.trace + "\n"
		}
		done := false
		if allValid {
			if havePrev && prevSig == sig {
				flush(obs, false)
				done = true
			} else {
				prevSig, havePrev = sig, true
			}
		}
		if !done && attempts >= maxAttempts {
			fmt.Fprintf(os.Stderr, "note backstep case %v: no two agreeing valid observations in %d attempts (load); skipped\n", plan[planIdx].Sc, attempts)
			flush(obs, true)
			done = true
		}
		if !done {
			return plan[planIdx], true // once more
		}
	}
	planIdx++
	attempts, havePrev, prevSig = 0, false, ""
	if planIdx >= len(plan) {
		return Case{}, false
	}
	return plan[planIdx], true
}

var seq int64

// current fallback variant, set by the harness loop (SetCase); New copies it into the run
var currentVariant = "default"
var currentBackstep bool

// SetCase tells the probe which planned case is being driven (printed as the fifth token of the trace line, so that a
// replay can name the exact variant).
func SetCase(c Case) {
	currentVariant = "default"
	if c.Custom {
		currentVariant = "custom"
	}
	currentBackstep = c.Backstep
	if c.Backstep {
		currentVariant += "+backstep"
	}
}

// Run is one request through one entry point under one scenario.
type Run struct {
	Key, Res, ID string
	Variant      string // default | custom [+ harness-specific suffix]
	Sc           Scenario
	// errBack: this framework hands the handler's error back to the middleware
	ErrBack bool

	handlerRuns             int
	askedBefore, exitBefore int64
	liveInHandler           int32
	fallbacks, rejections   int
	nilDeref                bool
	backstep, stepped       bool
	bucketStart, handlerAt  int64 // wall ms: start of the bucket the run was aligned in; when the handler stepped the clock
	marked                  bool
	markAsked, markExits    int64
	markErrs                int64
	markRuns                int
	otherPanic              interface{}
}

// New prepares a run: a fresh resource name; a flow rule with threshold 0 when the request is to be blocked.
// format (optional) maps the run's unique id to the resource name the adapter will derive by default (e.g.
// "GET:/"+id for the HTTP adapters driven without a resource extractor).
func New(key string, sc Scenario, errBack bool, format ...func(id string) string) *Run {
	n := atomic.AddInt64(&seq, 1)
	id := fmt.Sprintf("c19-%d-%d", os.Getpid(), n)
	r := &Run{Key: key, Sc: sc, ErrBack: errBack, ID: id, Res: id, Variant: currentVariant, backstep: currentBackstep}
	if len(format) > 0 {
		r.Res = format[0](id)
	}
	if r.backstep {
		// A fresh statistic node pre-initialises its bucket slots with the starts of the *coming* cycle, so a recording made
		// in the bucket before the node's first one is dropped as "behind" (leap-array behaviour, not this property's
		// business).  Start the request well inside a 500 ms bucket so that 200 ms earlier is still the same bucket.
		for {
			now := time.Now().UnixNano() / 1e6
			if m := now % 500; m >= 250 && m < 400 {
				r.bucketStart = now - m
				break
			}
			time.Sleep(5 * time.Millisecond)
		}
	}
	var rules []*flow.Rule
	if sc.Blocked {
		rules = append(rules, &flow.Rule{Resource: r.Res, Threshold: 0, TokenCalculateStrategy: flow.Direct,
			ControlBehavior: flow.Reject, StatIntervalInMs: 1000})
	}
	if _, err := flow.LoadRules(rules); err != nil {
		fmt.Fprintln(os.Stderr, "LoadRules:", err)
		os.Exit(2)
	}
	return r
}

func sum(n *stat.ResourceNode, ev base.MetricEvent) int64 {
	if n == nil {
		return 0
	}
	return n.GetSum(ev)
}

func (r *Run) node() *stat.ResourceNode { return stat.GetResourceNode(r.Res) }

// InHandler is called by the wrapped handler: records the run and what had happened before it.
// It returns the error the handler has to return (nil unless the scenario says err) and panics in the
// panic scenario.
func (r *Run) InHandler() error {
	n := r.node()
	if r.handlerRuns == 0 {
		r.askedBefore = sum(n, base.MetricEventPass) + sum(n, base.MetricEventBlock)
		r.exitBefore = sum(n, base.MetricEventComplete)
		if n != nil {
			r.liveInHandler = n.CurrentConcurrency()
		}
	}
	r.handlerRuns++
	if r.backstep && !r.stepped {
		// test hook (see notes/C19.md): C19_PROBE_STALL=<ms> stalls here on the first attempt of every backstep case
		// (on every attempt with C19_PROBE_STALL_ALL=1), as a loaded machine would
		if ms, _ := strconv.Atoi(os.Getenv("C19_PROBE_STALL")); ms > 0 && (attempts == 0 || os.Getenv("C19_PROBE_STALL_ALL") != "") {
			time.Sleep(time.Duration(ms) * time.Millisecond)
		}
		r.stepped = true
		r.handlerAt = time.Now().UnixNano() / 1e6
		atomic.AddInt64(&clock.offsetNs, -backstepNs) // from here on, until Finish, time is 200 ms earlier
	}
	switch r.Sc.Handler {
	case "err":
		return ErrHandler
	case "panic":
		panic(PanicValue)
	}
	return nil
}

// Returned marks the moment the middleware body itself returned (used for frameworks that run the handler *after*
// the middleware has returned, e.g. gear): Finish then reports the events of the body's own activation — what the
// IR describes — and notes on stderr whether the handler ran afterwards, outside the entry.
func (r *Run) Returned() {
	if r.marked {
		return
	}
	n := r.node()
	r.marked = true
	r.markAsked = sum(n, base.MetricEventPass) + sum(n, base.MetricEventBlock)
	r.markExits = sum(n, base.MetricEventComplete)
	r.markErrs = sum(n, base.MetricEventError)
	r.markRuns = r.handlerRuns
}

// Fallback: the configured block fallback was invoked.
func (r *Run) Fallback() { r.fallbacks++ }

// Rejected: the default rejection was observed by the caller (429 / the BlockError came back).
func (r *Run) Rejected() { r.rejections++ }

// IsBlockError reports whether err is sentinel's block error.
func IsBlockError(err error) bool {
	var be *base.BlockError
	return errors.As(err, &be)
}

// Guard runs f and classifies a panic reaching the caller.
func (r *Run) Guard(f func()) {
	defer func() {
		if p := recover(); p != nil {
			if p == PanicValue {
				return
			}
			if re, ok := p.(runtime.Error); ok && strings.Contains(re.Error(), "nil pointer dereference") {
				r.nilDeref = true
				return
			}
			if s := fmt.Sprint(p); strings.Contains(s, "nil pointer dereference") {
				r.nilDeref = true
				return
			}
			r.otherPanic = p
		}
	}()
	f()
}

func rep(evs []string, e string, n int64) []string {
	for i := int64(0); i < n; i++ {
		evs = append(evs, e)
	}
	return evs
}

// Finish prints the observed trace line.
func (r *Run) Finish() {
	if r.stepped {
		r.stepped = false
		atomic.AddInt64(&clock.offsetNs, backstepNs) // back to wall time before the statistics are read
	}
	n := r.node()
	asked := sum(n, base.MetricEventPass) + sum(n, base.MetricEventBlock)
	exits := sum(n, base.MetricEventComplete)
	errs := sum(n, base.MetricEventError)
	var evs []string
	runs := r.handlerRuns
	if r.marked {
		if r.handlerRuns > r.markRuns {
			fmt.Fprintf(os.Stderr, "note %s %v %s: handler ran %d time(s) after the middleware had returned (entry exits by then: %d)\n",
				r.Key, r.Sc.Blocked, r.Sc.Handler, r.handlerRuns-r.markRuns, r.markExits)
		}
		asked, exits, errs, runs = r.markAsked, r.markExits, r.markErrs, r.markRuns
	}
	if runs > 0 {
		evs = rep(evs, "entryAsked", r.askedBefore)
		evs = rep(evs, "exit", r.exitBefore)
		evs = rep(evs, "handlerRun", int64(runs))
		if r.Sc.Handler == "err" && r.ErrBack {
			evs = append(evs, "errBack")
		}
		evs = rep(evs, "traced", errs)
		evs = rep(evs, "entryAsked", asked-r.askedBefore)
		evs = rep(evs, "exit", exits-r.exitBefore)
	} else {
		evs = rep(evs, "entryAsked", asked)
		evs = rep(evs, "traced", errs)
		evs = rep(evs, "exit", exits)
	}
	if r.fallbacks+r.rejections > 0 {
		evs = append(evs, "fallback")
	}
	if r.nilDeref {
		evs = append(evs, "nilDeref")
	}
	// consistency of the probes themselves: the gauge must equal passes minus exits, and a live entry inside the
	// handler must show as concurrency 1
	if n != nil {
		if int64(n.CurrentConcurrency()) != sum(n, base.MetricEventPass)-sum(n, base.MetricEventComplete) {
			evs = append(evs, "gaugeMismatch")
		}
		if runs > 0 && int64(r.liveInHandler) != (r.askedBefore-sum(n, base.MetricEventBlock))-r.exitBefore {
			evs = append(evs, "liveMismatch")
		}
	}
	if r.otherPanic != nil {
		evs = append(evs, "otherPanic")
	}
	t := strings.Join(evs, ",")
	if t == "" {
		t = "-"
	}
	b := "admitted"
	if r.Sc.Blocked {
		b = "blocked"
	}
	head := fmt.Sprintf("trace %s %s %s %s", r.Key, b, r.Sc.Handler, r.Variant)
	if !r.backstep {
		fmt.Printf("%s => %s\n", head, t)
		return
	}
	// valid: the handler was reached inside the aligned bucket (so the entry — and with it the fresh node — was created in
	// it, and the completion recorded 200 ms earlier is not before the node's first bucket), and everything was read back
	// while that bucket was still inside the node's two-bucket read window
	readAt := time.Now().UnixNano() / 1e6
	valid := readAt < r.bucketStart+1000 && (r.handlerAt == 0 || r.handlerAt < r.bucketStart+500)
	pending = append(pending, pendingLine{head, t, valid})
}
