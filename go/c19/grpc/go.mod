// Template of the synthesized harness module (see checks/C19.py: build_dyn).
module c19h

go 1.22

require (
	github.com/alibaba/sentinel-golang v1.0.2
	google.golang.org/grpc v1.34.0
)

replace github.com/alibaba/sentinel-golang => /repo
