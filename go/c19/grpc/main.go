// C19 dynamic harness for pkg/adapters/grpc: the four real interceptors, invoked in-process the way
// grpc-go invokes them (an interceptor is a plain function taking the next handler / invoker / streamer).
package main

import (
	"context"

	"c19h/probe"

	sgrpc "c19h/adapter"
	"github.com/alibaba/sentinel-golang/core/base"
	"google.golang.org/grpc"
)

func main() {
	probe.Init()
	ctx := context.Background()
	for cs, more := probe.Next(); more; cs, more = probe.Next() {
		{
			custom, sc := cs.Custom, cs.Sc
			probe.SetCase(cs)
			// unary server
			{
				r := probe.New("grpc/server.go:NewUnaryServerInterceptor.func1", sc, true)
				var opts []sgrpc.Option
				if custom {
					opts = append(opts, sgrpc.WithUnaryServerBlockFallback(func(context.Context, interface{}, *grpc.UnaryServerInfo, *base.BlockError) (interface{}, error) {
						r.Fallback()
						return nil, nil
					}))
				}
				ic := sgrpc.NewUnaryServerInterceptor(opts...)
				r.Guard(func() {
					_, err := ic(ctx, "req", &grpc.UnaryServerInfo{FullMethod: r.Res}, func(context.Context, interface{}) (interface{}, error) {
						return "resp", r.InHandler()
					})
					if probe.IsBlockError(err) {
						r.Rejected()
					}
				})
				r.Finish()
			}
			// stream server
			{
				r := probe.New("grpc/server.go:NewStreamServerInterceptor.func1", sc, true)
				var opts []sgrpc.Option
				if custom {
					opts = append(opts, sgrpc.WithStreamServerBlockFallback(func(interface{}, grpc.ServerStream, *grpc.StreamServerInfo, *base.BlockError) error {
						r.Fallback()
						return nil
					}))
				}
				ic := sgrpc.NewStreamServerInterceptor(opts...)
				r.Guard(func() {
					err := ic(nil, nil, &grpc.StreamServerInfo{FullMethod: r.Res}, func(interface{}, grpc.ServerStream) error {
						return r.InHandler()
					})
					if probe.IsBlockError(err) {
						r.Rejected()
					}
				})
				r.Finish()
			}
			// unary client
			{
				r := probe.New("grpc/client.go:NewUnaryClientInterceptor.func1", sc, true)
				var opts []sgrpc.Option
				if custom {
					opts = append(opts, sgrpc.WithUnaryClientBlockFallback(func(context.Context, string, interface{}, *grpc.ClientConn, *base.BlockError) error {
						r.Fallback()
						return nil
					}))
				}
				ic := sgrpc.NewUnaryClientInterceptor(opts...)
				r.Guard(func() {
					err := ic(ctx, r.Res, "req", "reply", nil, func(context.Context, string, interface{}, interface{}, *grpc.ClientConn, ...grpc.CallOption) error {
						return r.InHandler()
					})
					if probe.IsBlockError(err) {
						r.Rejected()
					}
				})
				r.Finish()
			}
			// stream client
			{
				r := probe.New("grpc/client.go:NewStreamClientInterceptor.func1", sc, true)
				var opts []sgrpc.Option
				if custom {
					opts = append(opts, sgrpc.WithStreamClientBlockFallback(func(context.Context, *grpc.StreamDesc, *grpc.ClientConn, string, *base.BlockError) (grpc.ClientStream, error) {
						r.Fallback()
						return nil, nil
					}))
				}
				ic := sgrpc.NewStreamClientInterceptor(opts...)
				r.Guard(func() {
					_, err := ic(ctx, &grpc.StreamDesc{}, nil, r.Res, func(context.Context, *grpc.StreamDesc, *grpc.ClientConn, string, ...grpc.CallOption) (grpc.ClientStream, error) {
						return nil, r.InHandler()
					})
					if probe.IsBlockError(err) {
						r.Rejected()
					}
				})
				r.Finish()
			}
		}
	}
}
