// C19 dynamic harness for pkg/adapters/fiber: the real middleware in a real fiber app; the app's fasthttp
// handler is called synchronously (app.Test would serve on another goroutine, where a handler panic cannot
// be observed).
package main

import (
	"net/http"

	"c19h/probe"

	sfiber "c19h/adapter"
	"github.com/gofiber/fiber/v2"
	"github.com/valyala/fasthttp"
)

const key = "fiber/middleware.go:SentinelMiddleware.func1"

func main() {
	probe.Init()
	for cs, more := probe.Next(); more; cs, more = probe.Next() {
		custom, sc := cs.Custom, cs.Sc
		probe.SetCase(cs)
		r := probe.New(key, sc, true)
		opts := []sfiber.Option{sfiber.WithResourceExtractor(func(*fiber.Ctx) string { return r.Res })}
		if custom {
			opts = append(opts, sfiber.WithBlockFallback(func(c *fiber.Ctx) error {
				r.Fallback()
				return c.SendStatus(http.StatusServiceUnavailable)
			}))
		}
		app := fiber.New(fiber.Config{DisableStartupMessage: true})
		app.Use(sfiber.SentinelMiddleware(opts...))
		app.Get("/x", func(c *fiber.Ctx) error {
			if err := r.InHandler(); err != nil {
				return err
			}
			return c.SendString("ok")
		})
		var fctx fasthttp.RequestCtx
		fctx.Request.Header.SetMethod("GET")
		fctx.Request.SetRequestURI("/x")
		h := app.Handler()
		r.Guard(func() { h(&fctx) })
		if !custom && fctx.Response.StatusCode() == http.StatusTooManyRequests {
			r.Rejected()
		}
		r.Finish()
	}
}
