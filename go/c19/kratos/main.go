// C19 dynamic harness for pkg/adapters/kratos: the client middleware, plain arm (T) and outlier arm without (EE) /
// with (ET) client metadata in the context, invoked in-process as a middleware.Middleware value.
package main

import (
	"context"

	"c19h/probe"

	skratos "c19h/adapter"
	"github.com/go-kratos/kratos/v2/metadata"
	"github.com/go-kratos/kratos/v2/transport"
)

type tr struct{ endpoint string }

func (t tr) Kind() transport.Kind            { return transport.KindGRPC }
func (t tr) Endpoint() string                { return t.endpoint }
func (t tr) Operation() string               { return "/op" }
func (t tr) RequestHeader() transport.Header { return nil }
func (t tr) ReplyHeader() transport.Header   { return nil }

func main() {
	probe.Init()
	for cs, more := probe.Next(); more; cs, more = probe.Next() {
		custom, sc := cs.Custom, cs.Sc
		probe.SetCase(cs)
		for _, arm := range []string{"T", "EE", "ET"} {
			r := probe.New("kratos/client.go:SentinelClientMiddleware.func1.func1:"+arm, sc, true)
			ctx := transport.NewClientContext(context.Background(), tr{"discovery:///" + r.Res})
			if arm == "ET" {
				ctx = metadata.NewClientContext(ctx, metadata.New())
			}
			opts := []skratos.Option{skratos.WithResourceExtract(func(context.Context, interface{}) string { return r.Res })}
			if custom {
				opts = append(opts, skratos.WithBlockFallback(func(context.Context, interface{}, error) (interface{}, error) {
					r.Fallback()
					return nil, nil
				}))
			}
			if arm != "T" {
				opts = append(opts, skratos.WithEnableOutlier(func(context.Context) bool { return true }))
			}
			h := skratos.SentinelClientMiddleware(opts...)(func(context.Context, interface{}) (interface{}, error) {
				return "reply", r.InHandler()
			})
			r.Guard(func() {
				if _, err := h(ctx, "req"); probe.IsBlockError(err) {
					r.Rejected()
				}
			})
			r.Finish()
		}
	}
}
