// C19 dynamic harness for pkg/adapters/echo: the real middleware in a real echo instance, in-process.
package main

import (
	"net/http"
	"net/http/httptest"

	"c19h/probe"

	secho "c19h/adapter"
	"github.com/labstack/echo/v4"
)

const key = "echo/middleware.go:SentinelMiddleware.func1.func1"

func main() {
	probe.Init()
	for cs, more := probe.Next(); more; cs, more = probe.Next() {
		custom, sc := cs.Custom, cs.Sc
		probe.SetCase(cs)
		// default resource name: METHOD:route
		r := probe.New(key, sc, true, func(id string) string { return "GET:/" + id })
		var opts []secho.Option
		if custom {
			opts = append(opts, secho.WithBlockFallback(func(c echo.Context) error {
				r.Fallback()
				return c.String(http.StatusServiceUnavailable, "custom")
			}))
		}
		e := echo.New()
		e.HideBanner = true
		e.Use(secho.SentinelMiddleware(opts...))
		e.GET("/"+r.ID, func(c echo.Context) error {
			if err := r.InHandler(); err != nil {
				return err
			}
			return c.String(http.StatusOK, "ok")
		})
		w := httptest.NewRecorder()
		req := httptest.NewRequest("GET", "/"+r.ID, nil)
		r.Guard(func() { e.ServeHTTP(w, req) })
		if !custom && w.Code == http.StatusTooManyRequests {
			r.Rejected()
		}
		r.Finish()
	}
}
