// C19 dynamic harness for pkg/adapters/iris: the real middleware in a real iris application, in-process, under the
// default and under forced execution rules.
package main

import (
	"net/http"
	"net/http/httptest"

	"c19h/probe"

	siris "c19h/adapter"
	"github.com/kataras/iris/v12"
)

const key = "iris/middleware.go:SentinelMiddleware.func1"

func main() {
	probe.Init()
	for cs, more := probe.Next(); more; cs, more = probe.Next() {
		// forced: iris execution rules under which the framework itself calls ctx.Next() after every handler that
		// neither called it nor stopped the context — returning from the middleware does not end the chain there
		for _, forced := range []bool{false, true} {
			custom, sc := cs.Custom, cs.Sc
			probe.SetCase(cs)
			if forced && !sc.Blocked {
				// Only the blocked scenarios are driven under forced rules.  In iris v12.2.0 a `ctx.Next()` inside a forced
				// handler is only *recorded* (Context.ProceedAndReportIfStopped), the framework advances afterwards: no
				// middleware can bracket its handler there (observed: `entryAsked,exit,handlerRun`, or — for the route
				// registered first, whose middleware slice is wrapped once — the handler is not reached at all).  That is the
				// framework's doing, described in notes/C19.md; the question asked here is the one of seeded change r3-3:
				// does a blocked request reach the handler when the framework advances the chain by itself?
				continue
			}
			// default resource name: METHOD:URL
			r := probe.New(key, sc, false, func(id string) string { return "GET:/" + id })
			var opts []siris.Option
			if custom {
				opts = append(opts, siris.WithBlockFallback(func(c iris.Context) {
					r.Fallback()
					c.StatusCode(http.StatusServiceUnavailable)
					c.StopExecution()
				}))
			}
			app := iris.New()
			app.Logger().SetLevel("disable")
			if forced {
				app.SetExecutionRules(iris.ExecutionRules{
					Begin: iris.ExecutionOptions{Force: true},
					Main:  iris.ExecutionOptions{Force: true},
					Done:  iris.ExecutionOptions{Force: true},
				})
			}
			app.Use(siris.SentinelMiddleware(opts...))
			app.Get("/"+r.ID, func(c iris.Context) {
				if err := r.InHandler(); err != nil {
					c.StopWithError(http.StatusInternalServerError, err)
					return
				}
				c.WriteString("ok")
			})
			if err := app.Build(); err != nil {
				panic(err)
			}
			w := httptest.NewRecorder()
			req := httptest.NewRequest("GET", "/"+r.ID, nil)
			r.Guard(func() { app.ServeHTTP(w, req) })
			if !custom && w.Code == http.StatusTooManyRequests {
				r.Rejected()
			}
			r.Finish()
		}
	}
}
