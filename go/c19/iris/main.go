// C19 dynamic harness for pkg/adapters/iris: the real middleware in a real iris application, in-process.
package main

import (
	"net/http"
	"net/http/httptest"

	"c19h/probe"

	siris "c19h/adapter"
	"github.com/kataras/iris/v12"
)

const key = "iris/middleware.go:SentinelMiddleware.func1"

func main() {
	probe.Init()
	for _, cs := range probe.Plan() {
		custom, sc := cs.Custom, cs.Sc
		// default resource name: METHOD:URL
		r := probe.New(key, sc, false, func(id string) string { return "GET:/" + id })
		var opts []siris.Option
		if custom {
			opts = append(opts, siris.WithBlockFallback(func(c iris.Context) {
				r.Fallback()
				c.StatusCode(http.StatusServiceUnavailable)
				c.StopExecution()
			}))
		}
		app := iris.New()
		app.Logger().SetLevel("disable")
		app.Use(siris.SentinelMiddleware(opts...))
		app.Get("/"+r.ID, func(c iris.Context) {
			if err := r.InHandler(); err != nil {
				c.StopWithError(http.StatusInternalServerError, err)
				return
			}
			c.WriteString("ok")
		})
		if err := app.Build(); err != nil {
			panic(err)
		}
		w := httptest.NewRecorder()
		req := httptest.NewRequest("GET", "/"+r.ID, nil)
		r.Guard(func() { app.ServeHTTP(w, req) })
		if !custom && w.Code == http.StatusTooManyRequests {
			r.Rejected()
		}
		r.Finish()
	}
}
