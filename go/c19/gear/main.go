// C19 dynamic harness for pkg/adapters/gear: the real middleware on a real gear router, in-process.  gear runs
// middlewares one after the other until one returns an error or ends the context (a middleware cannot wrap the
// handler): the handler runs after the adapter's body has returned and its deferred Exit has run.
package main

import (
	"io"
	"log"
	"net/http"
	"net/http/httptest"

	"c19h/probe"

	sgear "c19h/adapter"
	"github.com/teambition/gear"
)

const key = "gear/middleware.go:SentinelMiddleware.func1"

func main() {
	probe.Init()
	for cs, more := probe.Next(); more; cs, more = probe.Next() {
		custom, sc := cs.Custom, cs.Sc
		probe.SetCase(cs)
		r := probe.New(key, sc, false) // the handler's error goes to gear, not back to the middleware
		opts := []sgear.Option{sgear.WithResourceExtractor(func(*gear.Context) string { return r.Res })}
		if custom {
			opts = append(opts, sgear.WithBlockFallback(func(ctx *gear.Context) error {
				r.Fallback()
				return ctx.End(http.StatusServiceUnavailable, []byte("custom"))
			}))
		}
		mw := sgear.SentinelMiddleware(opts...)
		app := gear.New()
		app.Set(gear.SetLogger, log.New(io.Discard, "", 0))
		router := gear.NewRouter()
		router.Use(mw)
		router.Handle("GET", "/x", func(ctx *gear.Context) error {
			if err := r.InHandler(); err != nil {
				return err
			}
			return ctx.End(http.StatusOK, []byte("ok"))
		})
		app.UseHandler(router)
		w := httptest.NewRecorder()
		req := httptest.NewRequest("GET", "/x", nil)
		r.Guard(func() { app.ServeHTTP(w, req) })
		if !custom && w.Code == http.StatusTooManyRequests {
			r.Rejected()
		}
		r.Finish()
	}
}
