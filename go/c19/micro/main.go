// C19 dynamic harness for pkg/adapters/micro: the handler wrapper, the stream wrapper and the client wrapper
// (both arms: plain and outlier) are driven in-process with fake requests / a fake wrapped client, the way
// go-micro invokes wrappers (a wrapper is a function over the next handler / the wrapped client).
package main

import (
	"context"

	"c19h/probe"

	smicro "c19h/adapter"
	"github.com/alibaba/sentinel-golang/core/base"
	"github.com/micro/go-micro/v2/client"
	"github.com/micro/go-micro/v2/server"
)

type sreq struct {
	server.Request
	name string
}

func (r sreq) Method() string  { return r.name }
func (r sreq) Service() string { return r.name }

type sstream struct {
	server.Stream
	req  sreq
	sent []interface{}
}

func (s *sstream) Request() server.Request  { return s.req }
func (s *sstream) Send(v interface{}) error { s.sent = append(s.sent, v); return nil }

type creq struct {
	client.Request
	name string
}

func (r creq) Method() string  { return r.name }
func (r creq) Service() string { return r.name }

// the wrapped client: its Call / Stream are "the handler"
type fakeClient struct {
	client.Client
	r *probe.Run
}

func (f fakeClient) Call(ctx context.Context, req client.Request, rsp interface{}, opts ...client.CallOption) error {
	return f.r.InHandler()
}
func (f fakeClient) Stream(ctx context.Context, req client.Request, opts ...client.CallOption) (client.Stream, error) {
	return nil, f.r.InHandler()
}

func main() {
	probe.Init()
	ctx := context.Background()
	outlier := smicro.WithEnableOutlier(func(context.Context) bool { return true })
	for cs, more := probe.Next(); more; cs, more = probe.Next() {
		custom, sc := cs.Custom, cs.Sc
		probe.SetCase(cs)
		// server handler wrapper
		{
			r := probe.New("micro/server.go:NewHandlerWrapper.func1.func1", sc, true)
			var opts []smicro.Option
			if custom {
				opts = append(opts, smicro.WithServerBlockFallback(func(context.Context, server.Request, *base.BlockError) error {
					r.Fallback()
					return nil
				}))
			}
			h := smicro.NewHandlerWrapper(opts...)(func(context.Context, server.Request, interface{}) error { return r.InHandler() })
			r.Guard(func() {
				if err := h(ctx, sreq{name: r.Res}, nil); probe.IsBlockError(err) {
					r.Rejected()
				}
			})
			r.Finish()
		}
		// server stream wrapper (the wrapper never calls a handler itself).  The custom-fallback case is run as two
		// single-option variants, the regression for the option guards repaired by /repo d41329a:
		//   streamOnly: only WithStreamServerBlockFallback is configured -> that fallback must be what rejects a blocked
		//               stream (the default `stream.Send(blockErr)` does NOT count here);
		//   unaryOnly:  only WithServerBlockFallback (the unary option) is configured -> the stream wrapper must fall back
		//               to its default rejection, not call a nil stream fallback.
		for _, variant := range []string{"streamOnly", "unaryOnly"} {
			if !custom && variant == "unaryOnly" {
				continue // the default-options case is run once
			}
			r := probe.New("micro/server.go:NewStreamWrapper.func1", sc, true)
			if custom {
				r.Variant = variant
			}
			var opts []smicro.Option
			// a custom resource extractor as well (guarded the same way): it must be the one that names the resource
			if custom && variant == "streamOnly" {
				opts = append(opts,
					smicro.WithStreamServerBlockFallback(func(s server.Stream, _ *base.BlockError) server.Stream {
						r.Fallback()
						return s
					}),
					smicro.WithStreamServerResourceExtractor(func(server.Stream) string { return r.Res }))
			}
			if custom && variant == "unaryOnly" {
				opts = append(opts,
					smicro.WithServerBlockFallback(func(context.Context, server.Request, *base.BlockError) error { return nil }),
					smicro.WithServerResourceExtractor(func(context.Context, server.Request) string { return "unary-extractor-must-not-be-used" }))
			}
			name := r.Res
			if custom && variant == "streamOnly" {
				name = "request-method-must-not-be-used" // the stream extractor has to override it
			}
			st := &sstream{req: sreq{name: name}}
			r.Guard(func() {
				_ = smicro.NewStreamWrapper(opts...)(st)
				for _, v := range st.sent {
					if e, ok := v.(error); ok && probe.IsBlockError(e) && !(custom && variant == "streamOnly") {
						r.Rejected()
					}
				}
			})
			r.Finish()
		}
		// client wrapper: Call and Stream, plain arm (T) and outlier arm (E)
		for _, arm := range []string{"T", "E"} {
			for _, m := range []string{"Call", "Stream"} {
				r := probe.New("micro/client.go:clientWrapper."+m+":"+arm, sc, true)
				var opts []smicro.Option
				if arm == "E" {
					opts = append(opts, outlier)
				}
				if custom {
					opts = append(opts,
						smicro.WithClientBlockFallback(func(context.Context, client.Request, *base.BlockError) error {
							r.Fallback()
							return nil
						}),
						smicro.WithStreamClientBlockFallback(func(context.Context, client.Request, *base.BlockError) (client.Stream, error) {
							r.Fallback()
							return nil, nil
						}))
				}
				c := smicro.NewClientWrapper(opts...)(fakeClient{r: r})
				r.Guard(func() {
					var err error
					if m == "Call" {
						err = c.Call(ctx, creq{name: r.Res}, nil)
					} else {
						_, err = c.Stream(ctx, creq{name: r.Res})
					}
					if probe.IsBlockError(err) {
						r.Rejected()
					}
				})
				r.Finish()
			}
		}
	}
}
