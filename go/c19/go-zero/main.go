// C19 dynamic harness for pkg/adapters/go-zero: both middlewares are plain func(http.HandlerFunc) http.HandlerFunc
// values; they are invoked in-process the way go-zero's chain invokes them.
package main

import (
	"net/http"
	"net/http/httptest"

	"c19h/probe"

	szero "c19h/adapter"
)

func main() {
	probe.Init()
	for cs, more := probe.Next(); more; cs, more = probe.Next() {
		custom, sc := cs.Custom, cs.Sc
		probe.SetCase(cs)
		for _, which := range []string{"global", "routing"} {
			k := "go-zero/global_middleware.go:SentinelMiddleware.func1.func1"
			if which == "routing" {
				k = "go-zero/routing_middleware.go:SentinelRouteMiddleware.Handle.func1"
			}
			r := probe.New(k, sc, false, func(id string) string { return "GET:/" + id })
			next := func(w http.ResponseWriter, req *http.Request) {
				if err := r.InHandler(); err != nil {
					http.Error(w, err.Error(), http.StatusInternalServerError)
					return
				}
				w.WriteHeader(http.StatusOK)
			}
			var h http.HandlerFunc
			isCustom := false
			if which == "global" {
				var opts []szero.Option
				if custom {
					isCustom = true
					opts = append(opts, szero.WithBlockFallback(func(*http.Request) (int, string) {
						r.Fallback()
						return http.StatusServiceUnavailable, "custom"
					}))
				}
				h = szero.SentinelMiddleware(opts...)(next)
			} else {
				h = szero.NewSentinelRouteMiddleware().Handle(next) // no options: both variants are the default
			}
			w := httptest.NewRecorder()
			req := httptest.NewRequest("GET", "/"+r.ID, nil)
			r.Guard(func() { h(w, req) })
			if !isCustom && w.Code == http.StatusTooManyRequests {
				r.Rejected()
			}
			r.Finish()
		}
	}
}
