// C19 dynamic harness for pkg/adapters/goframe: the real middleware in a real ghttp server (started on an
// ephemeral loopback port because ghttp only builds its routes in Start; requests are served in-process
// through ServeHTTP).
package main

import (
	"fmt"
	"net/http"
	"net/http/httptest"

	"c19h/probe"

	sgf "c19h/adapter"
	"github.com/gogf/gf/v2/frame/g"
	"github.com/gogf/gf/v2/net/ghttp"
)

const key = "goframe/middleware.go:SentinelMiddleware.func1"

func main() {
	probe.Init()
	i := 0
	for cs, more := probe.Next(); more; cs, more = probe.Next() {
		i++
		custom, sc := cs.Custom, cs.Sc
		probe.SetCase(cs)
		// default resource name: METHOD:path
		r := probe.New(key, sc, false, func(id string) string { return "GET:/" + id })
		var opts []sgf.Option
		if custom {
			opts = append(opts, sgf.WithBlockFallback(func(req *ghttp.Request) {
				r.Fallback()
				req.Response.WriteHeader(http.StatusServiceUnavailable)
			}))
		}
		s := g.Server(fmt.Sprintf("c19-%d", i))
		s.SetAddr("127.0.0.1:0")
		s.SetDumpRouterMap(false)
		s.SetAccessLogEnabled(false)
		s.SetErrorLogEnabled(false)
		s.Group("/", func(group *ghttp.RouterGroup) {
			group.Middleware(sgf.SentinelMiddleware(opts...))
			group.ALL("/"+r.ID, func(req *ghttp.Request) {
				if err := r.InHandler(); err != nil {
					req.Response.WriteHeader(http.StatusInternalServerError)
					return
				}
				req.Response.Write("ok")
			})
		})
		if err := s.Start(); err != nil {
			panic(err)
		}
		w := httptest.NewRecorder()
		req := httptest.NewRequest("GET", "/"+r.ID, nil)
		r.Guard(func() { s.ServeHTTP(w, req) })
		if !custom && w.Code == http.StatusTooManyRequests {
			r.Rejected()
		}
		r.Finish()
		_ = s.Shutdown()
	}
}
