#!/bin/bash
# usage: .mut.sh <name> <file> <sed-expr> <test-pkgs>
export GOFLAGS=-mod=mod GOPROXY=off GOSUMDB=off GOTOOLCHAIN=local
M=/tmp/m-C07-0
cd $M && git checkout -q -- . 
sed -i "$3" $2
if git diff --quiet; then echo "MUTANT $1: sed did not change anything"; exit 1; fi
git diff | grep '^[-+][^-+]' | head -6
t=$(go test $4 2>&1 | tail -3 | tr '\n' ' ')
echo "repo tests: $t"
cd /tmp/vw/C07
s=$(date +%s.%N)
VERIF_REPO=$M bin/check C07 quick > .mut.out 2>&1; rc=$?
e=$(date +%s.%N)
echo "MUTANT $1: exit=$rc in $(echo "$e - $s" | bc)s: $(grep -c '^VIOLATION' .mut.out) violation line(s)"
grep '^VIOLATION' .mut.out | head -2
cd $M && git checkout -q -- .
